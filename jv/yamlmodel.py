"""Model of PyYAML's implicit scalar resolution, read from source.

* stock table: the Resolver.add_implicit_resolver(...) calls in the installed
  yaml/resolver.py (AST, never imported)
* customised tables: a function of the repository that defines a class deriving
  from a yaml loader / dumper and edits its table with
  remove_implicit_resolver(Cls, tag) / Cls.add_implicit_resolver(tag, re.compile(...), firsts)
  (helpers taking the class as first argument are followed)
"""

from __future__ import annotations

import ast
import os
import re
from typing import Dict, List, Optional, Sequence, Tuple

from .relang import DFA, Unsupported
from .srcmodel import AnalysisError, FuncNode, call_leaf, call_name, const_str, dotted, walk_local

FLAG_NAMES = {"X": re.X, "VERBOSE": re.X, "I": re.I, "IGNORECASE": re.I, "S": re.S, "DOTALL": re.S, "M": re.M, "MULTILINE": re.M, "A": re.A, "ASCII": re.A, "U": re.U, "UNICODE": re.U}

Entry = Tuple[str, str, int, Optional[List[Optional[str]]]]  # tag, pattern, flags, firsts (None = wildcard)


def yaml_dir() -> str:
    import sysconfig

    for base in (sysconfig.get_paths()["purelib"], sysconfig.get_paths()["platlib"]):
        d = os.path.join(base, "yaml")
        if os.path.isfile(os.path.join(d, "resolver.py")):
            return d
    raise AnalysisError("PyYAML source (yaml/resolver.py) not found in the interpreter's site-packages")


def eval_flags(e: Optional[ast.AST]) -> int:
    if e is None:
        return 0
    if isinstance(e, ast.Constant) and isinstance(e.value, int):
        return e.value
    if isinstance(e, ast.Attribute) and e.attr in FLAG_NAMES:
        return FLAG_NAMES[e.attr]
    if isinstance(e, ast.BinOp) and isinstance(e.op, ast.BitOr):
        return eval_flags(e.left) | eval_flags(e.right)
    raise AnalysisError(f"cannot evaluate regex flags: {ast.unparse(e)}")


def eval_firsts(e: Optional[ast.AST]) -> Optional[List[Optional[str]]]:
    if e is None or (isinstance(e, ast.Constant) and e.value is None):
        return None
    if isinstance(e, ast.Call) and call_leaf(e) == "list" and e.args and const_str(e.args[0]) is not None:
        return list(const_str(e.args[0]))
    if isinstance(e, (ast.List, ast.Tuple)):
        out: List[Optional[str]] = []
        for x in e.elts:
            if isinstance(x, ast.Constant) and (isinstance(x.value, str) or x.value is None):
                out.append(x.value)
            else:
                raise AnalysisError(f"cannot evaluate first-character list: {ast.unparse(e)}")
        return out
    if const_str(e) is not None:
        return list(const_str(e))
    raise AnalysisError(f"cannot evaluate first-character list: {ast.unparse(e)}")


def parse_add_call(c: ast.Call) -> Entry:
    """Cls.add_implicit_resolver(tag, re.compile(pattern[, flags]), firsts)"""
    if len(c.args) < 2:
        raise AnalysisError(f"unexpected add_implicit_resolver call: {ast.unparse(c)[:80]}")
    tag = const_str(c.args[0])
    rx = c.args[1]
    if tag is None or not (isinstance(rx, ast.Call) and call_name(rx) == "re.compile" and rx.args and const_str(rx.args[0]) is not None):
        raise AnalysisError(f"add_implicit_resolver with a non-literal tag or regex: {ast.unparse(c)[:100]}")
    flags = eval_flags(rx.args[1] if len(rx.args) > 1 else None)
    for k in rx.keywords:
        if k.arg == "flags":
            flags = eval_flags(k.value)
    firsts_e = c.args[2] if len(c.args) > 2 else None
    for k in c.keywords:
        if k.arg == "first":
            firsts_e = k.value
    return (tag, const_str(rx.args[0]), flags, eval_firsts(firsts_e))


def yaml_class_names() -> set:
    """Names of the classes defined in the installed yaml package (__init__, loader, dumper, cyaml)."""
    import ast as _ast
    import os as _os

    out = set()
    d = yaml_dir()
    for fn in ("__init__.py", "loader.py", "dumper.py", "cyaml.py"):
        p = _os.path.join(d, fn)
        if _os.path.exists(p):
            with open(p) as f:
                for n in _ast.walk(_ast.parse(f.read())):
                    if isinstance(n, _ast.ClassDef):
                        out.add(n.name)
    return out


def stock_table() -> Tuple[List[Entry], str]:
    path = os.path.join(yaml_dir(), "resolver.py")
    with open(path) as f:
        tree = ast.parse(f.read())
    out: List[Entry] = []
    for s in tree.body:
        if isinstance(s, ast.Expr) and isinstance(s.value, ast.Call) and call_name(s.value) == "Resolver.add_implicit_resolver":
            out.append(parse_add_call(s.value))
    if len(out) < 8:
        raise AnalysisError(f"only {len(out)} stock implicit resolvers found in {path}")
    return out, path


def class_uses_stock_resolver(cls_name: str) -> bool:
    """Does yaml.<cls_name> inherit the stock Resolver class?"""
    d = yaml_dir()
    for fn in ("loader.py", "dumper.py", "cyaml.py"):
        with open(os.path.join(d, fn)) as f:
            tree = ast.parse(f.read())
        for n in tree.body:
            if isinstance(n, ast.ClassDef) and n.name == cls_name:
                return any(dotted(b) == "Resolver" for b in n.bases)
    return False


class TableEdit:
    def __init__(self):
        self.bases: List[str] = []
        self.removed: List[str] = []
        self.added: List[Entry] = []
        self.class_name: Optional[str] = None


def extract_table_edits(module, fn: ast.AST) -> TableEdit:
    """Read the class definition and the remove/add calls of a customising function."""
    ed = TableEdit()
    classes = [n for n in walk_local(fn) if isinstance(n, ast.ClassDef)]
    if len(classes) != 1:
        raise AnalysisError(f"expected exactly one class definition in {getattr(fn, 'name', '?')}, found {len(classes)}")
    cls = classes[0]
    ed.class_name = cls.name
    for b in cls.bases:
        # getattr(yaml, "CSafeLoader", yaml.SafeLoader)  or  yaml.SafeDumper
        if isinstance(b, ast.Call) and call_leaf(b) == "getattr" and len(b.args) == 3:
            ed.bases += [const_str(b.args[1]) or "?", dotted(b.args[2]).split(".")[-1] if dotted(b.args[2]) else "?"]
        elif dotted(b):
            ed.bases.append(dotted(b).split(".")[-1])
        else:
            raise AnalysisError(f"cannot read base class {ast.unparse(b)}")
    if [s for s in cls.body if not isinstance(s, ast.Pass) and not (isinstance(s, ast.Expr) and isinstance(s.value, ast.Constant))]:
        raise AnalysisError(f"class {cls.name} has a body: resolver edits inside the class body are not modelled")

    def visit(body_fn: ast.AST, cls_var: str, depth: int) -> None:
        nested = {n.name: n for n in walk_local(body_fn) if isinstance(n, FuncNode)}
        calls = sorted((c for c in walk_local(body_fn) if isinstance(c, ast.Call)), key=lambda c: (c.lineno, c.col_offset))
        for c in calls:
            leaf = call_leaf(c)
            if leaf == "remove_implicit_resolver" and c.args and isinstance(c.args[0], ast.Name) and c.args[0].id == cls_var:
                tag = const_str(c.args[1]) if len(c.args) > 1 else None
                if tag is None:
                    raise AnalysisError("remove_implicit_resolver with a non-literal tag")
                ed.removed.append(tag)
            elif leaf == "add_implicit_resolver" and isinstance(c.func, ast.Attribute) and isinstance(c.func.value, ast.Name) and c.func.value.id == cls_var:
                ed.added.append(parse_add_call(c))
            elif isinstance(c.func, ast.Name) and c.args and isinstance(c.args[0], ast.Name) and c.args[0].id == cls_var and leaf not in ("remove_implicit_resolver",):
                target = nested.get(leaf) or module.funcs.get(leaf)
                if target is not None and depth < 3:
                    p0 = target.args.args[0].arg if target.args.args else None
                    if p0:
                        visit(target, p0, depth + 1)

    visit(fn, cls.name, 0)
    return ed


def apply_edits(stock: Sequence[Entry], ed: TableEdit) -> List[Entry]:
    t = [e for e in stock if e[0] not in ed.removed]
    return t + list(ed.added)


class ResolverLang:
    """Languages induced by a resolver table."""

    def __init__(self, table: Sequence[Entry]):
        self.table = list(table)
        self.L: List[DFA] = []
        for tag, pat, flags, firsts in self.table:
            try:
                m = DFA.from_regex(pat, flags, mode="match")
            except Unsupported as ex:
                raise AnalysisError(f"regex of resolver {tag} uses an unsupported construct: {ex}")
            if firsts is None:
                lang = m
            else:
                chars = [f for f in firsts if f]
                lang = m & DFA.first_char_in(chars) if chars else DFA.empty()
                if "" in firsts:
                    lang = lang | (m & DFA.empty_string())
            self.L.append(lang)

    def non_str(self) -> DFA:
        out = DFA.empty()
        for l in self.L:
            out = out | l
        return out

    def resolves_to(self, tag: str) -> DFA:
        """Strings whose first matching entry (PyYAML order: per first character in
        registration order, wildcard entries last) carries `tag`."""
        out = DFA.empty()
        order = [i for i, e in enumerate(self.table) if e[3] is not None] + [i for i, e in enumerate(self.table) if e[3] is None]
        before = DFA.empty()
        for i in order:
            if self.table[i][0] == tag:
                out = out | (self.L[i] - before)
            before = before | self.L[i]
        return out
