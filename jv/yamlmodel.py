"""Model of PyYAML's implicit scalar resolution, read from source.

* stock table: the Resolver.add_implicit_resolver(...) calls in the installed
  yaml/resolver.py (AST, never imported)
* customised tables: a function of the repository that defines a class deriving
  from a yaml loader / dumper and edits its table with
  remove_implicit_resolver(Cls, tag) / Cls.add_implicit_resolver(tag, re.compile(...), firsts)
  (helpers taking the class as first argument are followed)
"""

from __future__ import annotations

import ast
import os
import re
from typing import Dict, List, Optional, Sequence, Tuple

from .relang import DFA, Unsupported
from .srcmodel import AnalysisError, FuncNode, call_leaf, call_name, const_str, dotted, walk_local

FLAG_NAMES = {"X": re.X, "VERBOSE": re.X, "I": re.I, "IGNORECASE": re.I, "S": re.S, "DOTALL": re.S, "M": re.M, "MULTILINE": re.M, "A": re.A, "ASCII": re.A, "U": re.U, "UNICODE": re.U}

Entry = Tuple[str, str, int, Optional[List[Optional[str]]]]  # tag, pattern, flags, firsts (None = wildcard)


def yaml_dir() -> str:
    import sysconfig

    for base in (sysconfig.get_paths()["purelib"], sysconfig.get_paths()["platlib"]):
        d = os.path.join(base, "yaml")
        if os.path.isfile(os.path.join(d, "resolver.py")):
            return d
    raise AnalysisError("PyYAML source (yaml/resolver.py) not found in the interpreter's site-packages")


def eval_flags(e: Optional[ast.AST]) -> int:
    if e is None:
        return 0
    if isinstance(e, ast.Constant) and isinstance(e.value, int):
        return e.value
    if isinstance(e, ast.Attribute) and e.attr in FLAG_NAMES:
        return FLAG_NAMES[e.attr]
    if isinstance(e, ast.BinOp) and isinstance(e.op, ast.BitOr):
        return eval_flags(e.left) | eval_flags(e.right)
    raise AnalysisError(f"cannot evaluate regex flags: {ast.unparse(e)}")


def eval_firsts(e: Optional[ast.AST]) -> Optional[List[Optional[str]]]:
    if e is None or (isinstance(e, ast.Constant) and e.value is None):
        return None
    if isinstance(e, ast.Call) and call_leaf(e) == "list" and e.args and const_str(e.args[0]) is not None:
        return list(const_str(e.args[0]))
    if isinstance(e, (ast.List, ast.Tuple)):
        out: List[Optional[str]] = []
        for x in e.elts:
            if isinstance(x, ast.Constant) and (isinstance(x.value, str) or x.value is None):
                out.append(x.value)
            else:
                raise AnalysisError(f"cannot evaluate first-character list: {ast.unparse(e)}")
        return out
    if const_str(e) is not None:
        return list(const_str(e))
    raise AnalysisError(f"cannot evaluate first-character list: {ast.unparse(e)}")


def parse_add_call(c: ast.Call) -> Entry:
    """Cls.add_implicit_resolver(tag, re.compile(pattern[, flags]), firsts)"""
    if len(c.args) < 2:
        raise AnalysisError(f"unexpected add_implicit_resolver call: {ast.unparse(c)[:80]}")
    tag = const_str(c.args[0])
    rx = c.args[1]
    if tag is None or not (isinstance(rx, ast.Call) and call_name(rx) == "re.compile" and rx.args and const_str(rx.args[0]) is not None):
        raise AnalysisError(f"add_implicit_resolver with a non-literal tag or regex: {ast.unparse(c)[:100]}")
    flags = eval_flags(rx.args[1] if len(rx.args) > 1 else None)
    for k in rx.keywords:
        if k.arg == "flags":
            flags = eval_flags(k.value)
    firsts_e = c.args[2] if len(c.args) > 2 else None
    for k in c.keywords:
        if k.arg == "first":
            firsts_e = k.value
    return (tag, const_str(rx.args[0]), flags, eval_firsts(firsts_e))


def yaml_class_names() -> set:
    """Names of the classes defined in the installed yaml package (__init__, loader, dumper, cyaml)."""
    import ast as _ast
    import os as _os

    out = set()
    d = yaml_dir()
    for fn in ("__init__.py", "loader.py", "dumper.py", "cyaml.py"):
        p = _os.path.join(d, fn)
        if _os.path.exists(p):
            with open(p) as f:
                for n in _ast.walk(_ast.parse(f.read())):
                    if isinstance(n, _ast.ClassDef):
                        out.add(n.name)
    return out


def stock_table() -> Tuple[List[Entry], str]:
    path = os.path.join(yaml_dir(), "resolver.py")
    with open(path) as f:
        tree = ast.parse(f.read())
    out: List[Entry] = []
    for s in tree.body:
        if isinstance(s, ast.Expr) and isinstance(s.value, ast.Call) and call_name(s.value) == "Resolver.add_implicit_resolver":
            out.append(parse_add_call(s.value))
    if len(out) < 8:
        raise AnalysisError(f"only {len(out)} stock implicit resolvers found in {path}")
    return out, path


def class_uses_stock_resolver(cls_name: str) -> bool:
    """Does yaml.<cls_name> inherit the stock Resolver class?"""
    d = yaml_dir()
    for fn in ("loader.py", "dumper.py", "cyaml.py"):
        with open(os.path.join(d, fn)) as f:
            tree = ast.parse(f.read())
        for n in tree.body:
            if isinstance(n, ast.ClassDef) and n.name == cls_name:
                return any(dotted(b) == "Resolver" for b in n.bases)
    return False


class TableEdit:
    def __init__(self):
        self.bases: List[str] = []
        self.removed: List[str] = []
        self.added: List[Entry] = []
        self.class_name: Optional[str] = None


def extract_table_edits(module, fn: ast.AST) -> TableEdit:
    """Read the class definition and the remove/add calls of a customising function."""
    ed = TableEdit()
    classes = [n for n in walk_local(fn) if isinstance(n, ast.ClassDef)]
    if len(classes) != 1:
        raise AnalysisError(f"expected exactly one class definition in {getattr(fn, 'name', '?')}, found {len(classes)}")
    cls = classes[0]
    ed.class_name = cls.name
    for b in cls.bases:
        # getattr(yaml, "CSafeLoader", yaml.SafeLoader)  or  yaml.SafeDumper
        if isinstance(b, ast.Call) and call_leaf(b) == "getattr" and len(b.args) == 3:
            ed.bases += [const_str(b.args[1]) or "?", dotted(b.args[2]).split(".")[-1] if dotted(b.args[2]) else "?"]
        elif dotted(b):
            ed.bases.append(dotted(b).split(".")[-1])
        else:
            raise AnalysisError(f"cannot read base class {ast.unparse(b)}")
    if [s for s in cls.body if not isinstance(s, ast.Pass) and not (isinstance(s, ast.Expr) and isinstance(s.value, ast.Constant))]:
        raise AnalysisError(f"class {cls.name} has a body: resolver edits inside the class body are not modelled")

    def visit(body_fn: ast.AST, cls_var: str, depth: int) -> None:
        nested = {n.name: n for n in walk_local(body_fn) if isinstance(n, FuncNode)}
        calls = sorted((c for c in walk_local(body_fn) if isinstance(c, ast.Call)), key=lambda c: (c.lineno, c.col_offset))
        for c in calls:
            leaf = call_leaf(c)
            if leaf == "remove_implicit_resolver" and c.args and isinstance(c.args[0], ast.Name) and c.args[0].id == cls_var:
                tag = const_str(c.args[1]) if len(c.args) > 1 else None
                if tag is None:
                    raise AnalysisError("remove_implicit_resolver with a non-literal tag")
                ed.removed.append(tag)
            elif leaf == "add_implicit_resolver" and isinstance(c.func, ast.Attribute) and isinstance(c.func.value, ast.Name) and c.func.value.id == cls_var:
                ed.added.append(parse_add_call(c))
            elif isinstance(c.func, ast.Name) and c.args and isinstance(c.args[0], ast.Name) and c.args[0].id == cls_var and leaf not in ("remove_implicit_resolver",):
                target = nested.get(leaf) or module.funcs.get(leaf)
                if target is not None and depth < 3:
                    p0 = target.args.args[0].arg if target.args.args else None
                    if p0:
                        visit(target, p0, depth + 1)

    visit(fn, cls.name, 0)
    return ed


def apply_edits(stock: Sequence[Entry], ed: TableEdit) -> List[Entry]:
    t = [e for e in stock if e[0] not in ed.removed]
    return t + list(ed.added)


class ResolverLang:
    """Languages induced by a resolver table."""

    def __init__(self, table: Sequence[Entry]):
        self.table = list(table)
        self.L: List[DFA] = []
        for tag, pat, flags, firsts in self.table:
            try:
                m = DFA.from_regex(pat, flags, mode="match")
            except Unsupported as ex:
                raise AnalysisError(f"regex of resolver {tag} uses an unsupported construct: {ex}")
            if firsts is None:
                lang = m
            else:
                chars = [f for f in firsts if f]
                lang = m & DFA.first_char_in(chars) if chars else DFA.empty()
                if "" in firsts:
                    lang = lang | (m & DFA.empty_string())
            self.L.append(lang)

    def non_str(self) -> DFA:
        out = DFA.empty()
        for l in self.L:
            out = out | l
        return out

    def resolves_to(self, tag: str) -> DFA:
        """Strings whose first matching entry (PyYAML order: per first character in
        registration order, wildcard entries last) carries `tag`."""
        out = DFA.empty()
        order = [i for i, e in enumerate(self.table) if e[3] is not None] + [i for i, e in enumerate(self.table) if e[3] is None]
        before = DFA.empty()
        for i in order:
            if self.table[i][0] == tag:
                out = out | (self.L[i] - before)
            before = before | self.L[i]
        return out


# ---------------------------------------------------------------------------------------------------------------------
# character-level agreement between what PyYAML's emitter writes raw and what its reader / scanner hand back
# (read from the installed yaml/emitter.py, yaml/scanner.py, yaml/reader.py; the conditions are interval tests on one
#  character, interpreted here over the AST for a finite set of representative code points - no yaml code is run)


class _CharEval:
    """Interpreter for the character tests of the emitter: Compare / BoolOp / Not over `ch`, `self.allow_unicode`
    and constants.  Unknown constructs raise, so a changed PyYAML fails the analysis instead of passing."""

    def __init__(self, ch: str, allow_unicode: bool):
        self.ch = ch
        self.allow_unicode = allow_unicode

    def ev(self, e: ast.AST):
        if isinstance(e, ast.Constant):
            return e.value
        if isinstance(e, ast.Name) and e.id == "ch":
            return self.ch
        if isinstance(e, ast.Attribute) and isinstance(e.value, ast.Name) and e.value.id == "self" and e.attr == "allow_unicode":
            return self.allow_unicode
        if isinstance(e, ast.UnaryOp) and isinstance(e.op, ast.Not):
            return not self.ev(e.operand)
        if isinstance(e, ast.BoolOp):
            vals = (self.ev(v) for v in e.values)
            return all(vals) if isinstance(e.op, ast.And) else any(vals)
        if isinstance(e, ast.Compare):
            left = self.ev(e.left)
            for op, right_e in zip(e.ops, e.comparators):
                right = self.ev(right_e)
                if left is None or right is None:
                    res = (left is right) if isinstance(op, (ast.Is, ast.Eq)) else (left is not right) if isinstance(op, (ast.IsNot, ast.NotEq)) else None
                    if res is None:
                        raise AnalysisError("emitter character test compares None with an ordering operator")
                elif isinstance(op, ast.Eq):
                    res = left == right
                elif isinstance(op, ast.NotEq):
                    res = left != right
                elif isinstance(op, ast.LtE):
                    res = left <= right
                elif isinstance(op, ast.Lt):
                    res = left < right
                elif isinstance(op, ast.GtE):
                    res = left >= right
                elif isinstance(op, ast.Gt):
                    res = left > right
                elif isinstance(op, ast.In):
                    res = left in right
                elif isinstance(op, ast.NotIn):
                    res = left not in right
                elif isinstance(op, ast.Is):
                    res = left is right
                elif isinstance(op, ast.IsNot):
                    res = left is not right
                else:
                    raise AnalysisError(f"emitter character test uses operator {type(op).__name__}")
                if not res:
                    return False
                left = right
            return True
        raise AnalysisError(f"emitter character test contains {type(e).__name__}: the model of PyYAML's emitter must be re-derived")


def _yaml_func(module: str, cls: str, name: str) -> ast.FunctionDef:
    p = os.path.join(yaml_dir(), module)
    tree = ast.parse(open(p, encoding="utf-8").read())
    for c in tree.body:
        if isinstance(c, ast.ClassDef) and c.name == cls:
            for f in c.body:
                if isinstance(f, ast.FunctionDef) and f.name == name:
                    return f
    raise AnalysisError(f"yaml/{module}: {cls}.{name} not found")


class CharModel:
    def __init__(self):
        # scanner: the characters scan_line_break consumes as a break (everything but '\n' is normalised / folded)
        slb = _yaml_func("scanner.py", "Scanner", "scan_line_break")
        self.breaks = set()
        for c in ast.walk(slb):
            if isinstance(c, ast.Compare) and isinstance(c.left, ast.Name) and c.left.id == "ch" and isinstance(c.ops[0], ast.In) and isinstance(c.comparators[0], ast.Constant) and isinstance(c.comparators[0].value, str):
                self.breaks |= set(c.comparators[0].value)
        if not {"\n", "\x85"} <= self.breaks:
            raise AnalysisError("yaml/scanner.py: scan_line_break no longer lists its break characters as `ch in '...'`")
        # reader: NON_PRINTABLE
        rp = os.path.join(yaml_dir(), "reader.py")
        rt = ast.parse(open(rp, encoding="utf-8").read())
        pats = [s.value.args[0].value for c in rt.body if isinstance(c, ast.ClassDef) and c.name == "Reader" for s in c.body if isinstance(s, ast.Assign) and isinstance(s.targets[0], ast.Name) and s.targets[0].id == "NON_PRINTABLE" and isinstance(s.value, ast.Call) and s.value.args and isinstance(s.value.args[0], ast.Constant)]
        if len(pats) != 1:
            raise AnalysisError("yaml/reader.py: Reader.NON_PRINTABLE = re.compile('<class>') not found")
        import re as _re

        self.non_printable_src = pats[0]
        self._np = _re.compile(pats[0])
        # emitter: the test that decides `special_characters` in analyze_scalar, and the escape test of write_double_quoted
        an = _yaml_func("emitter.py", "Emitter", "analyze_scalar")
        outer = [i for i in ast.walk(an) if isinstance(i, ast.If) and any(isinstance(s, ast.Assign) and isinstance(s.targets[0], ast.Name) and s.targets[0].id == "special_characters" for s in ast.walk(i)) and "ch" in {n.id for n in ast.walk(i.test) if isinstance(n, ast.Name)}]
        outer = [i for i in outer if not any(i is not j and any(x is i for x in ast.walk(j)) for j in outer)]
        if len(outer) != 1:
            raise AnalysisError("yaml/emitter.py: the `special_characters` decision of analyze_scalar changed shape")
        self._special_if = outer[0]
        wdq = _yaml_func("emitter.py", "Emitter", "write_double_quoted")
        esc = [i for i in ast.walk(wdq) if isinstance(i, ast.If) and "ESCAPE_REPLACEMENTS" in ast.unparse(i) and "ch" in {n.id for n in ast.walk(i.test) if isinstance(n, ast.Name)}]
        esc = [i for i in esc if not any(i is not j and any(x is i for x in ast.walk(j)) for j in esc)]
        if len(esc) != 1:
            raise AnalysisError("yaml/emitter.py: the escape decision of write_double_quoted changed shape")
        self._escape_test = esc[0].test
        # representative code points: every constant character of the three sources and its neighbours
        consts = set(self.breaks)
        for node in list(ast.walk(self._special_if)) + list(ast.walk(self._escape_test)):
            if isinstance(node, ast.Constant) and isinstance(node.value, str):
                consts |= set(node.value)
        for m in _re.finditer(r".", pats[0], _re.S):
            consts.add(m.group())
        pts = set()
        for c in consts:
            for d in (-1, 0, 1):
                o = ord(c) + d
                if 0 <= o <= 0x10FFFF and not 0xD800 <= o <= 0xDFFF:
                    pts.add(chr(o))
        pts |= {chr(o) for o in (0x7F, 0x80, 0x9F, 0xA0, 0xFEFF, 0xFFFE, 0xFFFF, 0x10000, 0x10FFFF, 0x41, 0x20, 0xE9, 0x1F600)}
        self.points = sorted(pts)

    def non_printable(self, ch: str) -> bool:
        return bool(self._np.match(ch))

    def special(self, ch: str, allow_unicode: bool) -> bool:
        """analyze_scalar sets special_characters for this character (=> the scalar is written double-quoted)."""
        ev = _CharEval(ch, allow_unicode)

        def run(stmts) -> bool:
            hit = False
            for s in stmts:
                if isinstance(s, ast.If):
                    hit = run(s.body if ev.ev(s.test) else s.orelse) or hit
                elif isinstance(s, ast.Assign) and isinstance(s.targets[0], ast.Name) and s.targets[0].id == "special_characters":
                    hit = True
            return hit

        return run([self._special_if])

    def escaped_in_double_quotes(self, ch: str, allow_unicode: bool) -> bool:
        return bool(_CharEval(ch, allow_unicode).ev(self._escape_test))

    def survives_raw(self, ch: str) -> bool:
        """Written raw, the character comes back unchanged: the reader accepts it and the scanner does not treat it
        as a line break (a '\\n' is doubled by the emitter and restored by the scanner's folding)."""
        return not self.non_printable(ch) and (ch not in self.breaks or ch == "\n")
