"""C13 - parameters resolved through **kwargs are exactly those the code accepts (narrow claim).

The property is the soundness of the library's own source-level parameter resolver for every user program;
that is not decidable here.  What IS visible in the shape of the resolver, and is a necessary condition of the
property each time, is decided:

  C13.a  hard-coded arguments are excluded on every path: callee parameters fetched for a call node reach the
         grouped result only through `remove_given_parameters(<that call node>, ...)`; the names collected as
         removed are filtered out after grouping, before the result is split and returned
  C13.b  `remove_given_parameters` drops by position AND by keyword; positions exclude starred arguments,
         keyword names exclude the `**` entry
  C13.c  only passable kinds are offered for a **kwargs / *args slot: POSITIONAL_ONLY for *args,
         {KEYWORD_ONLY, POSITIONAL_OR_KEYWORD} for **kwargs; the var slot itself is cut out with
         `[:idx] + new + [idx + 1:]`, names already present are not added twice, and the kwargs index is moved
         by `len(args) - 1` when *args was replaced first
  C13.d  every attribute of a resolved parameter (name, annotation, default, kind) is read from the same
         inspect.Parameter; the implicit first parameter is dropped only for methods and before the indexes
         of the var slots are taken
  C13.e  kwargs.pop / kwargs.get recognition: receiver is the **kwargs value, method in {pop, get}, the name
         is the constant first argument, default from the second, kind KEYWORD_ONLY
  C13.f  super() handling walks the MRO consistently: two-argument super needs `self` second, the search
         starts at the current class, the recorded index is absolute (idx + offset); the next definition is
         searched from idx + 1 with enumerate(start=idx + 1), inherited (identical) methods are skipped, the
         position is recorded before recursing
  C13.g  resolver chain: a failing resolver falls through to the next one (broad handler, result tested
         against None), source-based resolution runs before the stub and assumption fallbacks and the
         assumption fallback is last
  C13.h  module-level constants in `if` tests select the branch with the right polarity
  C13.i  conditional parameters: the "accepted by every branch" and "NOT_ACCEPTED" tests are complements
Not decided: that the AST patterns recognised cover every way a program can forward **kwargs; stubs;
pydantic / attrs field tables; postponed annotations.
"""

from __future__ import annotations

import ast
from typing import List, Optional, Set

from .report import Ctx
from .srcmodel import AnalysisError, call_leaf, calls_in, const_str, dotted, src, walk_local
from .util import guard_atoms, strip_not

M = "_parameter_resolvers"
FETCHERS = {"get_signature_parameters", "get_mro_parameters"}


def _assigns(fn: ast.AST, name: Optional[str] = None) -> List[ast.Assign]:
    out = []
    for s in walk_local(fn):
        if isinstance(s, ast.Assign) and len(s.targets) == 1 and isinstance(s.targets[0], ast.Name):
            if name is None or s.targets[0].id == name:
                out.append(s)
    return out


def _mentions_call(node: ast.AST, leaves: Set[str]) -> bool:
    for n in ast.walk(node):
        if isinstance(n, ast.Call) and (call_leaf(n) in leaves or any(isinstance(a, ast.Name) and a.id in leaves for a in n.args)):
            return True
    return False


def _kind_names(node: ast.AST) -> Set[str]:
    """Leaf names of `kinds.X` / `inspect._ParameterKind.X` mentioned in an expression."""
    out = set()
    for n in ast.walk(node):
        if isinstance(n, ast.Attribute) and n.attr in {"POSITIONAL_ONLY", "POSITIONAL_OR_KEYWORD", "VAR_POSITIONAL", "KEYWORD_ONLY", "VAR_KEYWORD"}:
            out.add(n.attr)
    return out


def _is_name(n: ast.AST, name: str) -> bool:
    return isinstance(n, ast.Name) and n.id == name


def _plus_one(n: ast.AST, base: str) -> bool:
    return isinstance(n, ast.BinOp) and isinstance(n.op, ast.Add) and ((_is_name(n.left, base) and isinstance(n.right, ast.Constant) and n.right.value == 1) or (_is_name(n.right, base) and isinstance(n.left, ast.Constant) and n.left.value == 1))


def _cut_splice(e: ast.AST):
    """`seq[:i] + new + seq[i + 1:]`  ->  (seq, i, new expr, ok) ; None if the expression is not a three-part sum of two
    slices of one sequence around something."""
    if not (isinstance(e, ast.BinOp) and isinstance(e.op, ast.Add) and isinstance(e.left, ast.BinOp) and isinstance(e.left.op, ast.Add)):
        return None
    a, mid, b = e.left.left, e.left.right, e.right
    if not (isinstance(a, ast.Subscript) and isinstance(b, ast.Subscript) and isinstance(a.slice, ast.Slice) and isinstance(b.slice, ast.Slice)):
        return None
    if not (isinstance(a.value, ast.Name) and isinstance(b.value, ast.Name) and a.value.id == b.value.id):
        return None
    return a, mid, b


def _two_part_cut(e: ast.AST):
    """`seq[:i] + seq[i + 1:]` -> (a, b)"""
    if isinstance(e, ast.BinOp) and isinstance(e.op, ast.Add) and isinstance(e.left, ast.Subscript) and isinstance(e.right, ast.Subscript):
        a, b = e.left, e.right
        if isinstance(a.slice, ast.Slice) and isinstance(b.slice, ast.Slice) and isinstance(a.value, ast.Name) and isinstance(b.value, ast.Name) and a.value.id == b.value.id:
            return a, b
    return None


def _check_cut(ctx: Ctx, rule: str, fn: ast.AST, node: ast.AST, a: ast.Subscript, b: ast.Subscript, what: str) -> Optional[str]:
    """Both slices around index variable i: a = seq[:i], b = seq[i+1:].  Returns i."""
    up = a.slice.upper
    idx = up.id if isinstance(up, ast.Name) else None
    ok = idx is not None and a.slice.lower is None and a.slice.step is None and b.slice.upper is None and b.slice.step is None and b.slice.lower is not None and _plus_one(b.slice.lower, idx)
    ctx.oblige(rule, ok, node, f"{what}: the var slot must be cut out exactly - `[:i]` before it and `[i + 1:]` after it; with any other bounds the `*args`/`**kwargs` entry itself stays in the list, or a neighbouring named parameter is lost", fn=fn)
    return idx


def run(ctx: Ctx) -> int:
    # =========================================================== C13.a
    fa = ctx.func(f"{M}:ParametersVisitor.get_parameters_args_and_kwargs")
    g = ctx.cfg(fa)
    group_calls = [c for c in calls_in(fa) if call_leaf(c) == "group_parameters"]
    ctx.need(len(group_calls) == 1 and group_calls[0].args and isinstance(group_calls[0].args[0], ast.Name), "the single group_parameters(<list>) call of get_parameters_args_and_kwargs")
    plist = group_calls[0].args[0].id
    appends = [c for c in calls_in(fa) if call_leaf(c) == "append" and isinstance(c.func, ast.Attribute) and _is_name(c.func.value, plist) and c.args]
    ctx.floor("C13.a-appends", len(appends), 3)
    removes = [s for s in _assigns(fa) if isinstance(s.value, ast.Call) and call_leaf(s.value) == "remove_given_parameters"]
    n_fetch = 0
    for ap in appends:
        v = ap.args[0]
        if not isinstance(v, ast.Name):
            continue  # a one-element list built from kwargs.pop/get: nothing was fetched from a callee
        defs = [s for s in _assigns(fa, v.id) if _mentions_call(s.value, FETCHERS)]
        # only definitions that can reach this append
        defs = [s for s in defs if g.can_reach(g.cn(s), g.cn(ap))]
        if not defs:
            continue
        n_fetch += len(defs)
        mine = [s for s in removes if s.targets[0].id == v.id and len(s.value.args) >= 2 and _is_name(s.value.args[1], v.id)]
        ok = bool(mine) and g.must_pass(g.cn(mine), g.cn(defs), g.cn(ap), exclude_labels={"e"}, strict=True)
        path = None if ok else g.describe_path(g.find_path(g.cn(defs), g.cn(ap), removed=g.cn(mine), exclude_labels={"e"}))
        ctx.oblige("C13.a", ok, ap, "parameters fetched from the callee of a call that forwards **kwargs reach the grouped result without passing `remove_given_parameters`: arguments the call hard-codes would be offered on the command line, and instantiating with them raises 'got multiple values'", fn=fa, details={"path": path})
        for s in mine:
            call = s.value
            # the call node whose arguments are removed is the one whose callee was resolved
            subjects = set()
            for d in defs:
                for c in calls_in(fa):
                    if call_leaf(c) in ("get_node_component", "ast_is_supported_super_call", "ast_is_super_call") and c.args and isinstance(c.args[0], ast.Name):
                        subjects.add(c.args[0].id)
            ok2 = isinstance(call.args[0], ast.Name) and subjects == {call.args[0].id}
            ctx.oblige("C13.a", ok2, s, f"`remove_given_parameters` must look at the arguments of the very call whose callee was resolved ({sorted(subjects)}); with another node the wrong arguments count as given", fn=fa)
            # collected names
            rset = call.args[2] if len(call.args) > 2 else next((k.value for k in call.keywords if k.arg == "removed_params"), None)
            ctx.oblige("C13.a", isinstance(rset, ast.Name), s, "the names given by keyword are collected (third argument): a parameter hard-coded in one forwarding call must not come back through another branch of the same function", fn=fa)
            if isinstance(rset, ast.Name):
                filt = [
                    s2
                    for s2 in _assigns(fa)
                    if isinstance(s2.value, ast.ListComp)
                    and any(
                        isinstance(c, ast.Compare) and len(c.ops) == 1 and isinstance(c.ops[0], ast.NotIn) and _is_name(c.comparators[0], rset.id) and isinstance(c.left, ast.Attribute) and c.left.attr == "name"
                        for gen in s2.value.generators
                        for cond in gen.ifs
                        for c in ast.walk(cond)
                    )
                ]
                rets = [r for r in walk_local(fa) if isinstance(r, ast.Return) and r.value is not None and _mentions_call(r.value, {"split_args_and_kwargs"})]
                ctx.need(rets, "return split_args_and_kwargs(...) of get_parameters_args_and_kwargs")
                gstmt = [s3 for s3 in _assigns(fa) if s3.value is group_calls[0]]
                ok3 = bool(filt) and bool(gstmt) and g.must_pass(g.cn(filt), g.cn(gstmt), g.cn(rets), exclude_labels={"e"}, strict=True)
                # the filter reads the grouped list and its result is what is split
                if ok3:
                    f0 = filt[0]
                    it = f0.value.generators[0].iter
                    ok3 = _is_name(it, gstmt[0].targets[0].id) and any(_is_name(a, f0.targets[0].id) for r in rets for c in calls_in(r) for a in c.args)
                ctx.oblige("C13.a", ok3, group_calls[0], f"after grouping, parameters whose names are in `{rset.id}` are filtered out before the result is split and returned", fn=fa)
    ctx.floor("C13.a-fetch-definitions", n_fetch, 2)

    fm = ctx.func(f"{M}:ParametersVisitor.match_call_that_uses_attr")
    gm = ctx.cfg(fm)
    mdefs = [s for s in _assigns(fm) if _mentions_call(s.value, FETCHERS)]
    ctx.floor("C13.a-attr-use", len(mdefs), 1)
    for d in mdefs:
        v = d.targets[0].id
        mine = [s for s in _assigns(fm, v) if isinstance(s.value, ast.Call) and call_leaf(s.value) == "remove_given_parameters" and len(s.value.args) >= 2 and _is_name(s.value.args[1], v)]
        rets = [r for r in walk_local(fm) if isinstance(r, ast.Return) and r.value is not None and _is_name(r.value, v)]
        ok = bool(mine) and bool(rets) and gm.must_pass(gm.cn(mine), gm.cn(d), gm.cn(rets), exclude_labels={"e"}, strict=True)
        ctx.oblige("C13.a", ok, d, "parameters of the call that receives a stored **kwargs attribute are returned without `remove_given_parameters`: its hard-coded arguments would be offered", fn=fm)
        subj = {c.args[0].id for c in calls_in(fm) if call_leaf(c) == "get_node_component" and c.args and isinstance(c.args[0], ast.Name)}
        for s in mine:
            ctx.oblige("C13.a", isinstance(s.value.args[0], ast.Name) and subj == {s.value.args[0].id}, s, "`remove_given_parameters` must look at the call whose callee was resolved", fn=fm)

    # =========================================================== C13.b
    fr = ctx.func(f"{M}:remove_given_parameters")
    pnames = [a.arg for a in fr.args.args]
    ctx.need(len(pnames) >= 2, "remove_given_parameters(node, params, ...)")
    node_p, params_p = pnames[0], pnames[1]

    def origin_of(name: str) -> Set[str]:
        """leaf names of the calls a local is computed from (one level of set()/list() wrapping)"""
        out = set()
        for s in _assigns(fr, name):
            for c in ast.walk(s.value):
                if isinstance(c, ast.Call) and c.args and _is_name(c.args[0], node_p):
                    out.add(call_leaf(c))
        return out

    pos_filter = kw_filter = None
    for s in _assigns(fr):
        if not isinstance(s.value, ast.ListComp):
            continue
        for gen in s.value.generators:
            for cond in gen.ifs:
                if isinstance(cond, ast.Compare) and len(cond.ops) == 1 and isinstance(cond.ops[0], ast.NotIn) and isinstance(cond.comparators[0], ast.Name):
                    o = origin_of(cond.comparators[0].id)
                    enumerated = isinstance(gen.iter, ast.Call) and call_leaf(gen.iter) == "enumerate"
                    if "ast_get_call_positional_indexes" in o and enumerated and isinstance(gen.target, ast.Tuple) and _is_name(cond.left, gen.target.elts[0].id if isinstance(gen.target.elts[0], ast.Name) else ""):
                        pos_filter = s
                    if "ast_get_call_keyword_names" in o and isinstance(cond.left, ast.Attribute) and cond.left.attr == "name":
                        kw_filter = s
    ctx.oblige("C13.b", pos_filter is not None, fr, "`remove_given_parameters` keeps only parameters whose index is not among the positions the call fills (`n not in <positional indexes of the call>` over enumerate)", fn=fr, construct="positional filter")
    ctx.oblige("C13.b", kw_filter is not None, fr, "`remove_given_parameters` keeps only parameters whose name is not among the keywords the call gives", fn=fr, construct="keyword filter")
    if pos_filter is not None and kw_filter is not None:
        # both filters are applied to what is returned: chain params -> f1 -> f2 -> return
        rets = [r for r in walk_local(fr) if isinstance(r, ast.Return) and r.value is not None]
        gr = ctx.cfg(fr)
        chain_ok = all(isinstance(r.value, ast.Name) for r in rets) and bool(rets)
        if chain_ok:
            rv = rets[0].value.id
            first, second = (pos_filter, kw_filter) if pos_filter.lineno <= kw_filter.lineno else (kw_filter, pos_filter)

            def iter_root(s):
                it = s.value.generators[0].iter
                if isinstance(it, ast.Call) and call_leaf(it) == "enumerate" and it.args:
                    it = it.args[0]
                return it.id if isinstance(it, ast.Name) else None

            chain_ok = iter_root(first) == params_p and iter_root(second) == first.targets[0].id and second.targets[0].id == rv and gr.must_pass(gr.cn([first]), [gr.entry], gr.cn(rets), exclude_labels={"e"}) and gr.must_pass(gr.cn([second]), [gr.entry], gr.cn(rets), exclude_labels={"e"})
            # nothing re-binds the returned variable after the second filter
            later = [s for s in _assigns(fr, rv) if s is not first and s is not second and gr.can_reach(gr.cn(second), gr.cn(s))]
            chain_ok = chain_ok and not later
        ctx.oblige("C13.b", chain_ok, rets[0] if rets else fr, "the value returned by `remove_given_parameters` is the given list filtered by position and then by keyword (both filters, applied one on the other, nothing re-bound afterwards)", fn=fr)
    fpi = ctx.func(f"{M}:ast_get_call_positional_indexes")
    comp = next((n for n in ast.walk(fpi) if isinstance(n, ast.ListComp)), None)
    ctx.need(comp is not None, "list comprehension of ast_get_call_positional_indexes")
    cond_ok = any(isinstance(c, ast.Call) and call_leaf(c) == "isinstance" and "Starred" in ast.unparse(c.args[1]) and not strip_not(cond)[1] for gen in comp.generators for cond in gen.ifs for c in [strip_not(cond)[0]])
    enum_ok = isinstance(comp.generators[0].iter, ast.Call) and call_leaf(comp.generators[0].iter) == "enumerate" and ast.unparse(comp.generators[0].iter.args[0]).endswith(".args")
    ctx.oblige("C13.b", cond_ok and enum_ok, comp, "positions filled by the call are the indexes of its non-starred positional arguments: `f(*args, **kwargs)` fills no named position, `f(1, *args)` fills position 0 only", fn=fpi)
    fkn = ctx.func(f"{M}:ast_get_call_keyword_names")
    comp = next((n for n in ast.walk(fkn) if isinstance(n, ast.ListComp)), None)
    ctx.need(comp is not None, "list comprehension of ast_get_call_keyword_names")
    gen = comp.generators[0]
    tv = gen.target.id if isinstance(gen.target, ast.Name) else ""
    ok = ast.unparse(gen.iter).endswith(".keywords") and isinstance(comp.elt, ast.Attribute) and comp.elt.attr == "arg" and _is_name(comp.elt.value, tv) and any(isinstance(c, ast.Attribute) and c.attr == "arg" for c in gen.ifs)
    ctx.oblige("C13.b", ok, comp, "keyword names given by the call are the `.arg` of its keywords, without the `**` entry (whose arg is None)", fn=fkn)

    # Positions are positions of the CALL; parameters are the callee's WITHOUT its implicit first one.  Two arms of
    # get_node_component hand back a (class, method name) pair: `self.m(...)` - the instance is implicit, call position n is
    # parameter n - and `Class.m(self, ...)` - for a plain method the instance is call position 0 and call position n is
    # parameter n - 1.  One position arithmetic cannot serve both: remove_given_parameters must be told, and must shift.
    fnc = ctx.func(f"{M}:ParametersVisitor.get_node_component")
    class_arm = [n for n in ast.walk(fnc) if isinstance(n, ast.If) and any(isinstance(c, ast.Call) and call_leaf(c) == "isclass" for c in ast.walk(n.test)) and any(isinstance(s_, ast.Assign) and "func.attr" in ast.unparse(s_.value) for s_ in n.body)]
    if class_arm:
        extra_params = [a.arg for a in fr.args.args[2:] + fr.args.kwonlyargs if a.arg != "removed_params"]
        shifted = False
        for n in ast.walk(fr):
            # a set / list of positions rebuilt with `- 1` (or the first argument sliced off) under one of those parameters
            if isinstance(n, ast.BinOp) and isinstance(n.op, ast.Sub) and isinstance(n.right, ast.Constant) and n.right.value == 1 or isinstance(n, ast.Subscript) and isinstance(n.slice, ast.Slice) and isinstance(n.slice.lower, ast.Constant) and n.slice.lower.value == 1:
                at = {x.id for t, pol in guard_atoms(n, stop=fr) for x in ast.walk(t) if isinstance(x, ast.Name)}
                if at & set(extra_params):
                    shifted = True
        sites = [c for f_ in (fa, fm) for c in calls_in(f_) if call_leaf(c) == "remove_given_parameters"]
        told = bool(extra_params) and all(len(c.args) + len(c.keywords) >= 3 and (len(c.args) > 3 or any(k.arg in extra_params for k in c.keywords)) for c in sites if c in [x for x in calls_in(fa) if call_leaf(x) == "remove_given_parameters"])
        ok = shifted and told
        ctx.oblige("C13.b", ok, class_arm[0], "a call through the class (`Class.m(self, ...)`) is told apart from a bound call and its positions are shifted by the explicit instance" if ok else "get_node_component resolves `Class.m(self, ...)` to (Class, 'm') exactly like `self.m(...)`, and remove_given_parameters counts call positions against the callee's parameters without its first one in both cases: in `Base.__init__(self, **kwargs)` the instance argument counts as the callee's first named parameter - `a` of `Base.__init__(self, a=1, b='x')` is not offered although `Child(a=3)` is legal", fn=fnc, construct="explicit instance shifts positions")

    # the shift by the explicit instance drops exactly call position 0 (the instance) and moves the rest down by one
    shifts = [n for n in ast.walk(fr) if isinstance(n, (ast.SetComp, ast.ListComp, ast.GeneratorExp)) and isinstance(n.elt, ast.BinOp) and isinstance(n.elt.op, ast.Sub) and isinstance(n.elt.right, ast.Constant) and n.elt.right.value == 1]
    if class_arm and shifts:
        sc = shifts[0]
        tv = sc.generators[0].target.id if isinstance(sc.generators[0].target, ast.Name) else ""
        conds = sc.generators[0].ifs
        okc = len(conds) == 1 and ((isinstance(conds[0], ast.Compare) and _is_name(conds[0].left, tv) and len(conds[0].ops) == 1 and isinstance(conds[0].comparators[0], ast.Constant) and ((isinstance(conds[0].ops[0], ast.Gt) and conds[0].comparators[0].value == 0) or (isinstance(conds[0].ops[0], ast.GtE) and conds[0].comparators[0].value == 1) or (isinstance(conds[0].ops[0], ast.NotEq) and conds[0].comparators[0].value == 0))) or _is_name(conds[0], tv))
        ctx.oblige("C13.b", okc, sc, "only call position 0 (the instance) is dropped by the shift" if okc else f"the shift keeps positions under `{ast.unparse(conds[0]) if conds else 'no condition'}`: call position 1 - the first real argument of `Class.m(self, 7, **kwargs)` - is dropped together with the instance, so the parameter it hard-codes stays offered (instantiation: got multiple values)", fn=fr, construct="shift drops position 0 only")
    # ... and a call through the instance itself (`self.m(...)`) is NOT such a call
    if ctx.repo.has_func(f"{M}:ParametersVisitor.is_unbound_method_call"):
        fub = ctx.func(f"{M}:ParametersVisitor.is_unbound_method_call")
        false_rets = [r for r in walk_local(fub) if isinstance(r, ast.Return) and isinstance(r.value, ast.Constant) and r.value.value is False]
        okb = any(any("self_name" in ast.unparse(t) and pol for t, pol in guard_atoms(r, stop=fub)) for r in false_rets) or any(isinstance(r, ast.Return) and r.value is not None and "self_name" in ast.unparse(r.value) for r in walk_local(fub))
        ctx.oblige("C13.b", okb, fub, "a call whose receiver is the method's own instance parameter is a bound call" if okb else "is_unbound_method_call no longer excludes receivers named like the instance parameter: `self.configure(8, **kwargs)` is treated like `Class.configure(self, 8, **kwargs)`, positions shift by one and the hard-coded parameter stays offered", fn=fub, construct="self receiver is bound")

    # the "instance is given explicitly" fact belongs to ONE call node: it is re-initialised for every call the loop looks at
    for c in [c for c in calls_in(fa) if call_leaf(c) == "remove_given_parameters"]:
        flagv = next((k.value for k in c.keywords if k.arg not in (None, "removed_params")), c.args[3] if len(c.args) > 3 else None)
        if isinstance(flagv, ast.Name):
            from .srcmodel import ancestors as _anc13

            loop13 = next((a_ for a_ in _anc13(c) if isinstance(a_, ast.For)), None)
            defs13 = _assigns(fa, flagv.id)
            inside = [d for d in defs13 if loop13 is not None and any(d is x for x in ast.walk(loop13))]
            resets = [d for d in inside if isinstance(d.value, ast.Constant) and d.value.value is False]
            ok = loop13 is not None and bool(resets) and len(inside) == len(defs13) and g.dominates(g.cn(resets), g.cn(c), exclude_labels={"e"}) and not any(g.can_reach(g.cn(c), g.cn(r), exclude_labels={"e"}, removed=[a for (a, _t, _l) in g.branch_edges(loop13, "loop")]) for r in resets)
            ctx.oblige("C13.b", ok, c, f"`{flagv.id}` is reset for every call node" if ok else f"`{flagv.id}` is not re-initialised inside the loop over the calls that use **kwargs: after `Mixin.__init__(self, **kwargs)` the flag stays set for the following `super().__init__('child', **kwargs)`, whose positions are then shifted as well - the parameter it hard-codes stays offered", fn=fa, construct="instance flag per call node")

    # =========================================================== C13.c
    fs = ctx.func(f"{M}:split_args_and_kwargs")
    comps = [s for s in _assigns(fs) if isinstance(s.value, ast.ListComp)]
    rets = [r for r in walk_local(fs) if isinstance(r, ast.Return)]
    ctx.need(len(rets) == 1 and isinstance(rets[0].value, ast.Tuple) and len(rets[0].value.elts) == 2, "return (args, kwargs) of split_args_and_kwargs")
    by_name = {s.targets[0].id: s for s in comps}
    e0, e1 = rets[0].value.elts
    for pos, e, want, what in ((0, e0, {"POSITIONAL_ONLY"}, "*args"), (1, e1, {"KEYWORD_ONLY", "POSITIONAL_OR_KEYWORD"}, "**kwargs")):
        s = by_name.get(e.id) if isinstance(e, ast.Name) else None
        ctx.need(s is not None, f"comprehension bound to element {pos} of the tuple returned by split_args_and_kwargs")
        kinds = set()
        for gen in s.value.generators:
            for cond in gen.ifs:
                kinds |= _kind_names(cond)
                inner, posi = strip_not(cond)
                if not posi or (isinstance(inner, ast.Compare) and isinstance(inner.ops[0], (ast.NotEq, ast.NotIn, ast.IsNot))):
                    kinds.add("<negated>")
        ctx.oblige("C13.c", kinds == want, s, f"parameters offered in place of {what} are exactly those of kind {sorted(want)} (found {sorted(kinds)}): any other kind cannot be passed by {'position' if pos == 0 else 'keyword'} through that slot", fn=fs)

    fg = ctx.func(f"{M}:group_parameters")
    excl = False
    for n in walk_local(fg):
        if isinstance(n, ast.If) and isinstance(n.test, ast.Compare) and len(n.test.ops) == 1 and isinstance(n.test.ops[0], (ast.NotEq, ast.IsNot)) and _kind_names(n.test) == {"POSITIONAL_ONLY"}:
            if any(isinstance(c, ast.Call) and call_leaf(c) == "append" for s in n.body for c in ast.walk(s)) and not n.orelse:
                excl = True
    ctx.oblige("C13.c", excl, fg, "when several branches forward **kwargs, positional-only parameters of the callees are not merged into the offered keyword parameters", fn=fg, construct="POSITIONAL_ONLY excluded from grouping")

    fp = ctx.func(f"{M}:replace_args_and_kwargs")
    gp = ctx.cfg(fp)
    idx_of = {}
    for s in _assigns(fp):
        if isinstance(s.value, ast.Call) and call_leaf(s.value) == "get_arg_kind_index":
            ks = _kind_names(s.value)
            if len(ks) == 1:
                idx_of[next(iter(ks))] = s.targets[0].id
    ctx.need(set(idx_of) == {"VAR_POSITIONAL", "VAR_KEYWORD"}, "indexes of the VAR_POSITIONAL and VAR_KEYWORD slots in replace_args_and_kwargs")
    p_params, p_args, p_kwargs = [a.arg for a in fp.args.args][:3]
    splices = [(s, _cut_splice(s.value)) for s in _assigns(fp, p_params)]
    splices = [(s, c) for s, c in splices if c]
    ctx.floor("C13.c-splices", len(splices), 2)
    seen_slots = set()
    for s, (a, mid, b) in splices:
        i = _check_cut(ctx, "C13.c", fp, s, a, b, "replace_args_and_kwargs")
        slot = next((k for k, v in idx_of.items() if v == i), None)
        seen_slots.add(slot)
        want_mid = p_args if slot == "VAR_POSITIONAL" else p_kwargs
        ctx.oblige("C13.c", _is_name(mid, want_mid) and a.value.id == p_params, s, f"the {slot} slot is replaced by the `{want_mid}` list (resolved {'positional-only' if slot == 'VAR_POSITIONAL' else 'keyword'} parameters)", fn=fp)
        # guarded by idx >= 0
        atoms = guard_atoms(s)
        okg = any(isinstance(t, ast.Compare) and _is_name(t.left, i or "") and len(t.ops) == 1 and ((isinstance(t.ops[0], ast.GtE) and pol and isinstance(t.comparators[0], ast.Constant) and t.comparators[0].value == 0) or (isinstance(t.ops[0], ast.Lt) and not pol and isinstance(t.comparators[0], ast.Constant) and t.comparators[0].value == 0) or (isinstance(t.ops[0], ast.Gt) and pol and isinstance(t.comparators[0], ast.UnaryOp))) for t, pol in atoms)
        ctx.oblige("C13.c", okg, s, f"the slot is replaced only when it exists (`{i} >= 0`): index -1 would cut the last named parameter instead", fn=fp)
    ctx.oblige("C13.c", seen_slots == {"VAR_POSITIONAL", "VAR_KEYWORD"}, fp, "both var slots are replaced", fn=fp, construct="both slots")
    ki = idx_of["VAR_KEYWORD"]
    ai = idx_of["VAR_POSITIONAL"]
    aug = [n for n in walk_local(fp) if isinstance(n, ast.AugAssign) and _is_name(n.target, ki)]
    asplice = [s for s, (a, mid, b) in splices if isinstance(a.slice.upper, ast.Name) and a.slice.upper.id == ai]
    ksplice = [s for s, (a, mid, b) in splices if isinstance(a.slice.upper, ast.Name) and a.slice.upper.id == ki]
    okaug = False
    if len(aug) == 1 and isinstance(aug[0].op, ast.Add):
        v = aug[0].value
        okaug = isinstance(v, ast.BinOp) and isinstance(v.op, ast.Sub) and isinstance(v.left, ast.Call) and call_leaf(v.left) == "len" and _is_name(v.left.args[0], p_args) and isinstance(v.right, ast.Constant) and v.right.value == 1
        # between the *args splice and the **kwargs splice
        # after the *args splice, before the **kwargs splice, under no other condition than the two slots existing
        okaug = okaug and bool(asplice) and bool(ksplice) and gp.can_reach(gp.cn(asplice), gp.cn(aug), exclude_labels={"e"}) and gp.can_reach(gp.cn(aug), gp.cn(ksplice), exclude_labels={"e"}) and not gp.can_reach(gp.cn(ksplice), gp.cn(aug), exclude_labels={"e"})
        if okaug:
            base_atoms = {(ast.unparse(t), p) for t, p in guard_atoms(asplice[0])}
            extra = [(t, p) for t, p in guard_atoms(aug[0]) if (ast.unparse(t), p) not in base_atoms]
            okaug = all(isinstance(t, ast.Compare) and _is_name(t.left, ki) and isinstance(t.ops[0], ast.GtE) == p and type(t.ops[0]).__name__ in ("GtE", "Lt") and isinstance(t.comparators[0], ast.Constant) and t.comparators[0].value == 0 for t, p in extra)
    elif not aug:
        # alternative: the kwargs index is recomputed after the first splice
        re_idx = [s for s in _assigns(fp, ki) if isinstance(s.value, ast.Call) and call_leaf(s.value) == "get_arg_kind_index"]
        okaug = bool(asplice) and bool(ksplice) and any(gp.must_pass(gp.cn(r), gp.cn(asplice), gp.cn(ksplice), exclude_labels={"e"}, strict=True) for r in re_idx)
    ctx.oblige("C13.c", okaug, aug[0] if aug else fp, f"after *args was replaced by len({p_args}) parameters the **kwargs slot has moved by len({p_args}) - 1: its index is adjusted by exactly that (or recomputed) before it is used", fn=fp, construct="kwargs index adjusted")
    # duplicates: names already present are not added again; the name set excludes the slot itself
    dedup = None
    for s in _assigns(fp, p_kwargs):
        if isinstance(s.value, ast.ListComp):
            for gen in s.value.generators:
                for cond in gen.ifs:
                    if isinstance(cond, ast.Compare) and isinstance(cond.ops[0], ast.NotIn) and isinstance(cond.left, ast.Attribute) and cond.left.attr == "name" and isinstance(cond.comparators[0], ast.Name):
                        dedup = (s, cond.comparators[0].id)
    ctx.oblige("C13.c", dedup is not None, fp, "resolved keyword parameters whose name is already a named parameter of the function are not offered a second time", fn=fp, construct="dedup filter")
    if dedup is not None:
        s, setname = dedup
        sdef = _assigns(fp, setname)
        okd = False
        if len(sdef) == 1 and isinstance(sdef[0].value, ast.SetComp):
            it = sdef[0].value.generators[0].iter
            cut = _two_part_cut(it)
            if cut:
                i2 = _check_cut(ctx, "C13.c", fp, sdef[0], cut[0], cut[1], "names already present")
                okd = i2 == ki and cut[0].value.id == p_params
            elif _is_name(it, p_params):
                # whole list: then the **kwargs entry's own name is in the set - harmless unless a callee names a parameter 'kwargs'
                okd = True
        ctx.oblige("C13.c", okd and bool(ksplice) and gp.must_pass(gp.cn(s), [gp.entry], gp.cn(ksplice), exclude_labels={"e"}), s, "the names compared against are those of the function's own parameters (the list around the **kwargs slot), and the filter runs before the slot is replaced", fn=fp)

    # =========================================================== C13.d
    fsig = ctx.func(f"{M}:get_signature_parameters_and_indexes")
    gs = ctx.cfg(fsig)
    ctor = [c for c in calls_in(fsig) if call_leaf(c) == "ParamData"]
    ctx.need(len(ctor) == 1, "the single ParamData(...) construction in get_signature_parameters_and_indexes")
    loop = next((a for a in _ancestors_for(ctor[0]) if isinstance(a, ast.For)), None)
    ctx.need(loop is not None, "loop over the signature's parameters")
    lv = None
    if isinstance(loop.target, ast.Tuple) and isinstance(loop.iter, ast.Call) and call_leaf(loop.iter) == "enumerate":
        lv = loop.target.elts[1].id if isinstance(loop.target.elts[1], ast.Name) else None
        seq = loop.iter.args[0]
    elif isinstance(loop.target, ast.Name):
        lv = loop.target.id
        seq = loop.iter
    ctx.need(lv, "loop variable holding the inspect.Parameter")
    star = [k for k in ctor[0].keywords if k.arg is None]
    need_attrs = {"name", "annotation", "default", "kind"}
    got: Set[str] = set()
    same_param = True
    for k in ctor[0].keywords:
        if k.arg in need_attrs:
            got.add(k.arg)
            same_param &= isinstance(k.value, ast.Attribute) and k.value.attr == k.arg and _is_name(k.value.value, lv)
    for k in star:
        v = k.value
        if isinstance(v, ast.DictComp) and isinstance(v.value, ast.Call) and call_leaf(v.value) == "getattr" and len(v.value.args) == 2:
            ga = v.value
            kv = v.generators[0].target
            same = _is_name(ga.args[0], lv) and isinstance(kv, ast.Name) and _is_name(ga.args[1], kv.id) and _is_name(v.key, kv.id)
            same_param &= same
            it = v.generators[0].iter
            if same and isinstance(it, ast.Name):
                # the attribute list: module-level table derived from inspect.Parameter.__slots__ or a literal
                mod = ctx.repo.mod(M)
                for st in mod.tree.body:
                    if isinstance(st, ast.Assign) and any(_is_name(t, it.id) for t in st.targets):
                        txt = ast.unparse(st.value)
                        if "Parameter.__slots__" in txt and isinstance(st.value, ast.ListComp) and ast.unparse(st.value.elt) in (f"{st.value.generators[0].target.id}[1:]",) and not st.value.generators[0].ifs:
                            got |= need_attrs
                        elif isinstance(st.value, (ast.List, ast.Tuple, ast.Set)):
                            got |= {const_str(e) for e in st.value.elts if const_str(e)}
                        else:
                            raise AnalysisError(f"C13.d: the attribute table `{it.id}` is computed as `{txt[:80]}`, a form this rule does not know; it must be re-anchored")
    ctx.oblige("C13.d", need_attrs <= got and same_param, ctor[0], f"each resolved parameter takes name, annotation, default and kind from the same inspect.Parameter `{lv}` of the signature it comes from (attributes found: {sorted(got & need_attrs)})", fn=fsig)
    # order: self dropped under `if parent`, before the var-slot indexes are taken
    slices = [s for s in _assigns(fsig) if isinstance(s.value, ast.Subscript) and isinstance(s.value.slice, ast.Slice) and _is_name(s.value.value, s.targets[0].id)]
    idxs = [s for s in _assigns(fsig) if isinstance(s.value, ast.Call) and call_leaf(s.value) == "get_arg_kind_index"]
    ctx.floor("C13.d-indexes", len(idxs), 2)
    ok = len(slices) == 1
    if ok:
        sl = slices[0].value.slice
        ok = isinstance(sl.lower, ast.Constant) and sl.lower.value == 1 and sl.upper is None and sl.step is None
        atoms = guard_atoms(slices[0])
        fparams = [a.arg for a in fsig.args.args]
        ok = ok and len(atoms) == 1 and atoms[0][1] and isinstance(atoms[0][0], ast.Name) and atoms[0][0].id in fparams[1:2]
        ok = ok and not gs.can_reach(gs.cn(idxs), gs.cn(slices), exclude_labels={"e"})
        ok = ok and all(_is_name(i.value.args[0], slices[0].targets[0].id) for i in idxs)
    ctx.oblige("C13.d", ok, slices[0] if slices else fsig, "the implicit first parameter (self / cls) is dropped exactly when there is a parent class, with `[1:]`, and before the indexes of *args / **kwargs are computed on the same list", fn=fsig)
    # the returned indexes are the ones computed
    ret = [r for r in walk_local(fsig) if isinstance(r, ast.Return) and isinstance(r.value, ast.Tuple)]
    ctx.need(len(ret) == 1, "return tuple of get_signature_parameters_and_indexes")
    kinds_at = {}
    for pos, e in enumerate(ret[0].value.elts):
        for i in idxs:
            if _is_name(e, i.targets[0].id):
                kinds_at[pos] = next(iter(_kind_names(i.value)), None)
    ctx.oblige("C13.d", kinds_at == {1: "VAR_POSITIONAL", 2: "VAR_KEYWORD"}, ret[0], "the function returns (params, index of *args, index of **kwargs, ...) in that order: every caller unpacks it so", fn=fsig)

    # default expressions are looked up by parameter name in the function's source: the name list and the default list
    # must be aligned the way Python aligns them - positional-only parameters first, then the ordinary ones, `defaults`
    # right-aligned on those two; keyword-only parameters pair one-to-one with `kw_defaults`
    fdn = ctx.func(f"{M}:ParametersVisitor.get_default_nodes")
    txt = ast.unparse(fdn)
    sums = [n for n in ast.walk(fdn) if isinstance(n, ast.BinOp) and isinstance(n.op, ast.Add) and "posonlyargs" in ast.unparse(n.left) and ast.unparse(n.right).endswith(".args")]
    sums_rev = [n for n in ast.walk(fdn) if isinstance(n, ast.BinOp) and isinstance(n.op, ast.Add) and "posonlyargs" in ast.unparse(n.right) and ast.unparse(n.left).endswith(".args")]
    ctx.need(sums or sums_rev, "get_default_nodes: posonlyargs + args")
    ctx.oblige("C13.d", bool(sums) and not sums_rev, (sums or sums_rev)[0], "positional-only parameters come before the ordinary ones when names are paired with default expressions (the order of the signature): reversed, a class-instance default is paired with the wrong parameter and is not turned into a class_path / init_args default - the one object of the signature is then handed to every instantiation", fn=fdn)
    pad = [n for n in ast.walk(fdn) if isinstance(n, ast.BinOp) and isinstance(n.op, ast.Add) and isinstance(n.left, ast.BinOp) and isinstance(n.left.op, ast.Mult) and ast.unparse(n.right).endswith(".defaults")]
    okpad = len(pad) == 1
    if okpad:
        m = pad[0].left
        lst, cnt = (m.left, m.right) if isinstance(m.left, ast.List) else (m.right, m.left)
        okpad = isinstance(lst, ast.List) and len(lst.elts) == 1 and isinstance(lst.elts[0], ast.Constant) and lst.elts[0].value is None and isinstance(cnt, ast.BinOp) and isinstance(cnt.op, ast.Sub) and ast.unparse(cnt.right).endswith(".defaults)") and ast.unparse(cnt.left).startswith("len(")
    ctx.oblige("C13.d", okpad, pad[0] if pad else fdn, "`defaults` is right-aligned on the positional parameters ([None] * (number of parameters - number of defaults) in front)", fn=fdn)
    okkw = "kwonlyargs" in txt and "kw_defaults" in txt
    if okkw:
        # ... appended on the same side of both lists (names and default expressions stay paired)
        sides = {}
        for n in ast.walk(fdn):
            if isinstance(n, ast.BinOp) and isinstance(n.op, ast.Add):
                for attr in ("kwonlyargs", "kw_defaults"):
                    if ast.unparse(n.right).endswith("." + attr):
                        sides[attr] = "right"
                    elif ast.unparse(n.left).endswith("." + attr):
                        sides[attr] = "left"
            if isinstance(n, ast.AugAssign) and isinstance(n.op, ast.Add):
                for attr in ("kwonlyargs", "kw_defaults"):
                    if ast.unparse(n.value).endswith("." + attr):
                        sides[attr] = "right"
        ctx.oblige("C13.d", sides.get("kwonlyargs") == sides.get("kw_defaults") == "right", fdn, "keyword-only names and their default expressions are appended after the positional ones, both lists alike" if sides.get("kwonlyargs") == sides.get("kw_defaults") == "right" else f"keyword-only names are joined on the {sides.get('kwonlyargs')} and their defaults on the {sides.get('kw_defaults')}: names and default expressions are no longer paired - an instance default is looked up under the wrong parameter", fn=fdn, construct="keyword-only defaults aligned")
    ctx.oblige("C13.d", okkw, fdn, "keyword-only parameters and their defaults (`kwonlyargs` / `kw_defaults`) are part of the lookup" if okkw else "get_default_nodes ignores keyword-only parameters: for `def __init__(self, *, cal: Calendar = Calendar(firstweekday=1), **kwargs): super().__init__(a=5, **kwargs)` the number of default nodes differs from the number of instance defaults, the assertion in replace_param_default_subclass_specs fails, the source-based resolver gives up and the assumption fallback offers the hard-coded `a` - instantiation raises \"got multiple values for keyword argument 'a'\"", fn=fdn, construct="keyword-only defaults")

    # =========================================================== C13.e
    fpg = ctx.func(f"{M}:ast_is_kwargs_pop_or_get")
    rets = [r for r in walk_local(fpg) if isinstance(r, ast.Return) and r.value is not None]
    ctx.need(len(rets) == 1, "single return of ast_is_kwargs_pop_or_get")
    conj = rets[0].value.values if isinstance(rets[0].value, ast.BoolOp) and isinstance(rets[0].value.op, ast.And) else [rets[0].value]
    has_recv = has_attr = has_str = False
    for c in conj:
        t = ast.unparse(c)
        if isinstance(c, ast.Compare) and isinstance(c.ops[0], ast.Eq) and "ast.dump" in t and ".func.value" in t:
            has_recv = True
        if isinstance(c, ast.Compare) and isinstance(c.ops[0], ast.In) and ".func.attr" in ast.unparse(c.left) and isinstance(c.comparators[0], (ast.Set, ast.List, ast.Tuple)):
            has_attr = {const_str(e) for e in c.comparators[0].elts} == {"pop", "get"}
        if isinstance(c, ast.Call) and call_leaf(c) == "isinstance" and "args[0]" in t and ast.unparse(c.args[1]) == "str":
            has_str = True
    ctx.oblige("C13.e", has_recv, rets[0], "a pop/get call counts only when its receiver is the **kwargs value itself (dump equality with `node.func.value`)", fn=fpg, construct="receiver")
    ctx.oblige("C13.e", has_attr, rets[0], "the methods that read a keyword out of **kwargs are exactly `pop` and `get`", fn=fpg, construct="methods")
    ctx.oblige("C13.e", has_str, rets[0], "the parameter name must be a constant string first argument", fn=fpg, construct="constant name")
    fpp = ctx.func(f"{M}:ParametersVisitor.get_kwargs_pop_or_get_parameter")
    ctor = [c for c in calls_in(fpp) if call_leaf(c) == "ParamData"]
    ctx.need(len(ctor) == 1, "ParamData(...) in get_kwargs_pop_or_get_parameter")
    kw = {k.arg: k.value for k in ctor[0].keywords if k.arg}
    node_p = fpp.args.args[1].arg

    def from_arg(e: ast.AST, n: int) -> bool:
        """expression (or the locals it reads) is computed from node.args[n] only"""
        want = f"{node_p}.args[{n}]"
        other = f"{node_p}.args[{1 - n}]"
        texts = [ast.unparse(e)]
        if isinstance(e, ast.Name):
            texts = [ast.unparse(s.value) for s in _assigns(fpp, e.id)]
        return any(want in t for t in texts) and not any(other in t for t in texts)

    ctx.oblige("C13.e", "name" in kw and from_arg(kw["name"], 0), ctor[0], "the offered parameter is named by the first argument of the pop/get call", fn=fpp, construct="name from args[0]")
    ctx.oblige("C13.e", "default" in kw and from_arg(kw["default"], 1), ctor[0], "its default is the second argument of the pop/get call", fn=fpp, construct="default from args[1]")
    ctx.oblige("C13.e", "kind" in kw and _kind_names(kw["kind"]) == {"KEYWORD_ONLY"}, ctor[0], "it can only be given by keyword", fn=fpp, construct="kind")

    # the table of literal defaults (`{}` / `[]`) maps each literal to ITS OWN value: a lambda in the comprehension that
    # reads the loop variable when called sees the last literal for every entry (kwargs.pop("o", {}) offered with default [])
    modr = ctx.repo.mod(M)
    n_tbl = 0
    for st in modr.tree.body:
        if isinstance(st, ast.Assign) and isinstance(st.value, (ast.DictComp, ast.ListComp)):
            comp_ = st.value
            tvars = {x.id for g_ in comp_.generators for x in ast.walk(g_.target) if isinstance(x, ast.Name)}
            vals = [comp_.value] if isinstance(comp_, ast.DictComp) else [comp_.elt]
            for v in vals:
                for lam in [x for x in ast.walk(v) if isinstance(x, ast.Lambda)]:
                    n_tbl += 1
                    bound = {a.arg for a in lam.args.args + lam.args.kwonlyargs}
                    free = {x.id for x in ast.walk(lam.body) if isinstance(x, ast.Name)} & tvars - bound
                    ctx.oblige("C13.e", not free, lam, "stored callable binds the loop value" if not free else f"a lambda stored by a module-level comprehension reads the loop variable {sorted(free)} when it is CALLED: every entry of `{ast.unparse(st.targets[0])}` then yields the last literal - kwargs.pop('options', {{}}) is offered with default [] and the component fails on it", function=f"{M}:<module>", site=f"{M}:<module> :: {ast.unparse(st)[:80]}", construct="late-binding lambda in table")
    lit = [st for st in modr.tree.body if isinstance(st, ast.Assign) and any(isinstance(t, ast.Name) and t.id == "ast_literals" for t in st.targets)]
    ctx.need(lit, "module-level ast_literals table")

    # =========================================================== C13.f
    fsup = ctx.func(f"{M}:ast_is_supported_super_call")
    self_p = fsup.args.args[1].arg
    txt_ok = False
    for n in ast.walk(fsup):
        if isinstance(n, ast.Compare) and len(n.ops) == 1 and isinstance(n.ops[0], ast.Eq):
            l, r = ast.unparse(n.left), ast.unparse(n.comparators[0])
            if self_p in (l, r):
                other = n.comparators[0] if l == self_p else n.left
                # <arguments of the super(...) call>[1].id, the arguments read directly or through a local
                if isinstance(other, ast.Attribute) and other.attr == "id" and isinstance(other.value, ast.Subscript) and isinstance(other.value.slice, ast.Constant) and other.value.slice.value == 1:
                    seq = other.value.value
                    seq_txt = ast.unparse(seq)
                    if isinstance(seq, ast.Name):
                        seq_txt = next((ast.unparse(s.value) for s in _assigns(fsup, seq.id)), seq_txt)
                    txt_ok = txt_ok or seq_txt.endswith(".func.value.args")
    ctx.oblige("C13.f", txt_ok, fsup, "two-argument `super(C, x)` is followed only when `x` is the method's own first parameter", fn=fsup, construct="self is second argument")
    loops = [n for n in walk_local(fsup) if isinstance(n, ast.For)]
    ctx.need(len(loops) == 1, "MRO search loop of ast_is_supported_super_call")
    lp = loops[0]
    ok = isinstance(lp.iter, ast.Call) and call_leaf(lp.iter) == "enumerate" and isinstance(lp.iter.args[0], ast.Subscript) and isinstance(lp.iter.args[0].slice, ast.Slice)
    base = off = None
    if ok:
        sl = lp.iter.args[0].slice
        base = sl.lower.id if isinstance(sl.lower, ast.Name) else None
        start = next((k.value for k in lp.iter.keywords if k.arg == "start"), lp.iter.args[1] if len(lp.iter.args) > 1 else None)
        off = lp.target.elts[0].id if isinstance(lp.target, ast.Tuple) and isinstance(lp.target.elts[0], ast.Name) else None
        ok = base is not None and sl.upper is None and off is not None
        sets = [c for c in calls_in(lp) if call_leaf(c) == "set" and "current_mro" in ast.unparse(c.func)]
        ok = ok and len(sets) == 1 and isinstance(sets[0].args[0], ast.Tuple) and len(sets[0].args[0].elts) == 2
        if ok:
            second = sets[0].args[0].elts[1]
            if start is None:
                ok = isinstance(second, ast.BinOp) and isinstance(second.op, ast.Add) and {ast.unparse(second.left), ast.unparse(second.right)} == {base, off}
            else:
                ok = _is_name(start, base) and _is_name(second, off)
    ctx.oblige("C13.f", ok, lp, "the class named in `super(C, self)` is searched from the current position of the MRO on, and the position recorded for it is absolute (`idx + offset`, or enumerate started at idx)", fn=fsup)
    fmro = ctx.func(f"{M}:get_mro_parameters")
    gmro = ctx.cfg(fmro)
    loops = [n for n in walk_local(fmro) if isinstance(n, ast.For)]
    ctx.need(len(loops) == 1, "loop of get_mro_parameters")
    lp = loops[0]
    ok = isinstance(lp.iter, ast.Call) and call_leaf(lp.iter) == "enumerate" and isinstance(lp.iter.args[0], ast.Subscript) and isinstance(lp.iter.args[0].slice, ast.Slice)
    num = None
    if ok:
        sl = lp.iter.args[0].slice
        start = next((k.value for k in lp.iter.keywords if k.arg == "start"), lp.iter.args[1] if len(lp.iter.args) > 1 else None)
        tup = ast.unparse(next((s.targets[0] for s in walk_local(fmro) if isinstance(s, ast.Assign) and isinstance(s.targets[0], ast.Tuple) and "current_mro" in ast.unparse(s.value)), ast.Tuple(elts=[], ctx=ast.Load())))
        idxname = tup.strip("()").split(", ")[-1] if tup else ""
        ok = sl.upper is None and sl.lower is not None and _plus_one(sl.lower, idxname) and start is not None and ast.unparse(start) == ast.unparse(sl.lower)
        num = lp.target.elts[0].id if isinstance(lp.target, ast.Tuple) and isinstance(lp.target.elts[0], ast.Name) else None
    ctx.oblige("C13.f", ok, lp, "the next definition of the method is searched strictly after the current class (`classes[idx + 1:]`) and the loop counter is the absolute MRO position (`start=idx + 1`): otherwise super() resolves to the class itself (endless recursion) or the recorded position drifts", fn=fmro)
    sets = [c for c in calls_in(fmro) if call_leaf(c) == "set" and "current_mro" in ast.unparse(c.func)]
    recs = [c for c in calls_in(fmro) if isinstance(c.func, ast.Name) and c.func.id in [a.arg for a in fmro.args.args]]
    ok = len(sets) == 1 and len(recs) == 1 and num is not None and isinstance(sets[0].args[0], ast.Tuple) and _is_name(sets[0].args[0].elts[1], num) and gmro.must_pass(gmro.cn(sets[0]), [gmro.entry], gmro.cn(recs[0]), exclude_labels={"e"})
    ctx.oblige("C13.f", ok, recs[0] if recs else fmro, "the MRO position of the class whose method is resolved next is recorded before that resolution starts (a nested super() call continues from there)", fn=fmro)
    if recs:
        cls_v = lp.target.elts[1].id if isinstance(lp.target, ast.Tuple) and isinstance(lp.target.elts[1], ast.Name) else ""
        ctx.oblige("C13.f", len(recs[0].args) >= 2 and _is_name(recs[0].args[0], cls_v), recs[0], "the parameters are resolved on the class found in the MRO", fn=fmro)
        atoms = guard_atoms(recs[0])
        inherited = any(not pol and isinstance(t, ast.Call) and call_leaf(t) == "any" and any(isinstance(c, ast.Compare) and isinstance(c.ops[0], ast.Is) for c in ast.walk(t)) for t, pol in atoms)
        ctx.oblige("C13.f", inherited, recs[0], "a class that merely inherits the method (identical to the one of a later class) is skipped: its parameters are those of the defining class, reached from the right MRO position", fn=fmro)
        rem = [s for s in _assigns(fmro) if isinstance(s.value, ast.BinOp) and isinstance(s.value.left, ast.Subscript) and isinstance(s.value.left.slice, ast.Slice)]
        okr = len(rem) == 1 and num is not None and rem[0].value.left.slice.lower is not None and _plus_one(rem[0].value.left.slice.lower, num) and rem[0].value.left.slice.upper is None
        ctx.oblige("C13.f", okr, rem[0] if rem else fmro, "the classes compared against are those strictly after the candidate (`classes[num + 1:]`)", fn=fmro)

    # =========================================================== C13.g
    fget = ctx.func(f"{M}:get_signature_parameters")
    loops = [n for n in walk_local(fget) if isinstance(n, ast.For) and isinstance(n.iter, (ast.List, ast.Tuple))]
    ctx.need(len(loops) == 1, "resolver loop of get_signature_parameters")
    lp = loops[0]
    order = [e.id for e in lp.iter.elts if isinstance(e, ast.Name)]
    ok = len(order) == len(lp.iter.elts) and "get_parameters_from_ast" in order and "get_parameters_by_assumptions" in order and order[-1] == "get_parameters_by_assumptions"
    if ok:
        ia = order.index("get_parameters_from_ast")
        ok = all(order.index(x) > ia for x in order if x in ("get_parameters_from_stubs", "get_parameters_by_assumptions"))
    ctx.oblige("C13.g", ok, lp.iter, f"resolution from the source runs before the stub and assumption fallbacks, and the assumption fallback (which always answers) is last; found {order}", fn=fget)
    rv = lp.target.id if isinstance(lp.target, ast.Name) else ""
    call = [c for c in calls_in(lp) if isinstance(c.func, ast.Name) and c.func.id == rv]
    ctx.need(len(call) == 1, "call of the current resolver")
    from .util import enclosing_trys, handler_type_names

    trys = [t for t, part in enclosing_trys(call[0]) if part == "body" and any(t is x for x in ast.walk(lp))]
    okh = bool(trys) and any(set(handler_type_names(h)) & {"Exception", "BaseException"} for h in trys[0].handlers) and all(not any(isinstance(x, ast.Raise) for x in ast.walk(h)) for h in trys[0].handlers)
    ctx.oblige("C13.g", okh, call[0], "a resolver that fails (no source, unsupported construct) must fall through to the next one: the call sits in a try whose handler takes any Exception and does not re-raise", fn=fget)
    brk = [n for n in ast.walk(lp) if isinstance(n, ast.Break)]
    okb = False
    for b in brk:
        at = guard_atoms(b)
        okb |= any(pol and isinstance(t, ast.Compare) and isinstance(t.ops[0], ast.IsNot) and isinstance(t.comparators[0], ast.Constant) and t.comparators[0].value is None for t, pol in at)
    ctx.oblige("C13.g", okb, lp, "the chain stops at the first resolver that returns a list (`is not None`); an empty list is an answer", fn=fget, construct="stop at first answer")
    # the AST resolver itself: SourceNotAvailable on any failure to get source
    fpst = ctx.func(f"{M}:ParametersVisitor.parse_source_tree")
    tr = [n for n in walk_local(fpst) if isinstance(n, ast.Try)]
    ok = bool(tr) and any(set(handler_type_names(h)) & {"Exception", "BaseException"} and any(isinstance(x, ast.Raise) for x in ast.walk(h)) for h in tr[0].handlers) and any(call_leaf(c) == "getsource" for c in calls_in(tr[0]) if any(c is x for s in tr[0].body for x in ast.walk(s)))
    ctx.oblige("C13.g", ok, tr[0] if tr else fpst, "any failure to obtain or parse the component's source is turned into one exception the chain falls through on", fn=fpst)

    # the resolver recognises `self.x` / `super(C, self)` by the NAME of the method's first parameter; that parameter
    # may be positional-only (`def __init__(self, /, **kwargs)`): the name is the first of posonlyargs + args
    sn = [s_ for s_ in walk_local(fpst) if isinstance(s_, ast.Assign) and any(isinstance(t, ast.Attribute) and t.attr == "self_name" for t in s_.targets)]
    ctx.need(len(sn) == 1, "parse_source_tree: self.self_name = ...")
    okp = "posonlyargs" in ast.unparse(sn[0].value) or any("posonlyargs" in ast.unparse(a_.value) for a_ in _assigns(fpst) if a_.targets[0].id in {x.id for x in ast.walk(sn[0].value) if isinstance(x, ast.Name)})
    ctx.oblige("C13.g", okp, sn[0], "the instance parameter's name is looked up among positional-only and ordinary parameters" if okp else "the instance parameter's name is read from `args.args[0]` only: for `def __init__(self, /, **kwargs): super().__init__(a=5, **kwargs)` that raises IndexError, the source-based resolver gives up, and the assumption fallback offers the hard-coded `a` (instantiation: got multiple values for keyword argument 'a')", fn=fpst, construct="instance name with positional-only parameters")

    # =========================================================== C13.h
    fif = ctx.func(f"{M}:ParametersVisitor.visit_If")
    # names by role
    notflag = next((s.targets[0].id for s in _assigns(fif) if isinstance(s.value, ast.Call) and call_leaf(s.value) == "ast_is_not"), None)
    ctx.need(notflag, "flag from ast_is_not(node.test) in visit_If")
    cond = next((s.targets[0].id for s in _assigns(fif) if isinstance(s.value, ast.Call) and call_leaf(s.value) == "bool"), None)
    if cond is None:
        # the variable by role: the test of `node.body if <cond> else node.orelse`
        sel0 = [n for n in ast.walk(fif) if isinstance(n, ast.IfExp) and isinstance(n.body, ast.Attribute) and isinstance(n.orelse, ast.Attribute) and {n.body.attr, n.orelse.attr} == {"body", "orelse"}]
        if len(sel0) == 1 and isinstance(strip_not(sel0[0].test)[0], ast.Name):
            cname = strip_not(sel0[0].test)[0].id
            first = next((s for s in _assigns(fif, cname) if not (isinstance(s.value, ast.UnaryOp) and isinstance(s.value.op, ast.Not))), None)
            if first is not None and isinstance(first.value, ast.Compare) and len(first.value.ops) == 1 and isinstance(first.value.ops[0], (ast.Is, ast.Eq)) and isinstance(first.value.comparators[0], ast.Constant) and first.value.comparators[0].value is True:
                ctx.oblige("C13.h", False, first, f"`{ast.unparse(first)}` folds the module-level constant by comparing it with True instead of taking its truth value: for `if BACKEND: X(**kwargs) else: Y(**kwargs)` with BACKEND = 'torch' the parameters of the dead branch are offered and those of the live branch are rejected", fn=fif, construct="truth value of the constant")
                cond = cname
    ctx.need(cond, "condition = bool(<global value>) in visit_If")
    neg = [s for s in _assigns(fif, cond) if isinstance(s.value, ast.UnaryOp) and isinstance(s.value.op, ast.Not) and _is_name(s.value.operand, cond)]
    okn = len(neg) == 1 and [(ast.unparse(t), p) for t, p in guard_atoms(neg[0]) if _is_name(t, notflag)] == [(notflag, True)]
    if not neg:
        # alternative spelling: condition = bool(x) != is_test_not / xor
        okn = any(isinstance(s.value, ast.Compare) and isinstance(s.value.ops[0], ast.NotEq) and notflag in ast.unparse(s.value) for s in _assigns(fif, cond))
    ctx.oblige("C13.h", okn, neg[0] if neg else fif, "the value of the module-level constant is negated exactly when the test is written `not NAME`", fn=fif, construct="negation under not")
    sel = [n for n in ast.walk(fif) if isinstance(n, ast.IfExp) and isinstance(n.body, ast.Attribute) and isinstance(n.orelse, ast.Attribute) and {n.body.attr, n.orelse.attr} == {"body", "orelse"}]
    ctx.need(len(sel) == 1, "branch selection `node.body if condition else node.orelse` in visit_If")
    inner, pos = strip_not(sel[0].test)
    when_true = sel[0].body.attr if pos else sel[0].orelse.attr
    ctx.oblige("C13.h", _is_name(inner, cond) and when_true == "body", sel[0], "a true condition selects the `if` body, a false one the `else` part: swapped, parameters of the dead branch are offered and those of the live one are missing", fn=fif)
    tn = [n for n in ast.walk(fif) if isinstance(n, ast.IfExp) and "operand" in ast.unparse(n)]
    okt = len(tn) == 1
    if okt:
        inner, pos = strip_not(tn[0].test)
        with_operand = tn[0].body if pos else tn[0].orelse
        okt = _is_name(inner, notflag) and "operand" in ast.unparse(with_operand)
    ctx.oblige("C13.h", okt, tn[0] if tn else fif, "the name looked up in the module is the operand of `not` when the test is negated, the test itself otherwise", fn=fif)

    # =========================================================== C13.i
    fg = ctx.func(f"{M}:group_parameters")
    cmps = []
    for n in ast.walk(fg):
        if isinstance(n, ast.Compare) and len(n.ops) == 1 and isinstance(n.left, ast.Call) and call_leaf(n.left) == "len" and isinstance(n.comparators[0], ast.Name):
            cmps.append(n)
    counters = {c.comparators[0].id for c in cmps}
    ctx.need(len(counters) == 1 and len(cmps) == 2, "the two comparisons of len(<occurrences>) with the number of forwarding branches in group_parameters")
    a, b = cmps
    same_subject = ast.unparse(a.left) == ast.unparse(b.left)
    ops = {type(a.ops[0]).__name__, type(b.ops[0]).__name__}
    ctx.oblige("C13.i", same_subject and ops == {"GtE", "Lt"}, a, "a parameter is unconditional when every forwarding branch accepts it (`>=` the number of branches) and marked NOT_ACCEPTED for some branch exactly otherwise (`<`): the two tests are complements", fn=fg)
    na = [n for n in ast.walk(fg) if isinstance(n, ast.Constant) and n.value == "NOT_ACCEPTED"]
    okna = False
    for n in na:
        okna |= any(isinstance(t, ast.Compare) and isinstance(t.ops[0], ast.Lt) == pol and type(t.ops[0]).__name__ in ("Lt", "GtE") and t in cmps for t, pol in guard_atoms(n))
    ctx.oblige("C13.i", okna, na[0] if na else fg, "NOT_ACCEPTED is recorded only for a parameter that fewer branches accept than there are branches", fn=fg, construct="NOT_ACCEPTED guard")
    # counter counts the branches that are not pop/get pseudo-branches
    cname = next(iter(counters))
    incs = [n for n in walk_local(fg) if isinstance(n, ast.AugAssign) and _is_name(n.target, cname)]
    okc = len(incs) == 1 and isinstance(incs[0].op, ast.Add) and isinstance(incs[0].value, ast.Constant) and incs[0].value.value == 1
    if okc:
        at = guard_atoms(incs[0])
        okc = any(not pol and isinstance(t, ast.Call) and call_leaf(t) == "startswith" and any(_is_name(x, "param_kwargs_pop_or_get") for x in t.args) for t, pol in at)
    ctx.oblige("C13.i", okc, incs[0] if incs else fg, "branches are counted once each, and a kwargs.pop/get occurrence is not a branch (a name that is only popped would otherwise be required in every branch)", fn=fg)

    return ctx.finish(
        "Narrow claim. Decides, from the source of the library's own parameter resolver, structural necessary conditions of the "
        "property: exclusion of hard-coded arguments on every path (must-pass-through over the CFG), by position and by keyword; "
        "kinds offered per var slot; exact cutting of the var slot; provenance of name/annotation/default/kind from one "
        "inspect.Parameter; kwargs.pop/get recognition; MRO index arithmetic of super() handling; fall-through order of the "
        "resolver chain; polarity of constant-folded `if` tests; complementarity of the conditional-parameter tests. "
        "NOT decided: that these patterns cover every way a user program forwards **kwargs (the property's quantifier over "
        "programs), stub and pydantic/attrs resolvers, postponed annotations.",
        "per-clause syntax-directed rules + CFG must-pass-through over jsonargparse/_parameter_resolvers.py (see module docstring of jv/rules_C13.py)",
    )


def _ancestors_for(node: ast.AST):
    from .srcmodel import ancestors

    return list(ancestors(node))
