"""C15 - a linked argument always equals the function of its sources.

Decided clauses (necessary ordering / sealing conditions):
  C15.a  _parse_common applies parsing links before validation and after
         subcommand handling / sub-defaults (sources are final)
  C15.b  a link target cannot be assigned directly: ActionLink.__call__ only
         raises; ActionLink.__init__ re-points every option string of the replaced
         action to the link and removes the target from required_args
  C15.c  link targets never reach a dump: strip_link_target_keys dominates
         cleanup / as_dict in dump (and for the skip_default defaults), the
         multi-file save, and no dump call site switches it off
  C15.d  set_target_value stores the value on every path that is not an
         explicitly logged "ignored" early return
  C15.e  what the link machinery asks of the type layer: mapping targets / parameters
         are recognised through the type's origin; link targets below a mapping entry
         are narrowed by the entry's key only
  C15.f  decisions of _add_signature_parameter that depend on `is_required` come after the
         reclassification of required link targets
Not decided: target == f(sources) for all inputs and precedence mixes.
"""

from __future__ import annotations

import ast

from .report import Ctx
from .srcmodel import call_leaf, calls_in, const_str, contains, dotted, get_kwarg, src, walk_local
from .util import guard_chain, root_name

X = {"e"}  # implicit exception edges


def _ancestors(n):
    p = getattr(n, "_jv_parent", None)
    while p is not None:
        yield p
        p = getattr(p, "_jv_parent", None)


def run(ctx: Ctx) -> int:
    # ---------------- C15.a ----------------------------------------------------
    pc = ctx.func("_core:ArgumentParser._parse_common")
    g = ctx.cfg(pc)
    apl = [c for c in calls_in(pc) if call_leaf(c) == "apply_parsing_links"]
    val = [c for c in calls_in(pc) if call_leaf(c) == "validate"]
    hs = [c for c in calls_in(pc) if call_leaf(c) == "handle_subcommands"]
    sd = [c for c in calls_in(pc) if call_leaf(c) == "add_sub_defaults"]
    ctx.need(apl and val and hs and sd, "_parse_common: apply_parsing_links / validate / handle_subcommands / add_sub_defaults")
    ok = g.dominates(g.cn(apl), g.cn(val)) and not g.can_reach(g.cn(val), g.cn(apl))
    ctx.oblige("C15.a", ok, val[0], "links are applied before validation on every path" if ok else "validate can run before / without apply_parsing_links", fn=pc)
    ok = not g.can_reach(g.cn(apl), g.cn(hs) + g.cn(sd))
    ctx.oblige("C15.a", ok, apl[0], "links are computed after subcommand handling and sub-defaults (sources final)" if ok else "subcommand handling / sub-defaults can run after the links were computed", fn=pc)
    # a failure while applying links is reported, not swallowed
    h_ok = False
    for t in walk_local(pc):
        if isinstance(t, ast.Try) and any(contains(t, a) for a in apl):
            h_ok = all(any(call_leaf(c) == "error" for c in calls_in(h)) or any(isinstance(n, ast.Raise) for n in walk_local(h)) for h in t.handlers)
    ctx.oblige("C15.a", h_ok, apl[0], "a failing link computation is converted by self.error" if h_ok else "a failing link computation is swallowed", fn=pc, construct="link failure converted")
    # every returned cfg passed through the links: no return reachable without apply
    rets = [n for n in walk_local(pc) if isinstance(n, ast.Return)]
    ok = g.dominates(g.cn(apl), g.cn(rets))
    ctx.oblige("C15.a", ok, rets[0], "every return of _parse_common is dominated by apply_parsing_links" if ok else "a return of _parse_common bypasses apply_parsing_links", fn=pc)

    # ---------------- C15.b ----------------------------------------------------
    call = ctx.func("_link_arguments:ActionLink.__call__")
    gc = ctx.cfg(call)
    ok = gc.exit not in gc.reachable([gc.entry])
    raises_type = all(isinstance(r.exc, ast.Call) and call_leaf(r.exc) == "TypeError" for r in walk_local(call) if isinstance(r, ast.Raise))
    ctx.oblige("C15.b", ok and raises_type, call, "ActionLink.__call__ has no normal exit: direct assignment of a link target always raises TypeError" if ok and raises_type else "ActionLink.__call__ can return normally (a link target can be assigned from the command line)", fn=call)

    init = ctx.func("_link_arguments:ActionLink.__init__")
    ctx.expect_locals(init, ["parser", "target", "is_target_subclass", "valid_target_leaf"])
    gi = ctx.cfg(init)
    repoint = None
    for n in walk_local(init):
        if isinstance(n, ast.For) and isinstance(n.iter, ast.Attribute) and n.iter.attr == "option_strings" and "target" in ast.unparse(n.iter.value):
            for s in n.body:
                if (
                    isinstance(s, ast.Assign)
                    and isinstance(s.targets[0], ast.Subscript)
                    and dotted(s.targets[0].value) == "parser._option_string_actions"
                    and isinstance(s.value, ast.Name)
                    and s.value.id == "self"
                ):
                    repoint = (n, s)
    ctx.oblige("C15.b", repoint is not None, init, "every option string of the replaced target action is re-pointed to the link action" if repoint else "option strings of the target action are no longer re-pointed to the link (the target's option would be accepted)", fn=init, construct="repoint option strings")
    act_repl = [
        s
        for s in walk_local(init)
        if isinstance(s, ast.Assign)
        and isinstance(s.targets[0], ast.Subscript)
        and dotted(s.targets[0].value) == "parser._actions"
        and isinstance(s.value, ast.Name)
        and s.value.id == "self"
    ]
    ctx.oblige("C15.b", bool(act_repl), init, "the target action is replaced by the link in parser._actions" if act_repl else "parser._actions no longer gets the link in place of the target", fn=init, construct="replace in _actions")
    if repoint and act_repl:
        for what, node in (("repoint", repoint[0]), ("replace", act_repl[0])):
            gc_ = guard_chain(node)
            names = {n.id for t, _ in gc_ for n in ast.walk(t) if isinstance(n, ast.Name)}
            ok = len(gc_) == 1 and names <= {"is_target_subclass", "valid_target_leaf"}
            ctx.oblige("C15.b", ok, node, "replacement happens for every plain-argument target (guarded only by the target kind)" if ok else f"replacement of the target action is additionally guarded by {sorted(names)}", fn=init, construct=f"{what} guard")
    rem = [c for c in calls_in(init) if call_leaf(c) in ("remove", "discard") and dotted(c.func.value) == "parser.required_args"]
    ok = bool(rem)
    if ok:
        gch = guard_chain(rem[0])
        t0 = gch[0][0] if gch else None
        ok = (
            len(gch) == 1
            and gch[0][1]
            and isinstance(t0, ast.Compare)
            and len(t0.ops) == 1
            and isinstance(t0.ops[0], ast.In)
            and root_name(t0.left) == "target"
            and (dotted(t0.comparators[0]) or "").endswith("required_args")
            and root_name(rem[0].args[0]) == "target"
        )
    ctx.oblige("C15.b", ok, rem[0] if rem else init, "the link target is removed from required_args unconditionally (if present)" if ok else "the link target stays required / removal is conditional on something else", fn=init, construct="target not required")

    # ---------------- C15.c ----------------------------------------------------
    dump = ctx.func("_core:ArgumentParser.dump")
    ctx.expect_locals(dump, ["cfg", "defaults", "cfg_dict"])
    gd = ctx.cfg(dump)
    strips = [c for c in calls_in(dump) if call_leaf(c) == "strip_link_target_keys"]
    asd = [c for c in calls_in(dump) if call_leaf(c) == "as_dict" and root_name(c.func) == "cfg"]
    clean = [c for c in calls_in(dump) if call_leaf(c) == "_dump_cleanup_actions" and c.args and root_name(c.args[0]) == "cfg"]
    duf = [c for c in calls_in(dump) if call_leaf(c) == "dump_using_format"]
    ctx.need(strips and asd and clean and duf, "dump: strip_link_target_keys / _dump_cleanup_actions / as_dict / dump_using_format")
    main_strip = [c for c in strips if len(c.args) > 1 and root_name(c.args[1]) == "cfg"]
    ctx.need(main_strip, "dump: strip_link_target_keys(self, cfg)")
    # on the paths where skip_link_targets is true
    test_if = None
    for n in walk_local(dump):
        if isinstance(n, ast.If) and any(contains(n, c) for c in main_strip) and "skip_link_targets" in ast.unparse(n.test):
            test_if = n
    removed = gd.branch_edges(test_if, "f") if test_if is not None else set()
    only_flag = test_if is not None and isinstance(test_if.test, ast.Name)
    ok = test_if is not None and only_flag and gd.dominates(gd.cn(main_strip), gd.cn(asd) + gd.cn(clean) + gd.cn(duf), removed_edges=removed)
    ctx.oblige("C15.c", ok, main_strip[0], "with skip_link_targets on, link targets are stripped before cleanup, as_dict and formatting" if ok else "a dump path reaches serialisation without strip_link_target_keys", fn=dump)
    # default value of skip_link_targets is True
    a = dump.args
    dflt = None
    pos = a.args
    for i, p in enumerate(pos):
        if p.arg == "skip_link_targets":
            di = i - (len(pos) - len(a.defaults))
            if di >= 0:
                dflt = a.defaults[di]
    for p, d in zip(a.kwonlyargs, a.kw_defaults):
        if p.arg == "skip_link_targets":
            dflt = d
    ok = isinstance(dflt, ast.Constant) and dflt.value is True
    ctx.oblige("C15.c", ok, dump, "dump(skip_link_targets) defaults to True" if ok else "dump no longer strips link targets by default", fn=dump, construct="skip_link_targets default")
    dstrip = [c for c in strips if len(c.args) > 1 and root_name(c.args[1]) == "defaults"]
    dde = [c for c in calls_in(dump) if call_leaf(c) == "_dump_delete_default_entries"]
    ok = bool(dstrip) and bool(dde) and gd.dominates(gd.cn(dstrip), gd.cn(dde))
    ctx.oblige("C15.c", ok, dde[0] if dde else dump, "defaults compared under skip_default are stripped of link targets too" if ok else "skip_default compares against defaults that still contain link targets", fn=dump)
    # no internal dump call switches stripping off
    n_sites = 0
    for fq, fn in ctx.repo.all_funcs():
        for c in calls_in(fn):
            if call_leaf(c) == "dump" and isinstance(c.func, ast.Attribute) and not fq.startswith("_deprecated:"):
                k = get_kwarg(c, "skip_link_targets")
                if root_name(c.func) in ("json", "yaml", "ast"):
                    continue
                n_sites += 1
                ok = k is None or (isinstance(k, ast.Constant) and k.value is True)
                ctx.oblige("C15.c", ok, c, "dump call keeps link-target stripping on" if ok else "dump call passes skip_link_targets other than True", fn=fn)
    ctx.floor("C15.c-dump-sites", n_sites, 4)
    # print_config kwargs never carry skip_link_targets
    pcall = ctx.func("_actions:_ActionPrintConfig.__call__")
    keys = {const_str(k) for d in walk_local(pcall) if isinstance(d, ast.Dict) for k in d.keys if k is not None}
    vals = {const_str(v) for d in walk_local(pcall) if isinstance(d, ast.Dict) for v in d.values}
    ok = "skip_link_targets" not in keys and "skip_link_targets" not in vals
    ctx.oblige("C15.c", ok, pcall, "--print_config cannot switch link-target stripping off" if ok else "--print_config flags can disable link-target stripping", fn=pcall, construct="print_config flags")
    # save (multi-file)
    save = ctx.func("_core:ArgumentParser.save")
    gs = ctx.cfg(save)
    sstrip = [c for c in calls_in(save) if call_leaf(c) == "strip_link_target_keys"]
    sp = [c for c in calls_in(save) if call_leaf(c) == "save_paths" and isinstance(c.func, ast.Name)]
    ok = bool(sstrip) and bool(sp) and gs.dominates(gs.cn(sstrip), gs.cn(sp))
    ctx.oblige("C15.c", ok, sp[0] if sp else save, "multi-file save strips link targets before sub-files are produced" if ok else "multi-file save writes sub-files that may contain link targets", fn=save)

    # strip_link_target_keys: covers ActionLink targets, linked_targets of subclass actions and recurses into subcommands
    st = ctx.func("_link_arguments:ActionLink.strip_link_target_keys")
    txt = ast.unparse(st)
    del_calls = [c for c in calls_in(st) if call_leaf(c) == "del_target_key"]
    rec = [c for c in calls_in(st) if call_leaf(c) == "strip_link_target_keys"]
    ok = len(del_calls) >= 2 and bool(rec) and "linked_targets" in txt
    ctx.oblige("C15.c", ok, st, "strip covers link actions, linked init_args of subclass arguments and the selected subcommands" if ok else "strip_link_target_keys lost one of its three parts (link actions / linked_targets / subcommand recursion)", fn=st, construct="strip parts")

    # ---------------- C15.d ----------------------------------------------------
    stv = ctx.func("_link_arguments:ActionLink.set_target_value")
    ctx.expect_locals(stv, ["value", "cfg", "target_key", "parent", "child_key", "item"])
    g4 = ctx.cfg(stv)
    stores = []
    for s in walk_local(stv):
        if isinstance(s, ast.Assign) and isinstance(s.targets[0], ast.Subscript) and isinstance(s.value, ast.Name) and s.value.id == "value":
            stores.append(s)
    ignored = [c for c in calls_in(stv) if call_leaf(c) == "debug" and "ignored" in ast.unparse(c)]
    ctx.need(stores, "set_target_value: store of the value")
    via = g4.cn(stores) + g4.cn(ignored)
    # a per-item loop `for item in L: if k in item: item[k] = value` guarded by `any(... k in i for i in L)`
    # stores at least once: the loop head then counts as a storing node
    for lp in walk_local(stv):
        if isinstance(lp, ast.For) and any(contains(lp, s) for s in stores):
            itn = root_name(lp.iter)
            for t, pol in guard_chain(lp):
                anys = [c for c in calls_in(t) + ([t] if isinstance(t, ast.Call) else []) if call_leaf(c) == "any" and c.args and isinstance(c.args[0], ast.GeneratorExp)]
                if pol and any(root_name(a.args[0].generators[0].iter) == itn for a in anys):
                    via += g4.node_ids_of(lp)
    ok = g4.must_pass(via, [g4.entry], [g4.exit], exclude_labels={"e", "r"})
    path = None if ok else g4.find_path([g4.entry], [g4.exit], removed=via, exclude_labels={"e", "r"})
    ctx.oblige("C15.d", ok, stv, "every normal path stores the value in the target (or logs that the link is ignored)" if ok else "a path through set_target_value returns without storing the value", fn=stv, details={"path": g4.describe_path(path)})
    final = [s for s in stores if dotted(s.targets[0].value) == "cfg" and root_name(s.targets[0].slice) == "target_key"]
    ctx.oblige("C15.d", bool(final), stv, "the plain overwrite cfg[target_key] = value exists (a user-supplied target value is replaced)" if final else "cfg[target_key] = value vanished", fn=stv, construct="cfg[target_key] = value")
    # apply_parsing_links: every non-skipped link reaches set_target_value
    apf = ctx.func("_link_arguments:ActionLink.apply_parsing_links")
    g5 = ctx.cfg(apf)
    stc = [c for c in calls_in(apf) if call_leaf(c) == "set_target_value"]
    loop = [n for n in walk_local(apf) if isinstance(n, ast.For) and any(call_leaf(c) == "get_link_actions" for c in calls_in(n.iter))]
    ctx.need(stc and loop, "apply_parsing_links: link loop and set_target_value")
    head = g5.node_ids_of(loop[0])
    skipc = [n for n in walk_local(loop[0]) if isinstance(n, ast.Continue)]
    via = g5.cn(stc) + g5.cn(skipc)
    ok = g5.must_pass(via, [t for h in head for t, lab in g5.nodes[h].succ if lab == "loop"], head, exclude_labels={"e", "r"})
    ctx.oblige("C15.d", ok, loop[0], "each iteration either applies the link (set_target_value) or takes the logged skip_link `continue`" if ok else "an iteration of the link loop can finish without applying the link", fn=apf)

    # recursion into the selected subcommand does not depend on the parent's own links
    for fref in ("_link_arguments:ActionLink.apply_parsing_links", "_link_arguments:ActionLink.strip_link_target_keys"):
        fn_ = ctx.func(fref)
        gg = ctx.cfg(fn_)
        recs = [c for c in calls_in(fn_) if call_leaf(c) == fn_.name and c.args and root_name(c.args[0]) in ("subparser", "subparsers")]
        ctx.need(recs, f"{fref}: recursion into the subcommand parser")
        for c in recs:
            bad = [ast.unparse(t) for t, pol in gg.guards_of(gg.cn(c), exclude_labels={"e"}) if "_links_group" in ast.unparse(t)]
            ctx.oblige("C15.a", not bad, c, "links of a subcommand parser are handled whether or not the parent parser has links of its own" if not bad else f"recursion into the subcommand parser is reached only if the parent has links ({bad[0]}): links declared on a subcommand are skipped when the parent declares none", fn=fn_)
    # the per-item loop of set_target_value visits every item
    for lp in walk_local(stv):
        if isinstance(lp, ast.For) and any(contains(lp, s) for s in stores):
            early = [n for n in walk_local(lp) if isinstance(n, (ast.Break, ast.Return))]
            ctx.oblige("C15.d", not early, early[0] if early else lp, "every item of a list of classes that has the linked parameter receives the value (no early exit from the loop)" if not early else "the loop over the items of a list target can stop early: later items keep a stale value", fn=stv, construct="item loop complete")

    ctx.assumptions += ["argparse dispatches an option to the action registered in parser._option_string_actions"]
    # ---------------- C15.e ----------------------------------------------------
    # (1) whether a group-valued source is handed over as a dict is decided from the target's / parameter's type
    #     by is_mapping_typehint: a parametrised mapping (Dict[str, X]) is recognised through its ORIGIN
    imt = ctx.func("_typehints:ActionTypeHint.is_mapping_typehint")

    def _is_origin_expr(fn_, e) -> bool:
        if isinstance(e, ast.BoolOp) and isinstance(e.op, ast.Or):
            return _is_origin_expr(fn_, e.values[0])
        if isinstance(e, ast.Call) and call_leaf(e) == "get_typehint_origin":
            return True
        if isinstance(e, ast.Attribute) and e.attr == "__origin__":
            return True
        if isinstance(e, ast.Name):
            defs = [s for s in walk_local(fn_) if isinstance(s, ast.Assign) and any(isinstance(t, ast.Name) and t.id == e.id for t in s.targets)]
            return bool(defs) and all(_is_origin_expr(fn_, s.value) for s in defs)
        return False

    mem = [n for n in ast.walk(imt) if isinstance(n, ast.Compare) and len(n.ops) == 1 and isinstance(n.ops[0], ast.In) and isinstance(n.comparators[0], ast.Name) and n.comparators[0].id == "mapping_origin_types"]
    ok = any(_is_origin_expr(imt, m.left) for m in mem)
    ctx.oblige("C15.e", ok, mem[0] if mem else imt, "is_mapping_typehint tests the type's origin against mapping_origin_types (Dict[str, X], Mapping[...] are mappings)" if ok else "is_mapping_typehint no longer tests the ORIGIN of the type: for a Dict[str, X] target or compute_fn parameter a group-valued source is passed as a Namespace instead of a dict, so the target is not compute_fn(source)", fn=imt)
    # (2) link targets below a Dict entry are narrowed by the entry's key only; the `init_args.` component is
    #     stripped where present, never required (entries of dataclass type have none)
    ad15 = ctx.func("_typehints:adapt_typehints")
    lt_stores = [s for s in walk_local(ad15) if isinstance(s, ast.Assign) and any(isinstance(t, ast.Subscript) and const_str(t.slice) == "linked_targets" for t in s.targets) and any(isinstance(a, ast.For) and "items()" in ast.unparse(a.iter) for a in _ancestors(s))]
    ctx.need(lt_stores, "adapt_typehints Dict arm: narrowing of sub_add_kwargs['linked_targets'] per entry")
    bad_f = []
    n_f = 0
    for s in lt_stores:
        for comp in [x for x in ast.walk(s.value) if isinstance(x, (ast.SetComp, ast.ListComp, ast.GeneratorExp))]:
            for gen in comp.generators:
                for t in gen.ifs:
                    n_f += 1
                    consts = [x.value for x in ast.walk(t) if isinstance(x, ast.Constant) and isinstance(x.value, str)]
                    names = {x.id for x in ast.walk(t) if isinstance(x, ast.Name)}
                    for nm in list(names):
                        for d in [q for q in walk_local(ad15) if isinstance(q, ast.Assign) and any(isinstance(tt, ast.Name) and tt.id == nm for tt in q.targets)]:
                            consts += [x.value for x in ast.walk(d.value) if isinstance(x, ast.Constant) and isinstance(x.value, str)]
                    if any("init_args" in c for c in consts):
                        bad_f.append(t)
    ok = n_f >= 1 and not bad_f
    ctx.oblige(
        "C15.e",
        ok,
        bad_f[0] if bad_f else lt_stores[0],
        "link targets below a mapping entry are selected by the entry's key alone" if ok else "link targets below a mapping entry are only kept when they continue with `init_args.`: for entries of dataclass type the target is not passed down, the nested parser requires the linked parameter from the user again (dump / save of a parsed configuration fail)",
        fn=ad15,
        construct="linked_targets narrowed by key only",
    )

    # the sources of a link are the positional arguments of compute_fn, in the order the user listed them: nothing
    # between link_arguments and call_compute_fn reorders or de-duplicates them
    for ref in ("_link_arguments:ArgumentLinking.link_arguments", "_link_arguments:ActionLink.__init__"):
        fn_ = ctx.func(ref)
        reord = [c for c in calls_in(fn_) if isinstance(c.func, ast.Name) and c.func.id in ("sorted", "set", "reversed", "frozenset") and any(isinstance(x, ast.Name) and x.id == "source" for a in c.args for x in ast.walk(a))]
        reord += [c for c in calls_in(fn_) if isinstance(c.func, ast.Attribute) and c.func.attr in ("sort", "reverse") and root_name(c.func) == "source"]
        ok = not reord
        ctx.oblige("C15.d", ok, reord[0] if reord else fn_, "the source keys reach compute_fn in the order they were given" if ok else f"`{src(reord[0], 50)}` reorders / de-duplicates the source keys: compute_fn receives its positional arguments in a different order than the link declares (silently wrong value for non-commutative functions)", fn=fn_, construct="source order preserved")

    # which links are applied when: get_link_actions selects by the VALUE of apply_on ("parse" / "instantiate" are
    # strings the user passes in; two equal strings need not be the same object)
    gla = ctx.func("_link_arguments:get_link_actions")
    apc = [n_ for n_ in ast.walk(gla) if isinstance(n_, ast.Compare) and len(n_.ops) == 1 and any("apply_on" in ast.unparse(x) for x in [n_.left] + n_.comparators)]
    ctx.need(apc, "get_link_actions: comparison on apply_on")
    bad_c = [n_ for n_ in apc if not isinstance(n_.ops[0], (ast.Eq, ast.NotEq))]
    ctx.oblige("C15.a", not bad_c, bad_c[0] if bad_c else apc[0], "links are selected by the value of apply_on" if not bad_c else f"`{ast.unparse(bad_c[0])}` compares strings by identity: a link declared with an apply_on string built at run time (read from a settings file) is accepted - its target is replaced and dropped from the required keys - but never selected for application", fn=gla, construct="apply_on compared by value")

    # a link may hand an OBJECT to its target (an instance built for the source, or an attribute of it): between
    # apply_instantiation_links and the constructor call the init_args are re-branched (containers copied), never
    # deep-copied - the target receives the source's object, not a clone of it
    act15 = ctx.func("_typehints:adapt_class_type")
    dcs = [c for c in calls_in(act15) if isinstance(c.func, ast.Name) and c.func.id == "deepcopy" or (isinstance(c.func, ast.Attribute) and c.func.attr == "deepcopy")]
    dcs = [c for c in dcs if any("init_args" in ast.unparse(a) for a in c.args)]
    ok = not dcs
    ctx.oblige("C15.d", ok, dcs[0] if dcs else act15, "init_args are copied structurally (recreate_branches): objects inside keep their identity" if ok else f"`{src(dcs[0], 60)}` deep-copies the init_args: an object linked into a subclass argument (a tokenizer built for the source) is cloned just before the target is constructed - the target works on a copy and later changes of the source are invisible to it", fn=act15, construct="linked objects keep identity")

    # ---------------- C15.f ----------------------------------------------------
    # "the target of a link is not required from the user": _add_signature_parameter turns a required parameter that
    # is a link target into an optional one.  Every decision that depends on `is_required` (fallback type for untyped
    # parameters, default, positional/required) is taken AFTER that reclassification - a decision taken on the
    # old value treats the link target as a mandatory untyped parameter and leaves it out of the parser
    asp = ctx.func("_signatures:SignatureArguments._add_signature_parameter")
    gs_ = ctx.cfg(asp)
    rdefs = [s for s in walk_local(asp) if isinstance(s, ast.Assign) and isinstance(s.targets[0], ast.Name) and isinstance(s.value, ast.Compare) and "inspect_empty" in ast.unparse(s.value) and isinstance(s.value.ops[0], ast.Eq)]
    ctx.need(rdefs, "_add_signature_parameter: <is_required> = default == inspect_empty")
    rq = rdefs[0].targets[0].id
    writes = [s for s in walk_local(asp) if isinstance(s, ast.Assign) and s is not rdefs[0] and any(isinstance(t, ast.Name) and t.id == rq for t in s.targets)]
    ctx.floor("C15.f-reclassifications", len(writes), 2)
    lt_w = [w for w in writes if any("linked_targets" in ast.unparse(t) for t, _ in guard_chain(w, stop=asp))]
    ctx.need(lt_w, "_add_signature_parameter: reclassification of required link targets")
    stale = []
    for w in lt_w:
        wn = set(gs_.cn(w))
        others = [i for x in writes if x is not w for i in gs_.cn(x)]
        own_guards = {id(n_) for t, _ in guard_chain(w, stop=asp) for n_ in ast.walk(t)}
        for r in [n_ for n_ in walk_local(asp) if isinstance(n_, ast.Name) and n_.id == rq and isinstance(n_.ctx, ast.Load) and id(n_) not in own_guards]:
            rn = gs_.cn(r)
            if not rn or set(rn) & wn:
                continue
            if gs_.reachable(rn, removed=others) & wn:
                stale.append(r)
    ok = not stale
    ctx.oblige(
        "C15.f",
        ok,
        stale[0] if stale else lt_w[0],
        f"every decision that reads `{rq}` comes after the reclassification of required link targets" if ok else f"`{rq}` is read (line {stale[0].lineno}) before required link targets are reclassified as optional: an untyped mandatory parameter that is a link target gets no fallback type and is left out of the class parser - the link is ignored, and a configuration that supplies the target is rejected",
        fn=asp,
        construct="decisions after reclassification",
    )

    # ---------------- C15.h: "the source is not there yet" means the KEY is absent -------------------------------------
    # apply_parsing_links skips a link whose source lives below a class argument that has not been given; a source that IS
    # given with the value None (seed: null) is a value like any other and must be propagated
    apl15 = ctx.func("_link_arguments:ActionLink.apply_parsing_links")
    skips = [n_ for n_ in walk_local(apl15) if isinstance(n_, ast.If) and any(isinstance(c, ast.Call) and call_leaf(c) == "is_subclass_typehint" for c in ast.walk(n_.test)) and any(isinstance(x, ast.Continue) or (isinstance(x, ast.Assign) and isinstance(x.value, ast.Constant) and x.value.value is True) for x in ast.walk(n_))]
    ctx.floor("C15.h-unresolved-source", len(skips), 1)
    for n_ in skips:
        member = [c for c in ast.walk(n_.test) if isinstance(c, ast.Compare) and len(c.ops) == 1 and isinstance(c.ops[0], ast.NotIn)]
        none_t = [c for c in ast.walk(n_.test) if isinstance(c, ast.Compare) and len(c.ops) == 1 and isinstance(c.ops[0], (ast.Is, ast.Eq)) and isinstance(c.comparators[0], ast.Constant) and c.comparators[0].value is None]
        ok = bool(member) and not none_t
        ctx.oblige("C15.h", ok, n_.test, "a link is skipped for an unresolved source only when the source key is absent" if ok else f"`{ast.unparse(n_.test)[:90]}` skips the link when the source's VALUE is None: `seed: null` next to a linked `data_seed` leaves the target unset or at the user's value - the target no longer equals the function of its sources", fn=apl15)

    # ---------------- C15.g ----------------------------------------------------
    # A parse-time link whose target is a source of another link (or the other way round) would be computed from a
    # value that is overwritten afterwards.  The creation check refuses such links - provided its tables hold EVERY
    # existing target and EVERY source of every existing parse-time link, and every new source is looked up.
    iic = ctx.func("_link_arguments:ActionLink._initial_input_checks")
    tables = {}
    for s_ in walk_local(iic):
        if isinstance(s_, ast.Assign) and len(s_.targets) == 1 and isinstance(s_.targets[0], ast.Name) and isinstance(s_.value, (ast.SetComp, ast.ListComp, ast.GeneratorExp)):
            tables[s_.targets[0].id] = s_
    refusals = []
    for n_ in walk_local(iic):
        if isinstance(n_, ast.If) and isinstance(n_.test, ast.Compare) and len(n_.test.ops) == 1 and isinstance(n_.test.ops[0], ast.In) and isinstance(n_.test.comparators[0], ast.Name) and n_.test.comparators[0].id in tables and any(isinstance(x, ast.Raise) for x in n_.body):
            refusals.append((n_, tables[n_.test.comparators[0].id]))
    ctx.floor("C15.g-refusals", len(refusals), 3)
    src_tables = tgt_tables = 0
    for ifn, tab in refusals:
        comp = tab.value
        txt_iters = [ast.unparse(g_.iter) for g_ in comp.generators]
        over_links = bool(comp.generators) and isinstance(comp.generators[0].iter, ast.Name)
        elt_names = {x.id for x in ast.walk(comp.elt) if isinstance(x, ast.Name)}
        mentions_source = ".source" in ast.unparse(comp)
        if mentions_source:
            src_tables += 1
            lv = comp.generators[0].target.id if isinstance(comp.generators[0].target, ast.Name) else ""
            inner = [g_ for g_ in comp.generators[1:] if ast.unparse(g_.iter) == f"{lv}.source" and isinstance(g_.target, ast.Name)]
            ok = over_links and len(inner) == 1 and elt_names == {inner[0].target.id} and ".source" not in ast.unparse(comp.elt)
            ctx.oblige("C15.g", ok, tab, "the table of existing sources holds every source of every parse-time link (one generator over the links, one over each link's `source` list)" if ok else "the table of existing sources is not built from every element of every link's `source` list: a link whose target is the second source of a multi-source link is accepted, and that link then computes its target from the value before it is overwritten", fn=iic)
            conds = [ast.unparse(c_) for g_ in comp.generators for c_ in g_.ifs]
            okc = all("apply_on" in c_ for c_ in conds)
            ctx.oblige("C15.g", okc, tab, "only the apply_on test filters that table" if okc else f"existing sources are filtered by {conds}", fn=iic, construct="source table filter")
        else:
            tgt_tables += 1
            ok = over_links and len(comp.generators) == 1 and not comp.generators[0].ifs
            ctx.oblige("C15.g", ok, tab, "the table of existing targets holds the target of every link" if ok else "the table of existing targets is filtered or not built from all link actions", fn=iic)
    ctx.oblige("C15.g", src_tables >= 1 and tgt_tables >= 2, iic, "a new link is refused when its target is an existing target or source, and when one of its sources is an existing target", fn=iic, construct="three refusals")
    # every new source is looked up
    loops_ = [n_ for n_ in walk_local(iic) if isinstance(n_, ast.For) and any(ifn is x for ifn, _ in refusals for x in ast.walk(n_))]
    ok = len(loops_) == 1
    if ok:
        it = loops_[0].iter
        par_src = iic.args.args[1].arg
        ok = (isinstance(it, ast.IfExp) and ast.unparse(it.orelse if "isinstance" in ast.unparse(it.test) and not ast.unparse(it.test).startswith("not ") else it.body) == par_src) or ast.unparse(it) == par_src
        ok = ok and not any(isinstance(x, (ast.Break, ast.Continue)) for x in ast.walk(loops_[0]))
    ctx.oblige("C15.g", ok, loops_[0] if loops_ else iic, "each of the new link's sources is checked against the existing targets" if ok else "not every source of the new link is checked against the existing targets", fn=iic)

    return ctx.finish(
        explanation=(
            "Dominance / must-pass-through queries on the CFGs of _parse_common, ActionLink.__init__/__call__/set_target_value/apply_parsing_links, dump and save: "
            "links before validation, direct assignment can only raise, targets stripped before every serialisation, value stored on every non-ignored path. "
            "These are necessary ordering and sealing conditions of C15; the equation target == f(sources) over all inputs is not decided."
        ),
        rule_text="one obligation per ordering/sealing site; non-trivial = both ends of the ordering exist in the function",
    )
