"""Alpha-normalisation of local variable names against a committed reference (jv/localnames.json).

Several rules identify statements through the names of local variables.  A pure renaming of locals keeps behaviour;
to decide such code instead of failing closed, every function whose shape - its AST with the renamable locals replaced
by their index of first binding - equals the shape recorded for the same qualified name on the reference tree gets its
locals renamed back to the recorded names before any rule runs.  Functions whose shape differs (a real edit) are left
alone: rules then see the names as written and fail closed if they cannot find them (ctx.expect_locals).

Eligibility mirrors the renaming variant of the self-test: functions without nested function / lambda / class, that do not
call locals() / vars() / eval() / exec(); parameters, comprehension targets, global / nonlocal / imported names are never
touched.  tools/gen_localnames.py regenerates the reference from /repo (run it after every repository fix)."""

from __future__ import annotations

import ast
import hashlib
import json
import os
from typing import Dict, List, Optional, Tuple

FuncT = (ast.FunctionDef, ast.AsyncFunctionDef)
REF = os.path.join(os.path.dirname(os.path.abspath(__file__)), "localnames.json")
_table: Optional[Dict[str, dict]] = None


def _load() -> Dict[str, dict]:
    global _table
    if _table is None:
        try:
            with open(REF) as f:
                _table = json.load(f)
        except OSError:
            _table = {}
    return _table


def renamable(fn: ast.AST) -> Optional[List[str]]:
    """Ordered (first binding, ast.walk order) list of local names that a pure renaming may touch; None if not eligible."""
    for n in ast.walk(fn):
        if n is not fn and isinstance(n, FuncT + (ast.Lambda, ast.ClassDef)):
            return None
    calls = {n.func.id for n in ast.walk(fn) if isinstance(n, ast.Call) and isinstance(n.func, ast.Name)}
    if calls & {"locals", "vars", "eval", "exec"}:
        return None
    a = fn.args
    params = {x.arg for x in a.posonlyargs + a.args + a.kwonlyargs} | ({a.vararg.arg} if a.vararg else set()) | ({a.kwarg.arg} if a.kwarg else set())
    comp_targets, declared = set(), set()
    stored: List[str] = []
    for n in ast.walk(fn):
        if isinstance(n, ast.comprehension):
            comp_targets |= {x.id for x in ast.walk(n.target) if isinstance(x, ast.Name)}
        elif isinstance(n, (ast.Global, ast.Nonlocal)):
            declared |= set(n.names)
        elif isinstance(n, ast.Name) and isinstance(n.ctx, (ast.Store, ast.Del)):
            if n.id not in stored:
                stored.append(n.id)
        elif isinstance(n, ast.ExceptHandler) and n.name:
            if n.name not in stored:
                stored.append(n.name)
        elif isinstance(n, (ast.Import, ast.ImportFrom)):
            for al in n.names:
                declared.add((al.asname or al.name).split(".")[0])
    return [x for x in stored if x not in params and x not in comp_targets and x not in declared]


def shape(fn: ast.AST, names: List[str]) -> str:
    idx = {n: f"_L{i}" for i, n in enumerate(names)}

    class R(ast.NodeTransformer):
        def visit_Name(self, node):
            return ast.copy_location(ast.Name(id=idx.get(node.id, node.id), ctx=node.ctx), node)

        def visit_ExceptHandler(self, node):
            self.generic_visit(node)
            if node.name in idx:
                node.name = idx[node.name]
            return node

    import copy

    t = R().visit(copy.deepcopy(fn))
    return hashlib.sha1(ast.dump(t, include_attributes=False).encode()).hexdigest()[:16]


def functions(tree: ast.Module) -> List[Tuple[str, ast.AST]]:
    """(qualified name with an occurrence index, function) for every function of the module."""
    out: List[Tuple[str, ast.AST]] = []
    seen: Dict[str, int] = {}

    def visit(node: ast.AST, prefix: str) -> None:
        for child in ast.iter_child_nodes(node):
            if isinstance(child, FuncT):
                q = prefix + child.name
                k = seen.get(q, 0)
                seen[q] = k + 1
                out.append((f"{q}#{k}", child))
                visit(child, q + ".")
            elif isinstance(child, ast.ClassDef):
                visit(child, prefix + child.name + ".")
            else:
                visit(child, prefix)

    visit(tree, "")
    return out


def reference_of(tree: ast.Module, module: str) -> Dict[str, dict]:
    ref = {}
    for q, fn in functions(tree):
        names = renamable(fn)
        if names:
            ref[f"{module}:{q}"] = {"names": names, "shape": shape(fn, names)}
    return ref


def normalise(tree: ast.Module, module: str) -> int:
    """Rename locals back to the reference names where the function's shape is the recorded one.  Returns the number of
    functions touched."""
    table = _load()
    touched = 0
    for q, fn in functions(tree):
        ent = table.get(f"{module}:{q}")
        if not ent:
            continue
        names = renamable(fn)
        if not names or names == ent["names"] or len(names) != len(ent["names"]):
            continue
        if shape(fn, names) != ent["shape"]:
            continue
        mp = dict(zip(names, ent["names"]))
        for n in ast.walk(fn):
            if isinstance(n, ast.Name) and n.id in mp:
                n.id = mp[n.id]
            elif isinstance(n, ast.ExceptHandler) and n.name in mp:
                n.name = mp[n.name]
        touched += 1
    return touched
