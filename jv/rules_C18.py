"""C18 - save never destroys data.

Decided clauses (DESIGN.md section 3 / C18):
  C18.a1  no serialisation / validation call is evaluated while a write handle
          is open (inside a `with open(..., "w")` body, or as argument of
          f.write there)
  C18.a2  on every path through `save`, every fallible computation precedes the
          first open-for-write (all-or-nothing over main file and sub-files)
  C18.b   check_overwrite(P) dominates every open-for-write of path P
  C18.c   the Path objects save constructs are pure checks: no constructor call
          enables Path.__init__'s own open-for-write probe (read from Path.__init__)
Not decided: I/O errors during the writes themselves; re-parse equals original.
"""

from __future__ import annotations

import ast
from typing import Dict, List, Optional, Set, Tuple

from .report import Ctx
from .srcmodel import AnalysisError, FuncNode, call_leaf, call_name, calls_in, contains, src, stmt_of, walk_local
from .util import enclosing_withs, is_open_for_write, nested_defs, root_name

# calls that can fail because of the *configuration* being saved
FALLIBLE_LEAVES = {
    "check_overwrite",  # refuses (raises) for an existing file: has to happen before ANY file was written
    "dump",
    "dump_using_format",
    "validate",
    "get_content",
    "strip_meta",
    "strip_link_target_keys",
    "as_dict",
    "_dump_cleanup_actions",
    "serialize",
}

SAVE = "_core:ArgumentParser.save"


_HIDDEN: Dict[str, Set[str]] = {}


def path_ctor_write_flags(ctx: Ctx) -> Set[str]:
    """Mode flags under which constructing a `Path` itself opens the target for writing (a destructive probe).
    Read from Path.__init__: every `.open(<p>, <mode>)` whose mode is a constant write mode (then: every
    construction, reported as '*'), or a local built by filtering the constructor's `mode` through a literal
    set of characters (then: the write characters of that set)."""
    key = ctx.repo.root if hasattr(ctx.repo, "root") else "repo"
    if key in _HIDDEN:
        return _HIDDEN[key]
    init = ctx.func("_util:Path.__init__")
    flags: Set[str] = set()
    for c in calls_in(init):
        if call_leaf(c) != "open" or not isinstance(c.func, ast.Attribute):
            continue
        if is_open_for_write(c):
            flags.add("*")
            continue
        marg = c.args[1] if len(c.args) > 1 else next((k.value for k in c.keywords if k.arg == "mode"), None)
        if marg is None or isinstance(marg, ast.Constant):
            continue
        if not isinstance(marg, ast.Name):
            raise AnalysisError(f"Path.__init__: cannot read the mode of {src(c)}")
        defs = [s for s in walk_local(init) if isinstance(s, ast.Assign) and any(isinstance(t, ast.Name) and t.id == marg.id for t in s.targets)]
        if len(defs) != 1:
            raise AnalysisError(f"Path.__init__: mode `{marg.id}` of {src(c)} has {len(defs)} definitions")
        comps = [g for x in ast.walk(defs[0].value) if isinstance(x, (ast.GeneratorExp, ast.ListComp)) for g in x.generators]
        allowed: Optional[Set[str]] = None
        for g in comps:
            if isinstance(g.iter, ast.Name) and g.iter.id == "mode":
                for t in g.ifs:
                    if isinstance(t, ast.Compare) and isinstance(t.ops[0], ast.In) and isinstance(t.comparators[0], (ast.Set, ast.Tuple, ast.List, ast.Constant)):
                        comp = t.comparators[0]
                        allowed = set(comp.value) if isinstance(comp, ast.Constant) else {e.value for e in comp.elts if isinstance(e, ast.Constant)}
        if allowed is None:
            raise AnalysisError(f"Path.__init__: cannot bound the mode `{marg.id}` of {src(c)}")
        flags |= allowed & set("wax+")
    _HIDDEN[key] = flags
    return flags


def _hidden_write(ctx: Ctx, c: ast.Call) -> bool:
    """`Path(<p>, mode=<const>)` whose constant mode enables the constructor's own open-for-write."""
    if not (isinstance(c.func, ast.Name) and c.func.id == "Path"):
        return False
    flags = path_ctor_write_flags(ctx)
    if not flags:
        return False
    m = c.args[1] if len(c.args) > 1 else next((k.value for k in c.keywords if k.arg == "mode"), None)
    if m is None:
        return "*" in flags
    if not (isinstance(m, ast.Constant) and isinstance(m.value, str)):
        return True  # unknown mode: may enable the probe
    return "*" in flags or bool(set(m.value) & flags)


_CTX: List[Ctx] = []


def _w_calls(fn: ast.AST) -> List[ast.Call]:
    return [c for c in calls_in(fn) if is_open_for_write(c) or (_CTX and _hidden_write(_CTX[0], c))]


def _f_calls(fn: ast.AST) -> List[ast.Call]:
    return [c for c in calls_in(fn) if call_leaf(c) in FALLIBLE_LEAVES]


def run(ctx: Ctx) -> int:
    _CTX[:] = [ctx]
    save = ctx.func(SAVE)
    nested = nested_defs(save)
    units: Dict[str, ast.AST] = {"save": save}
    units.update(nested)

    # transitive summaries of nested closures: do they contain W / F ?
    hasW: Dict[str, bool] = {}
    hasF: Dict[str, bool] = {}

    def summarise(name: str, seen=()) -> Tuple[bool, bool]:
        if name in hasW:
            return hasW[name], hasF[name]
        fn = units[name]
        w = bool(_w_calls(fn))
        f = bool(_f_calls(fn))
        for c in calls_in(fn):
            leaf = call_leaf(c)
            if isinstance(c.func, ast.Name) and leaf in nested and leaf not in seen and leaf != name:
                w2, f2 = summarise(leaf, seen + (name,))
                w, f = w or w2, f or f2
        hasW[name], hasF[name] = w, f
        return w, f

    for n in units:
        summarise(n)

    all_w: List[Tuple[str, ast.Call]] = [(n, c) for n, fn in units.items() for c in _w_calls(fn)]
    ctx.floor("C18.W-sites", len(all_w), 2)
    ctx.analysed["call_sites"] += len(all_w) + sum(len(_f_calls(fn)) for fn in units.values())

    # ---- C18.a1: nothing fallible while a write handle is open -----------
    n_a1 = 0
    for uname, fn in units.items():
        for node in walk_local(fn):
            if not isinstance(node, (ast.With, ast.AsyncWith)):
                continue
            witems = [it for it in node.items if isinstance(it.context_expr, ast.Call) and is_open_for_write(it.context_expr)]
            if not witems:
                continue
            n_a1 += 1
            bad: List[ast.Call] = []
            for s in node.body:
                for c in calls_in(s) + ([s.value] if isinstance(s, ast.Expr) and isinstance(s.value, ast.Call) else []):
                    leaf = call_leaf(c)
                    if leaf in FALLIBLE_LEAVES and c not in bad:
                        bad.append(c)
                    elif isinstance(c.func, ast.Name) and leaf in nested and hasF.get(leaf) and c not in bad:
                        bad.append(c)
            ctx.oblige(
                "C18.a1",
                not bad,
                node,
                (
                    "write handle " + src(witems[0].context_expr) + " is open while " + ", ".join(src(b, 60) for b in bad) + " runs: a failure there leaves a truncated/partial file"
                    if bad
                    else "body of the write handle only writes precomputed text"
                ),
                fn=fn,
                details={"with": src(node.items[0]), "fallible_inside": [src(b) for b in bad]},
            )
    ctx.floor("C18.a1", n_a1, 2)

    # ---- C18.a2: every fallible call precedes the first write -------------
    # node classification on each unit's CFG, nested closures summarised at call sites
    n_a2 = 0
    for uname, fn in units.items():
        g = ctx.cfg(fn)
        wn: Dict[int, ast.AST] = {}
        fnodes: Dict[int, ast.AST] = {}
        for c in calls_in(fn):
            ids = g.nodes_containing(c)
            leaf = call_leaf(c)
            isw = is_open_for_write(c) or _hidden_write(ctx, c) or (isinstance(c.func, ast.Name) and leaf in nested and hasW.get(leaf))
            isf = leaf in FALLIBLE_LEAVES or (isinstance(c.func, ast.Name) and leaf in nested and hasF.get(leaf))
            for i in ids:
                if isw:
                    wn[i] = c
                if isf:
                    fnodes[i] = c
        if not wn:
            continue
        for wi, wc in sorted(wn.items()):
            n_a2 += 1
            reach = g.reachable([wi])
            later = sorted(i for i in fnodes if i in reach and not (i == wi and not _self_loop(g, wi)))
            # a W node that is also an F node via a closure call (save_paths) is judged inside the closure
            later = [i for i in later if not (i == wi and isinstance(wc.func, ast.Name) and call_leaf(wc) in nested)] if False else later
            path = g.find_path([wi], later[:1]) if later else None
            ctx.oblige(
                "C18.a2",
                not later,
                wc,
                (
                    f"after the write {src(wc, 60)} a fallible step can still run: {src(fnodes[later[0]], 60)}; a failure there leaves some files written and others not"
                    if later
                    else "no validation / serialisation step is reachable after this write"
                ),
                fn=fn,
                details={"path": g.describe_path(path)},
            )
    ctx.floor("C18.a2", n_a2, 2)

    # ---- C18.b: check_overwrite(P) dominates every write of P --------------
    n_b = 0
    for uname, fn in units.items():
        for wc in _w_calls(fn):
            n_b += 1
            ok, why = _overwrite_checked(ctx, units, uname, fn, wc)
            ctx.oblige("C18.b", ok, wc, why, fn=fn)
    ctx.floor("C18.b", n_b, 2)

    # ---- C18.c: no hidden writes: the Path objects `save` constructs are pure checks -----------------------
    flags = path_ctor_write_flags(ctx)
    n_c = 0
    for uname, fn in units.items():
        for c in calls_in(fn):
            if isinstance(c.func, ast.Name) and c.func.id == "Path":
                n_c += 1
                bad = _hidden_write(ctx, c)
                ctx.oblige(
                    "C18.c",
                    not bad,
                    c,
                    f"constructing {src(c, 50)} only inspects the file system" if not bad else f"constructing {src(c, 50)} opens the target for writing (Path.__init__ probes fsspec paths with fsspec.open(path, <mode flags {sorted(flags)}>).open()): the existing file is truncated - or an empty one created - before anything was validated or serialised",
                    fn=fn,
                )
    ctx.floor("C18.c-path-constructions", n_c, 3)

    # check_overwrite itself must refuse: raise under (not overwrite and isfile)
    co = nested.get("check_overwrite")
    ctx.need(co, "nested function check_overwrite in ArgumentParser.save")
    raises = [n for n in walk_local(co) if isinstance(n, ast.Raise)]
    tests = [n for n in walk_local(co) if isinstance(n, ast.If)]
    good = bool(raises) and any("overwrite" in ast.unparse(t.test) and "isfile" in ast.unparse(t.test) for t in tests)
    ctx.oblige("C18.b", good, co, "check_overwrite raises when overwrite is off and the file exists" if good else "check_overwrite no longer refuses existing files", fn=co, construct="check_overwrite refuses")
    # ... and it looks at the location that will be written: every write opens `<path>.absolute`
    probes = [c for c in calls_in(co) if call_name(c) in ("os.path.isfile", "os.path.exists", "os.access", "os.path.lexists") and c.args]
    written = {ast.unparse(c.args[0]).split(".")[-1] for _, c in all_w if c.args and isinstance(c.args[0], ast.Attribute)}
    cop = co.args.args[0].arg if co.args.args else None
    ok = bool(probes) and all(isinstance(c.args[0], ast.Attribute) and isinstance(c.args[0].value, ast.Name) and c.args[0].value.id == cop and c.args[0].attr in (written or {"absolute"}) for c in probes)
    ctx.oblige("C18.b", ok, probes[0] if probes else co, "check_overwrite probes the same location the write opens (`.absolute`)" if ok else f"check_overwrite probes `{ast.unparse(probes[0].args[0]) if probes else '?'}` while the write opens `.absolute`: for a target spelt `~/x.yaml`, file://..., or a Path with another cwd the existing file is not seen and is overwritten without overwrite=True", fn=co, construct="overwrite probe on the written location")

    ctx.trusted_base += ["open()/fsspec.open() with a constant mode containing w/a/x/+ are the only ways `save` creates or truncates files"]
    ctx.assumptions += ["calls that can fail because of the configuration: " + ", ".join(sorted(FALLIBLE_LEAVES))]
    # ---------------- C18.e: the main file refers to the sub-files that were written ----------------------------------
    # in a multi-file save every sub-file goes next to the main file; the reference stored in the main configuration must
    # name THAT file (derived from the path put on the output list), not the place the content was loaded from
    sv = ctx.func("_core:ArgumentParser.save")
    n_ref = 0
    for fn_ in [sv] + [n_ for n_ in ast.walk(sv) if isinstance(n_, ast.FunctionDef) and n_ is not sv]:
        for ap in [c for c in calls_in(fn_) if call_leaf(c) == "append" and c.args and isinstance(c.args[0], ast.Tuple) and len(c.args[0].elts) == 2 and isinstance(c.args[0].elts[0], ast.Name)]:
            pv = ap.args[0].elts[0].id
            blk = getattr(stmt_of(ap), "_jv_parent", None)
            body = None
            for fld in ("body", "orelse", "finalbody"):
                lst = getattr(blk, fld, None)
                if isinstance(lst, list) and stmt_of(ap) in lst:
                    body = lst
            if body is None:
                continue
            stores = [s_ for s_ in body if isinstance(s_, ast.Assign) and isinstance(s_.targets[0], ast.Subscript) and body.index(s_) > body.index(stmt_of(ap))]
            for st in stores:
                n_ref += 1
                names_ = {x.id for x in ast.walk(st.value) if isinstance(x, ast.Name)}
                ok = pv in names_
                ctx.oblige("C18.e", ok, st, f"the reference written into the main configuration is derived from `{pv}`, the path the sub-file is written to" if ok else f"`{ast.unparse(st)[:70]}` stores a reference that is not derived from `{pv}` (the path the sub-file is written to): for a sub-file loaded from parts/optim.yaml or from an absolute path the saved main file points at a file that was not written - or back at the input, so edits made before saving are lost", fn=fn_)
    ctx.floor("C18.e-subfile-references", n_ref, 1)

    return ctx.finish(
        explanation=(
            "Static ordering analysis of ArgumentParser.save and its nested closures on a CFG with exception edges: "
            "(a1) no validation/serialisation call is evaluated while a write handle is open, (a2) no such call is reachable after any open-for-write "
            "(all-or-nothing across main file and sub-files), (b) check_overwrite(P) dominates every open-for-write of P. "
            "Decides the ordering clause of C18 (the failure mode quoted in the property), not I/O faults during the writes nor re-parse equality."
        ),
        rule_text="one obligation per open-for-write call site and rule; non-trivial = the site exists and has a non-empty path set",
    )


def _self_loop(g, nid: int) -> bool:
    return nid in g.reachable([nid])


def _overwrite_checked(ctx: Ctx, units, uname: str, fn: ast.AST, wc: ast.Call) -> Tuple[bool, str]:
    """Is the path written by `wc` covered by a dominating check_overwrite(P)?"""
    parg = wc.args[0] if wc.args else None
    if isinstance(wc.func, ast.Attribute) and call_leaf(wc) == "open" and not wc.args[:1]:
        parg = wc.func.value
    if parg is None:
        return False, "cannot identify the path written"
    rn = root_name(parg)
    if rn is None:
        return False, f"cannot identify the path written by {src(wc)}"
    return _name_checked(ctx, units, fn, rn, wc, depth=0)


def _name_checked(ctx: Ctx, units, fn: ast.AST, name: str, at: ast.AST, depth: int) -> Tuple[bool, str]:
    g = ctx.cfg(fn)
    at_nodes = g.nodes_containing(at)
    # 1. a dominating check_overwrite(<name...>) in this function
    checks = [c for c in calls_in(fn) if call_leaf(c) == "check_overwrite" and c.args and root_name(c.args[0]) == name]
    cn = [i for c in checks for i in g.nodes_containing(c)]
    if cn and g.dominates(cn, at_nodes):
        return True, f"check_overwrite({name}) dominates the write"
    if depth > 2:
        return False, f"no check_overwrite({name}) dominates the write"
    # 2. `name` is the target of a for loop over a local list L: every L.append((P, ...)) must be checked
    for node in walk_local(fn):
        if isinstance(node, ast.For) and contains(node, at) and name in [n.id for n in ast.walk(node.target) if isinstance(n, ast.Name)]:
            lst = root_name(node.iter)
            if lst is None:
                break
            # position of `name` in the loop target tuple
            pos = None
            if isinstance(node.target, ast.Tuple):
                for i, e in enumerate(node.target.elts):
                    if isinstance(e, ast.Name) and e.id == name:
                        pos = i
            sites = []
            for u in units.values():
                for c in calls_in(u):
                    if call_leaf(c) in ("append", "extend", "insert") and isinstance(c.func, ast.Attribute) and root_name(c.func.value) == lst:
                        sites.append((u, c))
                for n2 in walk_local(u):
                    if isinstance(n2, ast.Assign) and any(isinstance(t, ast.Name) and t.id == lst for t in n2.targets):
                        if isinstance(n2.value, ast.List) and not n2.value.elts:
                            continue
                        sites.append((u, n2))
            if not sites:
                return False, f"paths written come from `{lst}` but nothing is ever added to it"
            for u, c in sites:
                if isinstance(c, ast.Call) and call_leaf(c) == "append" and c.args:
                    el = c.args[0]
                    if isinstance(el, ast.Tuple) and pos is not None and pos < len(el.elts):
                        el = el.elts[pos]
                    rn = root_name(el)
                    if rn is None:
                        return False, f"cannot identify the path added by {src(c)}"
                    ok, why = _name_checked(ctx, units, u, rn, c, depth + 1)
                    if not ok:
                        return False, f"path queued by {src(c, 60)} is written later without an overwrite check ({why})"
                else:
                    return False, f"cannot follow how `{lst}` is filled at {src(c, 60)}"
            return True, f"every path queued in `{lst}` passed check_overwrite before being queued"
    return False, f"no check_overwrite({name}) dominates the write {src(at, 60)}"
