"""C20 - restricted and registered scalar types validate exactly, serialise losslessly.

Decided clauses:
  C20.a  validate, then cast (extend_base_type.__new__, restricted number validation_fn)
  C20.b  operator / join tables
  C20.c  the registry (every register_type / register_type_on_first_use call):
         (i) no lossy numeric serializer, (ii) serializer/deserializer pairs defined
         together, (iii) output language of the serializer is included in the input
         language of the deserializer (range, timedelta), (iv = C20.h) declared
         deserializer exceptions cover what the deserializer can raise
  C20.d  SecretStr's value never flows to __str__/__repr__/__format__
Not decided: acceptance <=> predicate for all values; round trip for all values.
"""

from __future__ import annotations

import ast
import re
from typing import Dict, List, Optional, Set, Tuple

from .relang import DFA, Unsupported
from .report import Ctx
from .srcmodel import AnalysisError, FuncNode, call_leaf, call_name, calls_in, const_str, contains, dotted, enclosing_function, get_kwarg, src, walk_local
from .util import body_raises, guard_chain, root_name

INT = r"-?[0-9]+"
# exception hierarchy facts (builtins / stdlib)
PARENTS = {
    "decimal.InvalidOperation": "ArithmeticError",
    "OverflowError": "ArithmeticError",
    "ZeroDivisionError": "ArithmeticError",
    "binascii.Error": "ValueError",
    "UnicodeError": "ValueError",
    "KeyError": "LookupError",
    "IndexError": "LookupError",
    "FileNotFoundError": "OSError",
    "ArithmeticError": "Exception",
    "ValueError": "Exception",
    "TypeError": "Exception",
    "AttributeError": "Exception",
    "LookupError": "Exception",
    "OSError": "Exception",
}
# what a constructor / conversion used as deserializer raises on bad *input text* (stdlib facts)
CTOR_RAISES: Dict[str, Set[str]] = {
    "decimal.Decimal": {"decimal.InvalidOperation", "TypeError", "ValueError"},
    "Decimal": {"decimal.InvalidOperation", "TypeError", "ValueError"},  # `from decimal import Decimal` inside decimal_deserializer
    "uuid.UUID": {"ValueError", "TypeError", "AttributeError"},
    "complex": {"ValueError", "TypeError"},
    "timedelta": {"OverflowError", "TypeError"},
    "range": {"ValueError", "TypeError"},
    "b64decode": {"binascii.Error", "TypeError"},
    "int": {"ValueError", "TypeError"},
    "float": {"ValueError", "TypeError"},
    "str": set(),
    "bytearray": {"TypeError", "ValueError"},
    "pathlib.Path": {"TypeError"},
    "os.PathLike": {"TypeError"},
}
NUMERIC = {"int", "float"}


def _covers(declared: Set[str], exc: str) -> bool:
    e: Optional[str] = exc
    while e is not None:
        if e in declared:
            return True
        e = PARENTS.get(e)
    return False


def _module_level_calls(tree: ast.Module, leaves: Set[str]) -> List[ast.Call]:
    out = []
    for n in ast.walk(tree):
        if isinstance(n, ast.Call) and call_leaf(n) in leaves and isinstance(n.func, ast.Name):
            f = enclosing_function(n)
            if f is None or isinstance(f, ast.Lambda):
                out.append(n)
    out.sort(key=lambda c: c.lineno)
    return out


def _fstring_regex(js: ast.JoinedStr) -> Tuple[str, List[str]]:
    """Regex of an f-string whose placeholders are integer attributes; also the attribute order."""
    rx = ""
    attrs = []
    for v in js.values:
        if isinstance(v, ast.Constant):
            rx += re.escape(v.value)
        elif isinstance(v, ast.FormattedValue) and isinstance(v.value, ast.Attribute) and v.format_spec is None and v.conversion == -1:
            rx += INT
            attrs.append(v.value.attr)
        else:
            raise AnalysisError(f"unsupported f-string part in serializer: {ast.unparse(js)}")
    return rx, attrs


def run(ctx: Ctx) -> int:
    ty = ctx.repo.mod("typing")

    # ---------------- C20.a ---------------------------------------------------
    new = ctx.func("typing:extend_base_type.TypeCore.__new__")
    g = ctx.cfg(new)
    vcall = [c for c in calls_in(new) if call_leaf(c) == "_validation_fn"]
    cast = [c for c in calls_in(new) if call_leaf(c) == "__new__"]
    ctx.need(vcall and cast, "TypeCore.__new__: _validation_fn / super().__new__")
    ok = g.dominates(g.cn(vcall), g.cn(cast)) and not guard_chain(vcall[0]) and [root_name(a) for a in vcall[0].args] == ["cls", "v"]
    ctx.oblige("C20.a", ok, vcall[0], "the validation function runs (unconditionally, on the raw value) before the value is cast to the base type" if ok else "a restricted type can be constructed without / before validation", fn=new)
    inner = [c for c in calls_in(cast[0]) if call_leaf(c) == "_type"]
    ok = bool(inner) and root_name(inner[0].args[0]) == "v"
    ctx.oblige("C20.a", ok, cast[0], "the stored value is base_type(v)" if ok else "the stored value is not the base-type cast of the input", fn=new, construct="cast of v")
    vf = ctx.func("typing:restricted_number_type.validation_fn")
    ctx.expect_locals(vf, ["v", "vv", "check"])
    gv = ctx.cfg(vf)
    castv = [c for c in calls_in(vf) if call_leaf(c) == "_type" and c.args and root_name(c.args[0]) == "v"]
    ctx.need(castv, "restricted number validation_fn: cls._type(v)")
    ifs = [n for n in walk_local(vf) if isinstance(n, ast.If)]
    bool_if = [n for n in ifs if "isinstance(v, bool)" in ast.unparse(n.test)]
    int_if = [n for n in ifs if "is_integer" in ast.unparse(n.test) and "isinstance(v, float)" in ast.unparse(n.test)]
    for what, lst in (("booleans are rejected", bool_if), ("non-integral floats are rejected for int types", int_if)):
        ok = len(lst) == 1 and body_raises(lst[0].body) is not None and "ValueError" in ast.unparse(body_raises(lst[0].body)) and gv.dominates(gv.node_ids_of(lst[0]), gv.cn(castv))
        ctx.oblige("C20.a", ok, lst[0] if lst else vf, f"{what} before the cast" if ok else f"the check that {what} no longer precedes the cast", fn=vf)
    rz = [r for r in walk_local(vf) if isinstance(r, ast.Raise)]
    ok = len(rz) >= 3 and all(isinstance(r.exc, ast.Call) and call_leaf(r.exc) == "ValueError" for r in rz)
    ctx.oblige("C20.a", ok, vf, "every failing check raises ValueError" if ok else "a failing check of restricted numbers does not raise ValueError", fn=vf, construct="raises ValueError")
    # comparisons are evaluated on the cast value for every restriction
    comp = [n for n in walk_local(vf) if isinstance(n, ast.ListComp) and "_restrictions" in ast.unparse(n)]
    ok = len(comp) == 1 and isinstance(comp[0].elt, ast.Call) and [root_name(a) for a in comp[0].elt.args] == ["vv", "ref"] and not comp[0].generators[0].ifs
    ctx.oblige("C20.a", ok, comp[0] if comp else vf, "every restriction is evaluated as comparison(cast value, reference)" if ok else "restrictions are skipped or evaluated with swapped operands", fn=vf)
    sf = ctx.func("typing:restricted_string_type.validation_fn")
    ok = any(isinstance(n, ast.If) and isinstance(n.test, ast.UnaryOp) and "_regex.match(v)" in ast.unparse(n.test) and body_raises(n.body) is not None for n in walk_local(sf))
    ctx.oblige("C20.a", ok, sf, "restricted strings are rejected exactly when the regex does not match" if ok else "restricted string validation changed polarity", fn=sf)

    # ---------------- C20.b ---------------------------------------------------
    SYM = {"gt": ">", "ge": ">=", "lt": "<", "le": "<=", "eq": "==", "ne": "!="}
    op1 = op2 = None
    for s in ty.tree.body:
        if isinstance(s, ast.Assign) and isinstance(s.targets[0], ast.Name):
            if s.targets[0].id == "_operators1":
                op1 = s
            if s.targets[0].id == "_operators2":
                op2 = s
    ctx.need(op1 is not None and op2 is not None and isinstance(op1.value, ast.Dict), "typing: _operators1 / _operators2 tables")
    pairs = {}
    for k, v in zip(op1.value.keys, op1.value.values):
        d = dotted(k)
        if d and d.startswith("operator."):
            pairs[d.split(".")[1]] = const_str(v)
    bad = {k: v for k, v in pairs.items() if SYM.get(k) != v}
    ok = not bad and set(pairs) == set(SYM)
    ctx.oblige("C20.b", ok, None, "each operator function is paired with its own symbol" if ok else f"operator table mismatch: {bad or sorted(set(SYM) ^ set(pairs))}", site="typing:_operators1", construct="_operators1", function="typing:<module>")
    v2 = op2.value
    ok = isinstance(v2, ast.DictComp) and ast.unparse(v2.key) == "v" and ast.unparse(v2.value) == "k" and "_operators1.items()" in ast.unparse(v2.generators[0].iter) and ast.unparse(v2.generators[0].target) == "(k, v)" and not v2.generators[0].ifs
    ctx.oblige("C20.b", ok, None, "_operators2 is the inverse of _operators1 by construction" if ok else "_operators2 is no longer the inverse of _operators1", site="typing:_operators2", construct="_operators2", function="typing:<module>")
    jt = [n for n in walk_local(vf) if isinstance(n, ast.If) and "_join" in ast.unparse(n.test)]
    ok = len(jt) == 1
    if ok:
        t = jt[0].test
        ok = isinstance(t, ast.BoolOp) and isinstance(t.op, ast.Or) and len(t.values) == 2
        seen = {}
        if ok:
            for part in t.values:
                if not (isinstance(part, ast.BoolOp) and isinstance(part.op, ast.And) and len(part.values) == 2):
                    ok = False
                    continue
                cmp_, neg = part.values
                jn = [const_str(c) for c in ast.walk(cmp_) if isinstance(c, ast.Constant)]
                agg = neg.operand if isinstance(neg, ast.UnaryOp) and isinstance(neg.op, ast.Not) else None
                if not jn or agg is None or not isinstance(agg, ast.Call):
                    ok = False
                    continue
                seen[jn[0]] = call_leaf(agg)
            ok = ok and seen == {"and": "all", "or": "any"}
    ctx.oblige("C20.b", ok, jt[0] if jt else vf, "'and' rejects unless all comparisons hold, 'or' rejects unless any holds" if ok else "and/or join logic of restricted numbers changed", fn=vf)

    # deprecated but public: ActionOperators looks a restricted type up in the registry before creating it; the key
    # (restrictions, type, join) is built from the same values the creation uses
    aop = ctx.func("_deprecated:ActionOperators.__init__")
    keys_ = [s for s in walk_local(aop) if isinstance(s, ast.Assign) and isinstance(s.value, ast.Tuple) and len(s.value.elts) == 3 and isinstance(s.targets[0], ast.Name)]
    mk = [c for c in calls_in(aop) if call_leaf(c) == "restricted_number_type"]
    ctx.need(len(keys_) == 1 and len(mk) == 1 and len(mk[0].args) >= 4, "ActionOperators.__init__: register_key = (..., type, join) and restricted_number_type(None, type, expr, join)")
    k_type, k_join = ast.unparse(keys_[0].value.elts[1]), ast.unparse(keys_[0].value.elts[2])
    c_type, c_join = ast.unparse(mk[0].args[1]), ast.unparse(mk[0].args[3])
    ok = k_type == c_type and k_join == c_join
    ctx.oblige("C20.b", ok, keys_[0], "the registry lookup of ActionOperators uses the type and join the creation would use" if ok else f"ActionOperators looks up ({k_type}, {k_join}) but creates with ({c_type}, {c_join}): an operator whose expression matches an already registered type of ANOTHER base type / join silently gets that class (an int operator accepts 1.5, an `or` restriction behaves as `and`)", fn=aop, construct="operators key agrees with creation")

    # ---------------- C20.c ---------------------------------------------------
    rt = ctx.func("typing:register_type")
    default_exc: Set[str] = set()
    a = rt.args
    for p, d in zip(a.args[len(a.args) - len(a.defaults):], a.defaults):
        if p.arg == "deserializer_exceptions":
            default_exc = {dotted(e) for e in (d.elts if isinstance(d, ast.Tuple) else [d])}
    ctx.need(default_exc, "register_type: default deserializer_exceptions")
    regs = _module_level_calls(ty.tree, {"register_type", "register_type_on_first_use"})
    ctx.floor("C20.c-registrations", len(regs), 11)
    local_fns = {n: f for n, f in ty.funcs.items() if "." not in n}
    for c in regs:
        tcls = c.args[0]
        tname = const_str(tcls) or dotted(tcls) or ast.unparse(tcls)
        ser = c.args[1] if len(c.args) > 1 else get_kwarg(c, "serializer")
        des = c.args[2] if len(c.args) > 2 else get_kwarg(c, "deserializer")
        exc_e = get_kwarg(c, "deserializer_exceptions")
        declared = {dotted(e) for e in (exc_e.elts if isinstance(exc_e, ast.Tuple) else [exc_e])} if exc_e is not None else set(default_exc)
        sname = dotted(ser) if ser is not None else "str"
        dname = dotted(des) if des is not None else tname
        site = f"typing:<module> :: {src(c, 90)}"
        # (i) no lossy numeric serializer
        ok = not (sname in NUMERIC and tname.split(".")[-1] not in (sname,))
        ctx.oblige("C20.c.i", ok, None, f"serializer {sname} of {tname} is not a lossy numeric conversion" if ok else f"{tname} is serialised through {sname}(): values that {sname} cannot represent exactly do not survive dump + parse (e.g. Decimal('0.1') -> 0.1000000000000000055...)", site=site, construct=f"{tname} serializer {sname}", function="typing:<module>")
        # (i') a custom serializer may hand out a narrowed number only after reading it back: the narrowing call is
        #      returned under an equality test between the registered deserializer applied to it and the value
        if sname in local_fns:
            sf = local_fns[sname]
            par = sf.args.args[0].arg
            for r in [x for x in walk_local(sf) if isinstance(x, ast.Return) and x.value is not None]:
                outs = [(r.value.body, [r.value.test]), (r.value.orelse, [])] if isinstance(r.value, ast.IfExp) else [(r.value, [])]
                for e, tests in outs:
                    if isinstance(e, ast.Name):
                        ds_ = [s for s in walk_local(sf) if isinstance(s, ast.Assign) and any(isinstance(t, ast.Name) and t.id == e.id for t in s.targets)]
                        conv = ds_[0].value if len(ds_) == 1 else e
                    else:
                        conv = e
                    if not (isinstance(conv, ast.Call) and isinstance(conv.func, ast.Name) and conv.func.id in NUMERIC):
                        continue
                    from .util import guard_atoms as _gat

                    tests = tests + [t for t, pol in _gat(r, stop=sf) if pol]
                    readback = [t for t in tests if isinstance(t, ast.Compare) and len(t.ops) == 1 and isinstance(t.ops[0], ast.Eq) and any(isinstance(c_, ast.Call) and isinstance(c_.func, ast.Name) and c_.func.id == dname for c_ in ast.walk(t)) and any(isinstance(n_, ast.Name) and n_.id == par for side in (t.left, t.comparators[0]) for n_ in [side])]
                    ok = bool(readback)
                    ctx.oblige("C20.c.i", ok, r, f"{sname} returns the {conv.func.id}() form only when {dname} reads it back as the same value" if ok else f"{sname} returns {conv.func.id}({par}) without checking that {dname} reads it back as the same value: values that {conv.func.id} cannot represent exactly do not survive dump + parse (Decimal('0.12345678901234567890123') loses its digits)", fn=sf, construct=f"{tname} narrowed serialisation is read back")
            # ... and whatever else the serializer returns is made from the value itself, not from the narrowed number
            narrowed = {s_.targets[0].id for s_ in walk_local(sf) if isinstance(s_, ast.Assign) and isinstance(s_.targets[0], ast.Name) and isinstance(s_.value, ast.Call) and isinstance(s_.value.func, ast.Name) and s_.value.func.id in NUMERIC}
            for r in [x for x in walk_local(sf) if isinstance(x, ast.Return) and x.value is not None]:
                arms_ = [r.value.body, r.value.orelse] if isinstance(r.value, ast.IfExp) else [r.value]
                for e in arms_:
                    if isinstance(e, ast.Name) and e.id in narrowed:
                        continue  # the narrowed form itself (judged above)
                    if isinstance(e, ast.Call) and isinstance(e.func, ast.Name) and e.func.id in NUMERIC:
                        continue
                    names_e = {n_.id for n_ in ast.walk(e) if isinstance(n_, ast.Name)}
                    ok = par in names_e and not (names_e & narrowed)
                    ctx.oblige("C20.c.i", ok, r, f"the fallback of {sname} is made from the value itself" if ok else f"`{ast.unparse(e)[:40]}` in {sname} is made from the narrowed number, not from `{par}`: a value the float cannot hold is written as the rounded float's text (0.10000000000000000001 -> '0.1', 1E+400 -> 'inf') and reads back changed", fn=sf, construct=f"{tname} fallback uses the value")
            # a float that comes back from the loader is read through its repr (the shortest text that denotes it):
            # constructing from the binary float gives Decimal('0.1000000000000000055...') for the text 0.1
            if any(isinstance(c_, ast.Call) and isinstance(c_.func, ast.Name) and c_.func.id == "float" for c_ in ast.walk(sf)) and dname in local_fns:
                df_ = local_fns[dname]
                dpar = df_.args.args[0].arg
                tests_f = [c_ for c_ in ast.walk(df_) if isinstance(c_, ast.Call) and call_leaf(c_) == "isinstance" and isinstance(c_.args[0], ast.Name) and c_.args[0].id == dpar and "float" in ast.unparse(c_.args[1])]
                via_text = [c_ for c_ in ast.walk(df_) if isinstance(c_, ast.Call) and isinstance(c_.func, ast.Name) and c_.func.id in ("repr", "str") and c_.args and isinstance(c_.args[0], ast.Name) and c_.args[0].id == dpar]
                ok = bool(tests_f and via_text)
                ctx.oblige("C20.c.i", ok, df_, f"{dname} reads a float through its text" if ok else f"{dname} constructs {tname} from the binary float: the config text `d: 0.1` gives Decimal('0.1000000000000000055511151231257827...') while --d=0.1 gives Decimal('0.1') - and the dumped number does not read back as the value that was dumped", fn=df_, construct=f"{tname} floats read through their text")
        # (i'') the constructor of an exact type (Decimal) keeps every digit; arithmetic on the result does not: it is
        #       rounded to the context precision (28 digits).  A deserializer hands out the constructed value untouched.
        if dname in local_fns and tname.split(".")[-1] == "Decimal":
            df_ = local_fns[dname]
            cls_leaf = tname.split(".")[-1]

            def _ctor_inside(e):
                return any(isinstance(c_, ast.Call) and (dotted(c_.func) or "").split(".")[-1] == cls_leaf for c_ in ast.walk(e))

            for r in [x for x in walk_local(df_) if isinstance(x, ast.Return) and x.value is not None]:
                arms_ = [r.value.body, r.value.orelse] if isinstance(r.value, ast.IfExp) else [r.value]
                for e in arms_:
                    if isinstance(e, ast.Name):
                        ds_ = [s_ for s_ in walk_local(df_) if isinstance(s_, ast.Assign) and any(isinstance(t, ast.Name) and t.id == e.id for t in s_.targets)]
                        e = ds_[-1].value if ds_ else e
                    if not _ctor_inside(e):
                        continue
                    exact = isinstance(e, ast.Call) and (dotted(e.func) or "").split(".")[-1] == cls_leaf
                    ctx.oblige("C20.c.i", exact, r, f"{dname} returns what the {cls_leaf} constructor gives" if exact else f"{dname} applies `{ast.unparse(e)[:60]}` to the constructed {cls_leaf}: methods and operators of {cls_leaf} round to the context precision (28 significant digits), the constructor alone is exact - Decimal('0.1000000000000000000000000000001') is dumped exactly and read back as Decimal('0.1')", fn=df_, construct=f"{tname} deserializer returns the constructed value")
        # (ii) pairs defined together
        if sname in local_fns or (dname in local_fns):
            ok = (sname in local_fns or sname == "str") and (dname in local_fns)
            ctx.oblige("C20.c.ii", ok, None, f"{tname}: custom serializer and deserializer are registered as a pair ({sname} / {dname})" if ok else f"{tname}: custom serializer {sname} is not paired with a custom deserializer (got {dname})", site=site, construct=f"{tname} pair", function="typing:<module>")
        # (ii') a deserializer that says what it returns (annotation) returns the registered class: otherwise the
        #       parsed value fails the exact-class test of is_value_of_type and is deserialised again on every pass
        if dname in local_fns and getattr(local_fns[dname], "returns", None) is not None:
            rname = (dotted(local_fns[dname].returns) or ast.unparse(local_fns[dname].returns)).strip("'\"").split(".")[-1]
            ok = rname == tname.split(".")[-1]
            ctx.oblige(
                "C20.c.ii",
                ok,
                None,
                f"{tname}: deserializer {dname} is annotated to return {rname}" if ok else f"{tname} is registered with deserializer {dname}, which returns {rname}: the parsed value is not an instance of the registered class, so validate / re-parse deserialise it a second time (the result changes or is rejected)",
                site=site,
                construct=f"{tname} deserializer return type",
                function="typing:<module>",
            )
        # (iv) declared exceptions cover modelled raises
        raises: Set[str] = set()
        if dname in local_fns:
            fn = local_fns[dname]
            for r in walk_local(fn, include_nested=True):
                if isinstance(r, ast.Raise) and isinstance(r.exc, ast.Call):
                    raises.add(dotted(r.exc.func) or "?")
            for cc in calls_in(fn, include_nested=True):
                lf = call_leaf(cc)
                if lf in CTOR_RAISES and isinstance(cc.func, ast.Name):
                    # conversions of regex groups (\d+) cannot fail with ValueError, but range/timedelta can overflow etc.
                    raises |= CTOR_RAISES[lf]
            # handlers inside the deserializer that convert
            caught: Set[str] = set()
            for t in walk_local(fn):
                if isinstance(t, ast.Try):
                    for h in t.handlers:
                        from .util import handler_type_names

                        caught |= set(handler_type_names(h))
            raises = {e for e in raises if not _covers(caught, e)}
        else:
            key = dname if dname in CTOR_RAISES else dname.split(".")[-1] if dname.split(".")[-1] in CTOR_RAISES else None
            if key is None and dname.startswith("pathlib"):
                key = "pathlib.Path"
            if key is None and dname in ("_path", "SecretStr", "pydantic.SecretStr"):
                key = "str" if dname != "_path" else "pathlib.Path"
            if key is None:
                raise AnalysisError(f"no exception model for deserializer {dname} of registered type {tname}; add it to CTOR_RAISES in rules_C20.py")
            raises = set(CTOR_RAISES[key])
        missing = sorted(e for e in raises if not _covers(declared, e))
        ctx.oblige(
            "C20.h",
            not missing,
            None,
            f"{tname}: declared deserializer exceptions {sorted(declared)} cover what {dname} raises on bad input" if not missing else f"{tname}: deserializer {dname} can raise {missing}, not covered by its declared deserializer_exceptions {sorted(declared)}: the failure escapes the parse methods as a foreign exception",
            site=site,
            construct=f"{tname} exceptions",
            function="typing:<module>",
            details={"raises": sorted(raises), "declared": sorted(declared)},
        )

    # the wrapper turns every declared deserializer exception into ValueError - the one class the type-hint
    # layer retries on (text the loader pre-read as null / list / dict is re-tried as the original string)
    rtd = ctx.func("typing:RegisteredType.deserializer")
    hrs = [h for t in walk_local(rtd) if isinstance(t, ast.Try) for h in t.handlers]
    ok = bool(hrs)
    bad_r = None
    for h in hrs:
        for r in [x for x in ast.walk(h) if isinstance(x, ast.Raise)]:
            e = r.exc
            if isinstance(e, ast.Name):
                ds = [s for s in ast.walk(h) if isinstance(s, ast.Assign) and any(isinstance(t, ast.Name) and t.id == e.id for t in s.targets)]
                e = ds[0].value if len(ds) == 1 else e
            if not (isinstance(e, ast.Call) and isinstance(e.func, ast.Name) and e.func.id == "ValueError"):
                ok = False
                bad_r = r
    ctx.oblige("C20.h", ok, bad_r or rtd, "RegisteredType.deserializer re-raises every declared deserializer exception as ValueError" if ok else "RegisteredType.deserializer re-raises something other than a ValueError: a TypeError from the base deserializer (text the loader read as null / list / dict) skips the retry with the original string, so valid values such as the string 'null' are rejected", fn=rtd, construct="wrapper raises ValueError")

    # "already of the registered type" is decided by the type check alone: None (what the loader makes of the text
    # `null` / `~`) is not a value of any registered type, so that the retry with the original string happens
    ivt = ctx.func("typing:RegisteredType.is_value_of_type")
    rets_ = [r for r in walk_local(ivt) if isinstance(r, ast.Return)]
    ok = len(rets_) == 1 and isinstance(rets_[0].value, ast.Call) and isinstance(rets_[0].value.func, ast.Attribute) and rets_[0].value.func.attr == "type_check" and not [n_ for n_ in walk_local(ivt) if isinstance(n_, (ast.If, ast.BoolOp, ast.IfExp))]
    ctx.oblige("C20.h", ok, rets_[0] if rets_ else ivt, "is_value_of_type is the registered type check, nothing else" if ok else "is_value_of_type accepts values the type check does not (a None / other shortcut): text that the loader pre-reads as null counts as already converted, no error is raised, the retry with the original string never happens - `--n=null` gives None for a PositiveInt, the bytes value whose base64 text is 'null' parses back as None", fn=ivt, construct="is_value_of_type is the type check")

    # (iii) language agreement: range
    rs, rd = ctx.func("typing:range_serializer"), ctx.func("typing:range_deserializer")
    ctx.expect_locals(rd, ["value", "match"])
    templates = [r.value for r in walk_local(rs) if isinstance(r, ast.Return) and isinstance(r.value, ast.JoinedStr)]
    ctx.need(len(templates) == 3, "range_serializer: three f-string templates")
    rxs = [_fstring_regex(t) for t in templates]
    ser_lang = DFA.from_regex("|".join(f"(?:{rx})" for rx, _ in rxs))
    # deserializer: strip, startswith/endswith, slice, remove spaces, three anchored regexes
    sw = [c for c in calls_in(rd) if call_leaf(c) == "startswith" and c.args and const_str(c.args[0])]
    ew = [c for c in calls_in(rd) if call_leaf(c) == "endswith" and c.args and const_str(c.args[0])]
    ctx.need(sw and ew, "range_deserializer: startswith/endswith")
    pre, suf = const_str(sw[0].args[0]), const_str(ew[0].args[0])
    sl = [n for n in walk_local(rd) if isinstance(n, ast.Subscript) and isinstance(n.slice, ast.Slice)]
    ok_slice = bool(sl) and ast.unparse(sl[0].slice) == f"{len(pre)}:-{len(suf)}"
    strips_spaces = any(call_leaf(c) == "replace" and [const_str(x) for x in c.args] == [" ", ""] for c in calls_in(rd))
    strips_outer = any(call_leaf(c) == "strip" and not c.args for c in calls_in(rd))
    inner_rx = []
    for c in calls_in(rd):
        if call_leaf(c) == "match" and isinstance(c.func, ast.Attribute) and isinstance(c.func.value, ast.Name):
            nm = c.func.value.id
            for s in ty.tree.body:
                if isinstance(s, ast.Assign) and root_name(s.targets[0]) == nm and isinstance(s.value, ast.Call) and call_name(s.value) == "re.compile":
                    inner_rx.append(const_str(s.value.args[0]))
    ctx.need(len(inner_rx) == 3 and ok_slice, "range_deserializer: slice and three module-level regexes")
    inner = DFA.from_regex("|".join(f"(?:{r})" for r in inner_rx), mode="match")
    if strips_spaces:
        sp = ord(" ")
        inner = DFA([[q if a == sp else row[a] for a in range(len(row))] for q, row in enumerate(inner.trans)], set(inner.accept), inner.start)
    # compose: [ws]* pre INNER suf [ws]*  -- build by checking each serializer word: strip prefix/suffix
    # L_deser = { w : strip(w) = pre + x + suf, x in inner }.  Check inclusion through the quotient:
    ws = r"\s*" if strips_outer else ""
    # L_ser restricted to pre...suf shape, then inner part must be in `inner`: use the product on the
    # serializer templates with the constant prefix/suffix removed
    all_ok, wit = True, None
    for rx, _ in rxs:
        if not (rx.startswith(re.escape(pre)) and rx.endswith(re.escape(suf))):
            all_ok, wit = False, f"template {rx} lacks the {pre!r}...{suf!r} frame the deserializer requires"
            break
        mid = DFA.from_regex(rx[len(re.escape(pre)): len(rx) - len(re.escape(suf))])
        okk, w = inner.includes(mid)
        if not okk:
            all_ok, wit = False, pre + (w or "") + suf
            break
    ctx.extra["range_pair"] = {"serializer_templates": [rx for rx, _ in rxs], "deserializer_inner": inner_rx, "space_insensitive": strips_spaces}
    ctx.oblige("C20.c.iii", all_ok, rd, "every string range_serializer can write is accepted by range_deserializer" if all_ok else f"range_serializer can write {wit!r}, which range_deserializer rejects", fn=rd, construct="range ser <= deser", details={"witness": wit})
    orders = [attrs for _, attrs in rxs]
    ok = sorted(orders, key=len) == [["stop"], ["start", "stop"], ["start", "stop", "step"]]
    rcalls = [c for c in calls_in(rd) if isinstance(c.func, ast.Name) and c.func.id == "range"]
    ok = ok and all([ast.unparse(a) for a in c.args] == [f"int(match[{i + 1}])" for i in range(len(c.args))] for c in rcalls) and len(rcalls) == 3
    ctx.oblige("C20.c.iii", ok, rs, "field order start, stop, step agrees between range_serializer and range_deserializer" if ok else "range serializer and deserializer disagree on the order of start/stop/step", fn=rs, construct="range field order")
    # step == 1 / start == 0 elisions are exactly range()'s defaults
    # (control dependence from the CFG: early returns and nesting are both understood)
    grs = ctx.cfg(rs)
    pname = rs.args.args[0].arg
    defaults_of = {"start": 0, "step": 1}
    for r_ in [r for r in walk_local(rs) if isinstance(r, ast.Return) and isinstance(r.value, ast.JoinedStr)]:
        _, attrs = _fstring_regex(r_.value)
        omitted = [f for f in ("start", "step") if f not in attrs]
        known = {}
        for t, pol in grs.guards_of(grs.cn(r_)):
            if isinstance(t, ast.Compare) and len(t.ops) == 1 and isinstance(t.left, ast.Attribute) and root_name(t.left) == pname and isinstance(t.comparators[0], ast.Constant):
                eq = (isinstance(t.ops[0], ast.Eq) and pol) or (isinstance(t.ops[0], ast.NotEq) and not pol)
                if eq:
                    known[t.left.attr] = t.comparators[0].value
        bad = [f for f in omitted if known.get(f) != defaults_of[f] or type(known.get(f)) is not int]
        ok = not bad and "stop" in attrs
        ctx.oblige(
            "C20.c.iii",
            ok,
            r_,
            f"template omits {omitted or 'nothing'}: only where the field is known to equal range()'s default ({ {f: defaults_of[f] for f in omitted} })" if ok else f"this template omits {bad} although the field is not known to equal range()'s default there: the value read back differs (e.g. range(0, 10, 2) -> range(10))",
            fn=rs,
        )

    # (iii) timedelta: str(timedelta) language (datetime.timedelta.__str__) vs deserializer pattern under re.match
    td = ctx.func("typing:timedelta_deserializer")
    ctx.expect_locals(td, ["value", "pattern", "match", "kwargs"])
    pats = sorted((s for s in walk_local(td) if isinstance(s, ast.Assign) and root_name(s.targets[0]) == "pattern"), key=lambda s: s.lineno)
    ctx.need(len(pats) == 2 and const_str(pats[0].value) is not None and isinstance(pats[1].value, ast.BinOp) and const_str(pats[1].value.left) is not None and root_name(pats[1].value.right) == "pattern", "timedelta_deserializer: pattern / day prefix")
    base, prefix = const_str(pats[0].value), const_str(pats[1].value.left)
    gch = guard_chain(pats[1])
    ok_guard = len(gch) == 1 and ast.unparse(gch[0][0]).replace('"', "'") == "'day' in value" and gch[0][1]
    uses_match = any(call_name(c) == "re.match" for c in calls_in(td))
    ctx.need(ok_guard and uses_match, "timedelta_deserializer: `if 'day' in value` and re.match")
    hms = r"[0-9]+:[0-9]{2}:[0-9]{2}(?:\.[0-9]{6})?"
    try:
        S_nod = DFA.from_regex(hms)
        S_day = DFA.from_regex(r"-?[0-9]+ days?, " + hms)
        D_nod = DFA.from_regex(base, mode="match")
        D_day = DFA.from_regex(prefix + base, mode="match")
    except Unsupported as ex:
        raise AnalysisError(f"timedelta pattern uses an unsupported regex construct: {ex}")
    ok1, w1 = D_nod.includes(S_nod)
    ok2, w2 = D_day.includes(S_day)
    ctx.oblige("C20.c.iii", ok1 and ok2, td, "every str(timedelta) spelling (with and without days, with and without microseconds, negative days) is matched by timedelta_deserializer" if ok1 and ok2 else f"str(timedelta) can produce {w1 or w2!r}, which timedelta_deserializer does not match", fn=td, construct="timedelta ser <= deser", details={"witness": w1 or w2})
    # the fields come from groupdict(): text consumed by an unnamed capturing group is silently dropped
    try:
        import re._parser as _sp  # type: ignore
    except ImportError:  # pragma: no cover
        import sre_parse as _sp  # type: ignore
    parsed = _sp.parse(prefix + base)
    n_groups = parsed.state.groups - 1
    named = len(parsed.state.groupdict)
    ok = n_groups == named
    ctx.oblige("C20.c.iii", ok, td, f"all {n_groups} capturing groups of the timedelta pattern are named (everything matched reaches timedelta)" if ok else f"the timedelta pattern has {n_groups - named} unnamed capturing group(s): the text they match (e.g. the fraction of a second) is dropped by groupdict()", fn=td, construct="timedelta groups named")
    okf1, wf1 = DFA.from_regex(base).includes(S_nod)
    okf2, wf2 = DFA.from_regex(prefix + base).includes(S_day)
    ctx.oblige("C20.c.iii", okf1 and okf2, td, "the pattern consumes every str(timedelta) spelling completely (nothing is left unparsed after the match)" if okf1 and okf2 else f"the pattern matches only a prefix of {wf1 or wf2!r}: the remainder is ignored", fn=td, construct="timedelta full match")
    kw = [n for n in walk_local(td) if isinstance(n, ast.DictComp)]
    groups = set(re.findall(r"\?P<(\w+)>", prefix + base))
    ok = len(kw) == 1 and "float(val)" in ast.unparse(kw[0].value) and "groupdict()" in ast.unparse(kw[0]) and groups == {"days", "hours", "minutes", "seconds"}
    ctx.oblige("C20.c.iii", ok, td, "all matched groups (days, hours, minutes, seconds) are passed to timedelta as numbers" if ok else "timedelta_deserializer drops or renames a matched field", fn=td, construct="timedelta fields")
    ctx.trusted_base += ["format of str(datetime.timedelta): [-]D day[s], H:MM:SS[.UUUUUU] (CPython datetime.py)", "str(x) -> T(str) pairs for complex, UUID, pathlib paths and Path types are lossless facts of the stdlib", "constructor exception table CTOR_RAISES in rules_C20.py"]

    # bytes: b64encode <-> b64decode
    bs, bd, bad_ = ctx.func("typing:bytes_serializer"), ctx.func("typing:bytes_deserializer"), ctx.func("typing:bytearray_deserializer")
    ok = any(call_leaf(c) == "b64encode" for c in calls_in(bs)) and any(call_leaf(c) == "b64decode" for c in calls_in(bd)) and any(call_leaf(c) == "b64decode" for c in calls_in(bad_)) and any(call_leaf(c) == "bytearray" for c in calls_in(bad_))
    ctx.oblige("C20.c.ii", ok, bs, "bytes/bytearray travel as base64: b64encode on dump, b64decode on parse" if ok else "bytes serializer and deserializer no longer use the same base64 codec", fn=bs, construct="base64 pair")

    # ---------------- C20.d ---------------------------------------------------
    sc = ctx.repo.cls("typing:SecretStr")
    readers = set()
    for m in sc.body:
        if isinstance(m, ast.FunctionDef):
            if any(isinstance(n, ast.Attribute) and n.attr == "_value" and isinstance(n.ctx, ast.Load) for n in ast.walk(m)):
                readers.add(m.name)
    allowed = {"get_secret_value", "__len__", "__eq__", "__hash__"}
    extra = sorted(readers - allowed)
    ctx.oblige("C20.d", not extra, None, f"the secret value is read only by {sorted(readers)}" if not extra else f"the secret value flows into {extra}", site="typing:SecretStr", construct="readers of _value", function="typing:SecretStr")
    st = [m for m in sc.body if isinstance(m, ast.FunctionDef) and m.name == "__str__"]
    ok = len(st) == 1 and all(isinstance(r.value, ast.Constant) for r in walk_local(st[0]) if isinstance(r, ast.Return))
    ctx.oblige("C20.d", ok, None, "SecretStr.__str__ returns a constant mask" if ok else "SecretStr.__str__ does not return a constant", site="typing:SecretStr.__str__", construct="__str__ constant", function="typing:SecretStr")
    bad_m = [m.name for m in sc.body if isinstance(m, ast.FunctionDef) and m.name in ("__repr__", "__format__", "__reduce__", "__getstate__") and m.name in readers]
    ctx.oblige("C20.d", not bad_m, None, "no __repr__/__format__/pickling hook exposes the value" if not bad_m else f"{bad_m} expose the secret value", site="typing:SecretStr", construct="no exposing dunder", function="typing:SecretStr")
    reg = [c for c in regs if ast.unparse(c.args[0]) == "SecretStr"]
    ok = len(reg) == 1 and len(reg[0].args) == 1 and not get_kwarg(reg[0], "serializer")
    ctx.oblige("C20.d", ok, None, "SecretStr is registered with the default serializer str (the mask)" if ok else "SecretStr is registered with a custom serializer", site="typing:<module> register_type(SecretStr)", construct="SecretStr registration", function="typing:<module>")

    # ---------------- C20.c.iv: "already of this type" is decided for the registered class ------------------------------
    # RegisteredType.is_value_of_type(value) = type_check(value, type_class); a value that passes is NOT deserialised (and
    # so not validated) again.  A custom type_check must therefore decide membership in the class it is given - a test
    # against a common base class lets a value of a sibling type (a Path_fr for a Path_dw argument) through unchecked.
    n_tc = 0
    for fq_, fn_ in ctx.repo.all_funcs():
        if not fq_.startswith("typing:"):
            continue
        for c in calls_in(fn_):
            tc = get_kwarg(c, "type_check")
            if tc is None or call_leaf(c) not in ("add_type", "register_type", "register_type_on_first_use"):
                continue
            n_tc += 1
            _judge_type_check(ctx, ty, tc, c, fn_)
    for c in _module_level_calls(ty.tree, {"register_type", "register_type_on_first_use", "add_type"}):
        tc = get_kwarg(c, "type_check")
        if tc is not None:
            n_tc += 1
            _judge_type_check(ctx, ty, tc, c, None)
    ctx.floor("C20.c.iv-type-checks", n_tc, 2)

    return ctx.finish(
        explanation=(
            "Order (validate dominates cast), table (operator/symbol, and/or joins) and registry cross-checks over every register_type call: no lossy numeric serializer, custom "
            "serializers paired with custom deserializers, regular-language inclusion of what range_serializer / str(timedelta) can write in what the deserializers accept "
            "(regexes and f-string templates read from source), declared deserializer exceptions covering the modelled raises, and a class-local taint check that SecretStr's value "
            "never reaches __str__/__repr__. Not decided: acceptance <=> predicate and the round trip for every value."
        ),
        rule_text="one obligation per registry entry and rule; language inclusions decided exactly on product DFAs",
    )


def _judge_type_check(ctx, ty, tc, call, fn_):
    """type_check=<callable>: the callable's second parameter (the registered class) must take part in the decision."""
    what = ast.unparse(tc)
    if isinstance(tc, ast.Name) and tc.id == "isinstance":
        ctx.oblige("C20.c.iv", True, call, "type_check=isinstance tests the registered class", fn=fn_, site=None if fn_ is not None else f"typing:<module> :: {src(call, 80)}", construct=f"type_check {what}", function=None if fn_ is not None else "typing:<module>")
        return
    body = params = None
    if isinstance(tc, ast.Lambda):
        params = [a.arg for a in tc.args.args]
        body = tc.body
    elif isinstance(tc, ast.Name) and tc.id in ty.funcs:
        f = ty.funcs[tc.id]
        params = [a.arg for a in f.args.args]
        body = f
    if body is None or params is None or len(params) < 2:
        raise AnalysisError(f"type_check callable `{what}` cannot be resolved to a two-parameter function of jsonargparse.typing")
    used = any(isinstance(n_, ast.Name) and n_.id == params[1] for n_ in ast.walk(body))
    ctx.oblige(
        "C20.c.iv",
        used,
        call,
        f"`{what}` decides membership in the class it is given" if used else f"`{what}` ignores the registered class (its parameter `{params[1]}` is unused): every value that passes its test counts as already converted for EVERY type registered with it - a Path_fr instance given for a Path_dw argument (parse_object, defaults, link results) is accepted without the directory / write check",
        fn=fn_,
        site=None if fn_ is not None else f"typing:<module> :: {src(call, 80)}",
        construct=f"type_check {what} uses the class",
        function=None if fn_ is not None else "typing:<module>",
    )
