"""C11 - Namespace behaves as a nested mapping addressed by dotted keys.

Decided clauses (internal consistency of _namespace.py that every history depends on):
  C11.a  clash-mark symmetry: keys are marked on the way into __dict__, looked
         up marked, and un-marked on every way out; add_clash_mark is idempotent
  C11.b  accessors agree with _parse_key on the kinds of parent (Namespace / dict /
         None) it can hand them (belief contradiction between sibling accessors)
Not decided: agreement with a dictionary model over all operation histories.
"""

from __future__ import annotations

import ast
from typing import Dict, List, Optional, Set, Tuple

from .report import Ctx
from .srcmodel import AnalysisError, call_leaf, call_name, calls_in, const_str, contains, dotted, enclosing_function, src, walk_local
from .util import guard_chain, root_name, strip_not

MARK_FN, UNMARK_FN = "add_clash_mark", "del_clash_mark"
PARSERS = {"_parse_key", "_parse_required_key"}


class KeyKinds:
    """Flow-sensitive classification of the locals of one method that hold keys
    (forward dataflow over the CFG; kinds: MARKED, RAWDICT = read out of a __dict__,
    UNMARKED = passed del_clash_mark, USER = caller-supplied, PARENT, VALUE, UNKNOWN)."""

    def __init__(self, ctx: Ctx, fn: ast.AST, marked_params: Set[str] = frozenset()):
        from .dataflow import forward

        self.fn = fn
        self.g = ctx.cfg(fn)
        init = {}
        for a in fn.args.args + fn.args.kwonlyargs:
            if a.arg != "self":
                init[a.arg] = frozenset({"MARKED" if a.arg in marked_params else "USER"})
        self.ins = forward(self.g, init, self._transfer)

    # -- expression evaluation ------------------------------------------------
    def ev(self, e: ast.AST, st) -> frozenset:
        if isinstance(e, ast.Call):
            leaf = call_leaf(e)
            if leaf == MARK_FN:
                return frozenset({"MARKED"})
            if leaf == UNMARK_FN:
                return frozenset({"UNMARKED"})
            if leaf in ("split_key", "list") and e.args:
                return self.ev(e.args[0], st)
            if leaf == "join" and e.args:
                return self.ev(e.args[0], st)
            return frozenset({"UNKNOWN"})
        if isinstance(e, ast.Subscript):
            return self.ev(e.value, st)
        if isinstance(e, ast.BinOp) and isinstance(e.op, ast.Add):
            ks = (self.ev(e.left, st) | self.ev(e.right, st)) - {"CONST"}
            return frozenset(ks) if ks else frozenset({"CONST"})
        if isinstance(e, ast.Constant):
            return frozenset({"CONST"})
        if isinstance(e, (ast.ListComp, ast.GeneratorExp)):
            st2 = dict(st)
            for gen in e.generators:
                for nm, k in self._bind_iter(gen.target, gen.iter, st2):
                    st2[nm] = k
            return self.ev(e.elt, st2)
        if isinstance(e, ast.Name):
            return st.get(e.id, frozenset({"UNKNOWN"}))
        return frozenset({"UNKNOWN"})

    def _bind_iter(self, target: ast.AST, it: ast.AST, st):
        txt = ast.unparse(it)
        names = [target] if isinstance(target, ast.Name) else (list(target.elts) if isinstance(target, ast.Tuple) else [])
        out = []
        for i, el in enumerate(names):
            if not isinstance(el, ast.Name):
                continue
            first = isinstance(target, ast.Name) or i == 0
            if ("vars(" in txt or "__dict__" in txt) and ".items()" in txt:
                k = frozenset({"RAWDICT"}) if first else frozenset({"VALUE"})
            elif isinstance(it, ast.Call) and call_leaf(it) in ("items", "keys"):
                k = frozenset({"UNMARKED"}) if first else frozenset({"VALUE"})
            else:
                k = self.ev(it, st) if first or isinstance(target, ast.Name) else frozenset({"UNKNOWN"})
            out.append((el.id, k))
        return out

    def _transfer(self, node, st):
        s = node.ast
        if node.kind == "loop" and isinstance(s, ast.For):
            out = dict(st)
            for nm, k in self._bind_iter(s.target, s.iter, st):
                out[nm] = k
            return out
        if node.kind != "stmt" or not isinstance(s, ast.Assign):
            return st
        out = dict(st)
        for t in s.targets:
            if isinstance(t, ast.Name):
                out[t.id] = self.ev(s.value, st)
            elif isinstance(t, ast.Tuple):
                v = s.value
                for i, el in enumerate(t.elts):
                    if not isinstance(el, ast.Name):
                        continue
                    if isinstance(v, ast.Call) and call_leaf(v) in PARSERS:
                        out[el.id] = frozenset({"MARKED"}) if i in (0, 2) else frozenset({"PARENT"})
                    elif isinstance(v, ast.Call) and call_leaf(v) in ("split_key_leaf", "split_key_root") and v.args:
                        out[el.id] = self.ev(v.args[0], st)
                    else:
                        out[el.id] = frozenset({"UNKNOWN"})
        return out

    def kind(self, e: ast.AST) -> str:
        """Kind of expression e at the program point(s) where it is evaluated."""
        ks: Set[str] = set()
        nodes = self.g.cn(e)
        for nid in nodes:
            st = self.ins.get(nid)
            if st is None:
                continue
            # comprehension-local names
            st2 = dict(st)
            from .srcmodel import ancestors

            for a in ancestors(e):
                if isinstance(a, (ast.ListComp, ast.GeneratorExp, ast.SetComp, ast.DictComp)):
                    for gen in a.generators:
                        for nm, k in self._bind_iter(gen.target, gen.iter, st2):
                            st2[nm] = k
                if a is self.fn:
                    break
            ks |= set(self.ev(e, st2))
        ks.discard("CONST")
        if not ks:
            return "UNKNOWN"
        return ks.pop() if len(ks) == 1 else "MIXED:" + ",".join(sorted(ks))


def run(ctx: Ctx) -> int:
    ns_mod = ctx.repo.mod("_namespace")
    cls = ctx.repo.cls("_namespace:Namespace")
    methods = {m.name: m for m in cls.body if isinstance(m, ast.FunctionDef)}
    ctx.need({"_parse_key", "__setitem__", "__getitem__", "__delitem__", "__contains__", "pop", "items", "as_dict", "__setattr__"} <= set(methods), "Namespace methods")

    # ---------------- C11.a ---------------------------------------------------
    # contract of _create_nested_namespace: its key is the (marked) parent key of _parse_key
    cnn_calls = [(m, c) for m in methods.values() for c in calls_in(m) if call_leaf(c) == "_create_nested_namespace"]
    contract_ok = bool(cnn_calls) and all(KeyKinds(ctx, m).kind(c.args[0]) == "MARKED" for m, c in cnn_calls)
    ctx.oblige("C11.a", contract_ok, cnn_calls[0][1] if cnn_calls else cls, "_create_nested_namespace only receives the marked parent key computed by _parse_key" if contract_ok else "_create_nested_namespace is called with a key that did not pass add_clash_mark", fn=cnn_calls[0][0] if cnn_calls else None)
    marked_params = {"_create_nested_namespace": {"key"}} if contract_ok else {}

    n_in = n_look = n_out = 0
    for name, m in methods.items():
        kk = KeyKinds(ctx, m, marked_params.get(name, set()))
        for c in calls_in(m):
            leaf = call_leaf(c)
            # inward: direct stores bypassing Namespace.__setattr__
            if leaf == "__setattr__" and isinstance(c.func, ast.Attribute) and isinstance(c.func.value, ast.Call) and call_leaf(c.func.value) == "super":
                n_in += 1
                k = kk.kind(c.args[0])
                ctx.oblige("C11.a", k == "MARKED", c, "attribute names are clash-marked before they are stored" if k == "MARKED" else f"a name reaches object storage without add_clash_mark (key kind {k}): names that coincide with Namespace methods shadow them", fn=m)
            elif leaf in ("hasattr", "getattr", "delattr") and isinstance(c.func, ast.Name) and len(c.args) >= 2 and name not in ("__init__",):
                recv = root_name(c.args[0])
                if recv in ("self", "parent_ns"):
                    n_look += 1
                    k = kk.kind(c.args[1])
                    ok = k in ("MARKED", "RAWDICT")
                    ctx.oblige("C11.a", ok, c, "attribute lookup uses a marked key" if ok else f"attribute lookup with an un-marked key (kind {k}): a key named like a Namespace method finds the method instead of the stored value", fn=m)
            elif leaf == "setattr" and isinstance(c.func, ast.Name) and len(c.args) == 3 and root_name(c.args[0]) in ("self", "parent_ns"):
                # goes through Namespace.__setattr__ which marks idempotently: any kind is fine except a raw dict
                # key concatenated with something else
                n_in += 1
                k = kk.kind(c.args[1])
                ok = not k.startswith("MIXED")
                ctx.oblige("C11.a", ok, c, "setattr on a Namespace re-marks idempotently" if ok else f"setattr with a partially marked key ({k})", fn=m)
            elif leaf == "pop" and isinstance(c.func, ast.Attribute) and dotted(c.func.value) and dotted(c.func.value).endswith("__dict__"):
                n_look += 1
                k = kk.kind(c.args[0])
                ok = k in ("MARKED", "RAWDICT")
                ctx.oblige("C11.a", ok, c, "__dict__.pop uses a marked key" if ok else f"__dict__.pop with an un-marked key (kind {k})", fn=m)
        for s in walk_local(m):
            # `k in X.__dict__`, `del X.__dict__[k]`, `X.__dict__[k] = v`
            if isinstance(s, ast.Compare) and len(s.ops) == 1 and isinstance(s.ops[0], (ast.In, ast.NotIn)) and dotted(s.comparators[0]) and dotted(s.comparators[0]).endswith("__dict__"):
                n_look += 1
                k = kk.kind(s.left)
                ok = k in ("MARKED", "RAWDICT")
                ctx.oblige("C11.a", ok, s, "membership in __dict__ is tested with a marked key" if ok else f"membership in __dict__ tested with an un-marked key (kind {k})", fn=m)
            if isinstance(s, ast.Delete):
                for t in s.targets:
                    if isinstance(t, ast.Subscript) and dotted(t.value) and dotted(t.value).endswith("__dict__"):
                        n_look += 1
                        k = kk.kind(t.slice)
                        ok = k in ("MARKED", "RAWDICT")
                        ctx.oblige("C11.a", ok, s, "deletion from __dict__ uses a marked key" if ok else f"deletion from __dict__ with an un-marked key (kind {k})", fn=m)
            if isinstance(s, ast.Assign):
                for t in s.targets:
                    if isinstance(t, ast.Subscript) and (dotted(t.value) or "").endswith("__dict__"):
                        n_in += 1
                        k = kk.kind(t.slice)
                        ctx.oblige("C11.a", k == "MARKED", s, "direct __dict__ store uses a marked key" if k == "MARKED" else f"direct __dict__ store with key kind {k}", fn=m)
            # outward
            if isinstance(s, ast.Yield) and s.value is not None and name in ("items",):
                el = s.value.elts[0] if isinstance(s.value, ast.Tuple) else s.value
                n_out += 1
                k = kk.kind(el)
                ok = k == "UNMARKED"
                ctx.oblige("C11.a", ok, s, "keys yielded by items() are un-marked" if ok else f"items() yields a key that did not pass del_clash_mark (kind {k}): callers would see the zero-width mark", fn=m)
        if name == "as_dict":
            for s in walk_local(m):
                if isinstance(s, ast.Assign) and isinstance(s.targets[0], ast.Subscript) and root_name(s.targets[0].value) == "dic":
                    n_out += 1
                    k = kk.kind(s.targets[0].slice)
                    ctx.oblige("C11.a", k == "UNMARKED", s, "as_dict() un-marks its keys" if k == "UNMARKED" else f"as_dict() stores a key of kind {k}", fn=m)
    ctx.floor("C11.a-inward", n_in, 3)
    ctx.floor("C11.a-lookup", n_look, 5)
    ctx.floor("C11.a-outward", n_out, 3)
    # keys()/values()/as_flat() are built on items()
    for nm in ("keys", "values", "as_flat"):
        m = methods.get(nm)
        ok = m is not None and any(call_leaf(c) == "items" and root_name(c.func) == "self" for c in calls_in(m)) and "__dict__" not in ast.unparse(m) and "vars(" not in ast.unparse(m)
        ctx.oblige("C11.a", ok, m if m is not None else cls, f"{nm}() is derived from items() (un-marked keys)" if ok else f"{nm}() reads storage directly", fn=m, construct=f"{nm} via items")
    # every component of a dotted key is marked in _parse_key
    pk = methods["_parse_key"]
    lc = [s for s in walk_local(pk) if isinstance(s, ast.Assign) and isinstance(s.value, ast.ListComp) and call_leaf(s.value.elt) == MARK_FN]
    ok = len(lc) == 1 and not lc[0].value.generators[0].ifs and root_name(lc[0].targets[0]) == root_name(lc[0].value.generators[0].iter)
    ctx.oblige("C11.a", ok, lc[0] if lc else pk, "_parse_key marks every component of the dotted key" if ok else "_parse_key no longer marks every key component", fn=pk)
    # idempotence facts of the mark
    # _parse_required_key answers "not found" for every kind of parent _parse_key can hand back (Namespace, dict,
    # None): its membership test has to be total - hasattr is, vars(x) / x.__dict__ are not (TypeError /
    # AttributeError for a dict parent instead of NSKeyError)
    prk = ctx.func("_namespace:Namespace._parse_required_key")
    unpack = [s_ for s_ in walk_local(prk) if isinstance(s_, ast.Assign) and isinstance(s_.value, ast.Call) and call_leaf(s_.value) == "_parse_key" and isinstance(s_.targets[0], ast.Tuple) and len(s_.targets[0].elts) == 3]
    ctx.need(unpack and all(isinstance(e, ast.Name) for e in unpack[0].targets[0].elts), "_parse_required_key: leaf, parent, parent_key = self._parse_key(key)")
    pvar = unpack[0].targets[0].elts[1].id
    partial = []
    for n_ in walk_local(prk):
        if isinstance(n_, ast.Call) and any(isinstance(a_, ast.Name) and a_.id == pvar for a_ in n_.args) and call_leaf(n_) not in ("hasattr", "isinstance", "getattr", "NSKeyError"):
            partial.append(n_)
        if isinstance(n_, ast.Attribute) and isinstance(n_.value, ast.Name) and n_.value.id == pvar:
            partial.append(n_)
        if isinstance(n_, ast.Compare) and any(isinstance(c_, ast.Name) and c_.id == pvar for c_ in n_.comparators) and isinstance(n_.ops[0], (ast.In, ast.NotIn)):
            partial.append(n_)
    ok = not partial
    ctx.oblige("C11.b", ok, partial[0] if partial else prk, "the leaf test of _parse_required_key is total (hasattr): a missing key is NSKeyError whatever the parent is" if ok else f"the leaf test `{ast.unparse(partial[0])[:50]}` is not defined for every parent _parse_key returns: below a dict value, `in`, `[]`, `del` raise TypeError / AttributeError instead of answering 'not found'", fn=prk, construct="required-key test total")

    am, dm = ctx.func("_namespace:add_clash_mark"), ctx.func("_namespace:del_clash_mark")
    mark = None
    cn_after = False
    seen_cls = False
    for s in ns_mod.tree.body:
        if isinstance(s, ast.ClassDef) and s.name == "Namespace":
            seen_cls = True
        if isinstance(s, (ast.Assign, ast.AnnAssign)):
            tg = s.targets[0] if isinstance(s, ast.Assign) else s.target
            if isinstance(tg, ast.Name) and tg.id == "clash_mark":
                mark = const_str(s.value)
            if isinstance(tg, ast.Name) and tg.id == "clash_names":
                v = s.value
                # every attribute name of the class clashes: set(dir(Namespace)) or an unfiltered comprehension over it
                whole = isinstance(v, ast.Call) and call_leaf(v) in ("set", "frozenset") and len(v.args) == 1 and ast.unparse(v.args[0]) == "dir(Namespace)"
                if isinstance(v, (ast.SetComp, ast.ListComp, ast.GeneratorExp)) and len(v.generators) == 1:
                    gn = v.generators[0]
                    whole = ast.unparse(gn.iter) == "dir(Namespace)" and not gn.ifs and isinstance(v.elt, ast.Name) and isinstance(gn.target, ast.Name) and v.elt.id == gn.target.id
                cn_after = seen_cls and whole
    ok = mark is not None and len(mark) == 1 and not (mark.isidentifier() or mark.isalnum() or mark == "_") and cn_after
    ctx.oblige("C11.a", ok, None, "the mark is a non-identifier character and clash_names = dir(Namespace) is computed after the class body: a marked name is never in clash_names, so marking is idempotent" if ok else "clash mark / clash_names facts changed: clash_names is no longer the whole of dir(Namespace) computed after the class body (a key named like a filtered-out attribute - e.g. a private method - is stored unmarked and shadows it), or the mark could be part of a name", site="_namespace:clash_mark", construct="mark idempotent", function="_namespace:<module>")
    ok = "key in clash_names" in ast.unparse(am) and "clash_mark + key" in ast.unparse(am)
    ctx.oblige("C11.a", ok, am, "add_clash_mark prefixes exactly the names in clash_names" if ok else "add_clash_mark changed", fn=am)
    ok = "key[0] == clash_mark" in ast.unparse(dm) and "key[1:]" in ast.unparse(dm)
    ctx.oblige("C11.a", ok, dm, "del_clash_mark removes exactly one leading mark" if ok else "del_clash_mark changed", fn=dm)

    # ---------------- C11.c ---------------------------------------------------
    from .shared_rules import check_recreate_branches

    check_recreate_branches(ctx, "C11.c")
    cl = methods.get("clone")
    ok = cl is not None and any(isinstance(r.value, ast.Call) and call_leaf(r.value) == "recreate_branches" and root_name(r.value.args[0]) == "self" for r in walk_local(cl) if isinstance(r, ast.Return))
    ctx.oblige("C11.c", ok, cl if cl is not None else cls, "clone() is recreate_branches(self)" if ok else "clone() no longer rebuilds the branches", fn=cl, construct="clone via recreate_branches")
    up = methods.get("update")
    ctx.need(up is not None, "Namespace.update")
    n_up = 0
    for s_ in walk_local(up):
        if isinstance(s_, ast.Assign) and isinstance(s_.targets[0], ast.Subscript) and root_name(s_.targets[0].value) == "self":
            written = ast.unparse(s_.targets[0].slice)
            for t, pol in guard_chain(s_, stop=up):
                for cmp_ in [x for x in ast.walk(t) if isinstance(x, ast.Compare) and len(x.ops) == 1 and isinstance(x.ops[0], (ast.In, ast.NotIn)) and root_name(x.comparators[0]) == "self"]:
                    n_up += 1
                    tested = ast.unparse(cmp_.left)
                    ok = tested == written
                    ctx.oblige("C11.c", ok, s_, f"update(only_unset) tests membership of the key it writes (`{written}`)" if ok else f"update(only_unset) tests `{tested}` but writes `{written}`: an unset nested key is skipped (or a set one overwritten) depending on an unrelated key", fn=up)
    ctx.floor("C11.c-update-guards", n_up, 2)
    # an EMPTY nested namespace has no leaves: update carries it over as a branch of its own (fix 9f92672 - the settings
    # of a subcommand without arguments, `b: {}`, vanished when the parsed config was merged with the defaults and the
    # subcommand could no longer be inferred from the dump)
    from .util import guard_atoms as _ga11

    loops_u = [l for l in walk_local(up) if isinstance(l, ast.For) and isinstance(l.iter, ast.Call) and call_leaf(l.iter) == "items"]
    ctx.need(loops_u, "Namespace.update: for key, val in value.items(...)")
    with_br = [l for l in loops_u if any(k.arg == "branches" and isinstance(k.value, ast.Constant) and k.value.value is True for k in l.iter.keywords)]
    empties = []
    for l in with_br:
        vname = l.target.elts[1].id if isinstance(l.target, ast.Tuple) and isinstance(l.target.elts[1], ast.Name) else None
        for s_ in [x for x in ast.walk(l) if isinstance(x, ast.Assign) and isinstance(x.targets[0], ast.Subscript) and root_name(x.targets[0].value) == "self" and isinstance(x.value, ast.Call) and call_leaf(x.value) == "Namespace" and not x.value.args]:
            at = _ga11(s_, stop=l)
            is_ns = any(pol and isinstance(t, ast.Call) and call_leaf(t) == "isinstance" and ast.unparse(t.args[0]) == vname for t, pol in at)
            is_empty = any(not pol and isinstance(t, ast.Name) and t.id == vname for t, pol in at)
            others = [ast.unparse(t) for t, pol in at if not (isinstance(t, ast.Call) and call_leaf(t) == "isinstance") and not (isinstance(t, ast.Name) and t.id == vname) and not (isinstance(t, ast.Compare) and isinstance(t.ops[0], (ast.In, ast.NotIn)) and root_name(t.comparators[0]) == "self")]
            if is_ns and is_empty and not others:
                empties.append(s_)
    ok = bool(empties)
    ctx.oblige("C11.c", ok, empties[0] if empties else loops_u[0], "update creates the empty branches of the given namespace that the receiver lacks" if ok else "update only copies leaves: an empty nested namespace in the given one leaves no trace - after merging with the defaults the section `b: {}` of a subcommand without arguments is gone, the subcommand cannot be inferred and the parser rejects its own dump", fn=up, construct="empty branches carried over")

    # ---------------- C11.b ---------------------------------------------------
    # kinds of parent _parse_key can return
    kinds: Set[str] = set()
    for n in ast.walk(pk):
        if isinstance(n, ast.Call) and call_leaf(n) == "isinstance" and root_name(n.args[0]) == "parent_ns" and isinstance(n.args[1], ast.Tuple):
            kinds |= {dotted(e) for e in n.args[1].elts}
    for r in walk_local(pk):
        if isinstance(r, ast.Return) and isinstance(r.value, ast.Tuple) and isinstance(r.value.elts[1], ast.Constant) and r.value.elts[1].value is None:
            kinds.add("None")
    # a None *value* at the parent position is returned as parent as well
    if any(isinstance(n, ast.Compare) and "parent_ns is not None" in ast.unparse(n) for n in ast.walk(pk)):
        kinds.add("None")
    ctx.need("Namespace" in kinds, "_parse_key: parent kinds")
    ctx.extra["parse_key_parent_kinds"] = sorted(kinds)
    n_cons = 0
    for name, m in methods.items():
        for s in walk_local(m):
            if not (isinstance(s, ast.Assign) and isinstance(s.value, ast.Call) and call_leaf(s.value) == "_parse_key" and isinstance(s.targets[0], ast.Tuple)):
                continue
            pvar = s.targets[0].elts[1].id if isinstance(s.targets[0].elts[1], ast.Name) else None
            if pvar is None or pvar == "_":
                continue
            n_cons += 1
            g = ctx.cfg(m)
            # narrowing tests on the parent variable
            handled: Set[str] = set()
            for n in walk_local(m):
                if isinstance(n, (ast.If, ast.IfExp, ast.BoolOp)):
                    tests = [n.test] if hasattr(n, "test") else list(n.values)
                    for t in tests:
                        for sub in ast.walk(t):
                            if isinstance(sub, ast.Call) and call_leaf(sub) == "isinstance" and root_name(sub.args[0]) == pvar:
                                names = [dotted(e) for e in (sub.args[1].elts if isinstance(sub.args[1], ast.Tuple) else [sub.args[1]])]
                                handled |= set(names)
                                if "Namespace" in names:
                                    # a test on the one dereferenceable kind separates it from all others
                                    handled |= kinds
                            if isinstance(sub, ast.Compare) and isinstance(sub.left, ast.Name) and sub.left.id == pvar and isinstance(sub.comparators[0], ast.Constant) and sub.comparators[0].value is None:
                                handled.add("None")
                            if isinstance(sub, ast.UnaryOp) and isinstance(sub.op, ast.Not) and isinstance(sub.operand, ast.Name) and sub.operand.id == pvar:
                                handled.add("None")
            # dereferences
            derefs = []
            for n in walk_local(m):
                if isinstance(n, ast.Attribute) and isinstance(n.value, ast.Name) and n.value.id == pvar and n.attr == "__dict__":
                    derefs.append(("__dict__", n))
                if isinstance(n, ast.Call) and call_leaf(n) == "hasattr" and isinstance(n.func, ast.Name) and root_name(n.args[0]) == pvar:
                    derefs.append(("hasattr", n))
            for kind in sorted(kinds - {"Namespace"}):
                if kind in handled:
                    ctx.oblige("C11.b", True, s, f"{name}: a {kind} parent from _parse_key is handled explicitly", fn=m, construct=f"{name} handles {kind}")
                    continue
                bad = [d for d in derefs if d[0] == "__dict__" or (d[0] == "hasattr" and kind == "dict")]
                ok = not bad
                why = f"{name}: a {kind} parent cannot reach a Namespace-only dereference" if ok else (
                    f"{name} dereferences the parent returned by _parse_key as a Namespace ({src(bad[0][1], 50)}) although _parse_key can return a {kind} parent"
                    f" ({'AttributeError' if bad[0][0] == '__dict__' else 'the key is reported as not found although __setitem__ can set it'})"
                )
                ctx.oblige("C11.b", ok, s, why, fn=m, construct=f"{name} vs {kind} parent")
    ctx.floor("C11.b-consumers", n_cons, 3)

    # the public converters hand back new objects: dict_to_namespace / namespace_to_dict do not write into what they
    # were given (E5; lists inside the dictionary included)
    from .effects import check_param_not_mutated

    check_param_not_mutated(
        ctx,
        "C11.c",
        "_namespace:dict_to_namespace",
        "cfg_dict",
        why_ok="dict_to_namespace converts a copy: the caller's dictionary (and the lists inside it) is left as it was",
        why_bad="dict_to_namespace writes into the caller's dictionary or into a list inside it: after the call the dictionary holds Namespace objects, and the namespace shares its lists with it",
    )
    check_param_not_mutated(
        ctx,
        "C11.c",
        "_namespace:namespace_to_dict",
        "namespace",
        why_ok="namespace_to_dict converts a copy of the namespace",
        why_bad="namespace_to_dict writes into the namespace it was given",
    )

    # `key in ns` answers False for any key that cannot be resolved - it never raises.  Walking a dotted key through a
    # dict value raises the dict's own KeyError (not the library's NSKeyError subclass), so the handler names KeyError
    cont = ctx.func("_namespace:Namespace.__contains__")
    from .util import handler_type_names

    hs_ = [h for t in walk_local(cont) if isinstance(t, ast.Try) for h in t.handlers]
    names_ = {n.split(".")[-1] for h in hs_ for n in (handler_type_names(h) if h.type is not None else ["BaseException"])}
    ok = bool(hs_) and bool(names_ & {"KeyError", "LookupError", "Exception", "BaseException"})
    ctx.oblige("C11.b", ok, hs_[0] if hs_ else cont, "__contains__ turns every KeyError of the key walk into False" if ok else f"__contains__ only catches {sorted(names_)}: a key that steps through a dict value (`'opts.copy.x' in ns`) raises the dict's plain KeyError instead of answering False", fn=cont, construct="contains never raises")

    # ---------------- C11.d ---------------------------------------------------
    # as_dict converts namespaces at every depth, element for element (fix 3762e69: only containers made up entirely
    # of namespaces were converted; [spec, None] / [[spec]] kept Namespace objects and the json dump raised):
    #  - as_dict stores the converted value of EVERY key (no condition on the store);
    #  - the converter has an arm for Namespace, dict and list; every arm is selected by type tests alone (no
    #    all()/any() quantifier over the elements) and maps every element through the converter (no filter).
    from .util import guard_atoms

    asd = ctx.func("_namespace:Namespace.as_dict")
    stores = [s_ for s_ in walk_local(asd) if isinstance(s_, ast.Assign) and isinstance(s_.targets[0], ast.Subscript)]
    ctx.need(stores, "as_dict: dic[<key>] = <converted value>")
    conv_names = {call_leaf(s_.value) for s_ in stores if isinstance(s_.value, ast.Call) and isinstance(s_.value.func, ast.Name)}
    if len(conv_names) != 1 or not ctx.repo.has_func(f"_namespace:{next(iter(conv_names))}"):
        ctx.oblige("C11.d", False, stores[0], "as_dict does not pass every value through one recursive converter: only some container shapes are converted - a list that mixes class specs with nulls or scalars, or nests them ([[spec]], {'a': [spec]}), keeps Namespace objects and the json dump of an accepted configuration raises TypeError", fn=asd, construct="converter for every depth")
        conv_name = None
    else:
        conv_name = next(iter(conv_names))
    nad = ctx.func(f"_namespace:{conv_name}") if conv_name else None
    if nad is not None:
        npar = nad.args.args[0].arg
        for s_ in stores:
            loops = [l for l in walk_local(asd) if isinstance(l, ast.For) and any(x is s_ for x in ast.walk(l))]
            ok = isinstance(s_.value, ast.Call) and call_leaf(s_.value) == conv_name and not guard_atoms(s_, stop=asd) and len(loops) == 1 and "vars(self)" in ast.unparse(loops[0].iter)
            ctx.oblige("C11.d", ok, s_, "every key of the namespace is stored with its converted value" if ok else "as_dict stores some values unconverted or skips keys: Namespace objects left in the result make the json dump raise TypeError, skipped keys vanish from the dump", fn=asd)

        def _is_type_test(t: ast.AST) -> bool:
            if isinstance(t, ast.Call) and call_leaf(t) == "isinstance" and isinstance(t.args[0], ast.Name) and t.args[0].id == npar:
                return True
            return isinstance(t, ast.Compare) and isinstance(t.left, ast.Call) and call_leaf(t.left) == "type" and ast.unparse(t.left.args[0]) == npar

        arms = {}
        for r in [x for x in walk_local(nad) if isinstance(x, ast.Return) and x.value is not None]:
            at = guard_atoms(r, stop=nad)
            pos = [t for t, pol in at if pol]
            kinds = {k for t in pos for k in ("Namespace", "dict", "list", "tuple") if _is_type_test(t) and k in {n_.id for n_ in ast.walk(t) if isinstance(n_, ast.Name)}}
            extra = [ast.unparse(t) for t, pol in at if not _is_type_test(t)]
            for k in kinds:
                arms[k] = (r, extra)
        for k in ("Namespace", "dict", "list"):
            ok = k in arms and not arms[k][1]
            ctx.oblige("C11.d", ok, arms[k][0] if k in arms else nad, f"{conv_name} converts a {k} whenever the value is one" if ok else (f"{conv_name} has no arm for {k} values" if k not in arms else f"the {k} arm of {conv_name} also depends on {arms[k][1]}: containers that mix namespaces with nulls or scalars (List[Optional[Cls]] = [spec, None]) are left as they are or break the conversion - the json dump of an accepted configuration raises"), fn=nad, construct=f"{k} arm")
        for k in ("list", "tuple"):
            if k in arms:
                r_ = arms[k][0]
                rebuilds_same_type = any(isinstance(c_, ast.Call) and isinstance(c_.func, ast.Call) and call_leaf(c_.func) == "type" for c_ in ast.walk(r_.value))
                exact = any(pol and isinstance(t, ast.Compare) and isinstance(t.left, ast.Call) and call_leaf(t.left) == "type" for t, pol in guard_atoms(r_, stop=nad))
                ok = (not rebuilds_same_type) or exact
                ctx.oblige("C11.d", ok, r_, f"the {k} arm rebuilds the container with its own class only for the exact builtin types" if ok else f"the {k} arm calls type({npar})(<generator>) for every list / tuple SUBCLASS: a namedtuple (or any subclass with its own constructor) is called with one generator argument - as_dict raises TypeError, or a NamedTuple with defaults silently becomes Range(lo=<generator>, hi=9)", fn=nad, construct=f"{k} arm exact type")
        if "Namespace" in arms:
            rv = arms["Namespace"][0].value
            ok = isinstance(rv, ast.Call) and call_leaf(rv) == "as_dict" and root_name(rv.func) == npar
            ctx.oblige("C11.d", ok, arms["Namespace"][0], "a namespace is converted by its own as_dict" if ok else "the Namespace arm does not return <value>.as_dict()", fn=nad)
        comps = [n_ for r_ in walk_local(nad) if isinstance(r_, ast.Return) and r_.value is not None for n_ in ast.walk(r_.value) if isinstance(n_, (ast.ListComp, ast.DictComp, ast.SetComp, ast.GeneratorExp))]
        ctx.floor("C11.d-as_dict-comprehensions", len(comps), 2, defer=True)
        for cmp_ in comps:
            filtered = [t for g_ in cmp_.generators for t in g_.ifs]
            elt = cmp_.value if isinstance(cmp_, ast.DictComp) else cmp_.elt
            tgt_names = {n_.id for g_ in cmp_.generators for n_ in ast.walk(g_.target) if isinstance(n_, ast.Name)}
            mapped = isinstance(elt, ast.Call) and call_leaf(elt) == conv_name and len(elt.args) == 1 and isinstance(elt.args[0], ast.Name) and elt.args[0].id in tgt_names
            whole = all(root_name(g_.iter if not isinstance(g_.iter, ast.Call) else g_.iter.func) == npar for g_ in cmp_.generators)
            keyok = not isinstance(cmp_, ast.DictComp) or (isinstance(cmp_.key, ast.Name) and cmp_.key.id in tgt_names)
            ok = not filtered and mapped and whole and keyok
            ctx.oblige(
                "C11.d",
                ok,
                cmp_,
                "this container is converted element for element" if ok else "the conversion drops elements (filtered comprehension), leaves elements unconverted or changes keys: a list with a null or scalar next to class specs comes out shorter or keeps Namespace objects, so the dumped configuration re-parses to a different value or the json dump raises",
                fn=nad,
            )

    # ---------------- C11.e: a dict becomes a Namespace (**keywords) only when ALL its keys are strings ----------------------
    xd = ctx.func("_namespace:expand_dict")
    guards_ = [c for c in calls_in(xd) if call_leaf(c) in ("all", "any") and any(isinstance(x, ast.Call) and call_leaf(x) == "isinstance" and ast.unparse(x.args[1]) == "str" for x in ast.walk(c))]
    ctx.floor("C11.e-string-key-guards", len(guards_), 2)
    for c in guards_:
        ok = call_leaf(c) == "all"
        ctx.oblige("C11.e", ok, c, "only dicts whose keys are all strings are expanded into a Namespace" if ok else "a dict with SOME string key is expanded with Namespace(**d): a list element {'a': 1, 2: 3} raises TypeError ('keywords must be strings') out of dict_to_namespace instead of staying a dict leaf", fn=xd)

    return ctx.finish(
        explanation=(
            "File-local key-kind analysis of _namespace.py: every key that reaches object storage passed add_clash_mark, every lookup uses a marked (or raw __dict__) key, every key that "
            "leaves the class passed del_clash_mark, and the mark is idempotent by construction; plus a belief-contradiction check: _parse_key can return Namespace, dict or None parents and "
            "every accessor consuming its result must narrow or tolerate each kind. These are internal-consistency obligations every operation history depends on; agreement with a "
            "dictionary model over all histories is not decided."
        ),
        rule_text="one obligation per store / lookup / outward key site and per (accessor, parent kind) pair",
    )
