"""C02 - accepted values conform; acceptance is compositional.

Decided clauses:
  C02.a  the result of the Union arm is chosen independently of member order:
         loop automaton over {V, O, E} x selection expression
  C02.b  a failed member trial cannot modify the candidate value (adapt_typehints
         does not mutate its `val` argument) - mutation summary engine (E5)
  C02.c  every configuration returned by a parse method passed validate()
Not decided: conformance of every accepted value for every type hint.
"""

from __future__ import annotations

import ast
import itertools
from typing import Dict, List, Optional, Set, Tuple

from .report import Ctx
from .srcmodel import AnalysisError, call_leaf, calls_in, contains, src, walk_local, const_str as const_str
from .util import enclosing_trys, guard_chain, root_name


def _union_loop(fn: ast.AST) -> Tuple[ast.For, str]:
    for n in walk_local(fn):
        if isinstance(n, ast.For):
            apps = [c for c in calls_in(n) if call_leaf(c) == "append" and isinstance(c.func, ast.Attribute) and isinstance(c.func.value, ast.Name)]
            tries = [t for t in n.body if isinstance(t, ast.Try)]
            if apps and tries and any(any(call_leaf(x) == "adapt_typehints" for x in calls_in(a)) for a in apps):
                names = {a.func.value.id for a in apps}
                if len(names) == 1:
                    return n, names.pop()
    raise AnalysisError("anchor vanished: Union member trial loop in adapt_typehints")


def _classify_append(app: ast.Call, loop: ast.For) -> str:
    """V: result of the guarded call in a try body; E: the caught exception; O: other value appended in a handler."""
    trys = enclosing_trys(app)
    part = None
    handler_name = None
    for t, p in trys:
        if contains(loop, t):
            part = p
            if p == "handler":
                for h in t.handlers:
                    if contains(h, app):
                        handler_name = h.name
            break
    arg = app.args[0] if app.args else None
    if part == "body":
        return "V"
    if part == "handler":
        if isinstance(arg, ast.Name) and arg.id == handler_name:
            return "E"
        return "O"
    return "V"


def _selection(fn: ast.AST, loop: ast.For, lst: str, g) -> Tuple[Tuple[str, str], ast.AST]:
    """Find the statement after the loop that selects an element of the list."""
    head = g.node_ids_of(loop)
    after = g.reachable(head)
    cands = []
    for s in walk_local(fn):
        if isinstance(s, ast.Assign) and not contains(loop, s) and any(isinstance(n, ast.Name) and n.id == lst for n in ast.walk(s.value)):
            if set(g.cn(s)) & after:
                cands.append(s)
    if len(cands) != 1:
        raise AnalysisError(f"anchor vanished: single selection statement over `{lst}` after the Union loop (found {len(cands)})")
    s = cands[0]
    v = s.value

    def is_filter(comp: ast.comprehension) -> bool:
        if len(comp.ifs) != 1:
            return False
        t = comp.ifs[0]
        return isinstance(t, ast.UnaryOp) and isinstance(t.op, ast.Not) and isinstance(t.operand, ast.Call) and call_leaf(t.operand) == "isinstance" and "Exception" in ast.unparse(t.operand.args[1])

    def iter_dir(it: ast.AST) -> Optional[str]:
        if isinstance(it, ast.Name) and it.id == lst:
            return "fwd"
        if isinstance(it, ast.Call) and call_leaf(it) == "reversed" and it.args and isinstance(it.args[0], ast.Name) and it.args[0].id == lst:
            return "rev"
        if isinstance(it, ast.Subscript) and isinstance(it.value, ast.Name) and it.value.id == lst and ast.unparse(it.slice) == "::-1":
            return "rev"
        return None

    if isinstance(v, ast.Subscript) and isinstance(v.value, ast.Name) and v.value.id == lst:
        idx = ast.unparse(v.slice)
        if idx in ("-1", "0"):
            return ("pos", "last" if idx == "-1" else "first"), s
    if isinstance(v, ast.Call) and call_leaf(v) == "next" and v.args and isinstance(v.args[0], ast.GeneratorExp):
        ge = v.args[0]
        if len(ge.generators) == 1 and is_filter(ge.generators[0]) and isinstance(ge.elt, ast.Name):
            d = iter_dir(ge.generators[0].iter)
            if d:
                return ("nonE", "first" if d == "fwd" else "last"), s
    if isinstance(v, ast.Subscript) and isinstance(v.value, ast.ListComp):
        lc = v.value
        idx = ast.unparse(v.slice)
        if len(lc.generators) == 1 and is_filter(lc.generators[0]) and idx in ("-1", "0"):
            d = iter_dir(lc.generators[0].iter)
            if d:
                first = (idx == "0") == (d == "fwd")
                return ("nonE", "first" if first else "last"), s
    raise AnalysisError(f"unsupported selection expression after the Union loop: {src(v)}")


def run(ctx: Ctx) -> int:
    ad = ctx.func("_typehints:adapt_typehints")
    g = ctx.cfg(ad)
    loop, lst = _union_loop(ad)
    head = g.node_ids_of(loop)
    apps = [c for c in calls_in(loop) if call_leaf(c) == "append" and root_name(c.func) == lst]
    app_nodes: Dict[int, str] = {}
    for a in apps:
        sym = _classify_append(a, loop)
        for i in g.cn(a):
            app_nodes[i] = sym
    # per-iteration paths: from the 'loop' successors of the head back to the head ('next'),
    # to a break ('break') - exceptional exits of the iteration are not words of the list language
    starts = [t for h in head for t, lab in g.nodes[h].succ if lab == "loop"]
    symbols: Set[Tuple[str, str]] = set()
    n_paths = 0

    body_nodes = set()
    for n in ast.walk(loop):
        for i in g.by_ast.get(id(n), []):
            body_nodes.add(i)

    def dfs(nid: int, word: Tuple[str, ...], seen: Tuple[int, ...]):
        nonlocal n_paths
        node = g.nodes[nid]
        w = word + ((app_nodes[nid],) if nid in app_nodes else ())
        for t, lab in node.succ:
            if lab == "brk":
                n_paths += 1
                symbols.add(("".join(w) or "-", "break"))
                continue
            if t in head:
                n_paths += 1
                symbols.add(("".join(w) or "-", "next"))
                continue
            if lab == "e" and nid in app_nodes and app_nodes[nid] == "V":
                # the guarded call raised: nothing was appended by this node
                if t not in seen:
                    dfs_no_append(t, word, seen + (t,))
                continue
            if t in (g.exit, g.xexit):
                continue
            if t in seen:
                continue
            # leaving the loop body other than by break (return / raise) is not a word
            dfs(t, w, seen + (t,))

    def dfs_no_append(nid, word, seen):
        dfs(nid, word, seen)

    for s in starts:
        dfs(s, (), (s,))
    ctx.need(symbols, "Union loop: per-iteration paths")
    if any(len(sym) > 1 for sym, _ in symbols):
        raise AnalysisError(f"Union loop appends more than once per iteration: {sorted(symbols)}")

    sel, sel_stmt = _selection(ad, loop, lst, g)
    # the all-exceptions guard
    guards = [n for n in walk_local(ad) if isinstance(n, ast.If) and not contains(loop, n) and lst in ast.unparse(n.test) and "all(" in ast.unparse(n.test) and "Exception" in ast.unparse(n.test)]
    guard_ok = bool(guards) and any(
        (isinstance(b, ast.Expr) and isinstance(b.value, ast.Call) and ctx.noreturn(b.value)) or isinstance(b, ast.Raise) for b in guards[0].body
    ) and g.dominates(g.node_ids_of(guards[0]), g.cn(sel_stmt))
    ctx.oblige("C02.a", guard_ok, guards[0] if guards else sel_stmt, "a value rejected by every member raises before a result is selected" if guard_ok else "the all-members-failed guard no longer dominates the selection", fn=ad, construct="all-exceptions guard")

    nexts = sorted({s for s, k in symbols if k == "next"})
    brks = sorted({s for s, k in symbols if k == "break"})
    witness = None
    n_words = 0
    for length in range(1, 5):
        for body in itertools.product(nexts, repeat=length - 1):
            for last, kind in [(s, "next") for s in nexts] + [(s, "break") for s in brks]:
                w = [x for x in list(body) + [last] if x != "-"]
                if not w:
                    continue
                n_words += 1
                if all(x == "E" for x in w):
                    continue  # removed by the guard
                if sel[0] == "pos":
                    chosen = w[-1] if sel[1] == "last" else w[0]
                else:
                    non_e = [x for x in w if x != "E"]
                    chosen = non_e[-1] if sel[1] == "last" else non_e[0]
                if chosen == "E" and witness is None:
                    witness = " ".join(w)
        if witness:
            break
    ctx.extra["union_loop"] = {"iteration_symbols": sorted(f"{s}:{k}" for s, k in symbols), "selection": f"{sel[0]}/{sel[1]}", "words_checked": n_words, "paths": n_paths}
    ctx.oblige(
        "C02.a",
        witness is None,
        sel_stmt,
        f"selection {sel[0]}/{sel[1]} never denotes an exception object for any word of the loop language {{{', '.join(sorted(s + ':' + k for s, k in symbols))}}} that contains an accepted value"
        if witness is None
        else f"for the trial sequence `{witness}` (V accepted, O string fallback, E member failed) the selection {src(sel_stmt.value)} returns the exception object of a failed member as the value: the Union result depends on member order",
        fn=ad,
        details={"witness": witness, "symbols": sorted(symbols), "selection": sel},
    )
    # the string fallback (symbol O) applies to the plain `str` member only: a restricted string type in the
    # Union must not accept the raw text without its own check
    o_apps = [a for a in apps if _classify_append(a, loop) == "O"]
    for a in o_apps:
        gch = guard_chain(a, stop=loop)
        ident = False
        for t, pol in gch:
            for sub in ast.walk(t):
                if isinstance(sub, ast.Compare) and len(sub.ops) == 1 and isinstance(sub.ops[0], ast.Is) and isinstance(sub.comparators[0], ast.Name) and sub.comparators[0].id == "str" and pol:
                    # the identity test must be a top-level conjunct of the guard
                    conj = t.values if isinstance(t, ast.BoolOp) and isinstance(t.op, ast.And) else [t]
                    ident = ident or any(c is sub for c in conj)
        ctx.oblige("C02.a", ident, a, "the raw-string fallback is taken only for the member that is exactly `str`" if ident else "the raw-string fallback is no longer restricted to the member that is exactly `str`: members that merely derive from str (restricted string types) would accept text without their own check, so the Union accepts what no member accepts", fn=ad, construct="string fallback guard")

    # the member order itself: sort_subtypes_for_union only reorders (returns sorted(...) of its input)
    ssu = ctx.func("_typehints:sort_subtypes_for_union")
    rets = [r for r in walk_local(ssu) if isinstance(r, ast.Return)]
    assigns = [s for s in walk_local(ssu) if isinstance(s, ast.Assign) and root_name(s.targets[0]) == "subtypes"]
    ok = all(isinstance(s.value, ast.Call) and call_leaf(s.value) == "sorted" and root_name(s.value.args[0]) == "subtypes" for s in assigns) and all(root_name(r.value) == "subtypes" for r in rets)
    ctx.oblige("C02.a", ok, ssu, "sort_subtypes_for_union only permutes the members (no member is dropped or duplicated)" if ok else "sort_subtypes_for_union filters or rebuilds the member list", fn=ssu, construct="sort is a permutation")

    # ---------------- C02.b (E5) ---------------------------------------------
    try:
        from . import effects
    except ImportError:
        effects = None
    if effects is not None:
        effects.check_param_not_mutated(ctx, "C02.b", "_typehints:adapt_typehints", "val", why_ok="a failed Union member trial leaves the candidate value untouched", why_bad="adapt_typehints writes into the value it was given: a failed Union member trial can leave the candidate half-converted for the next member")

    # ---------------- C02.c ---------------------------------------------------
    pc = ctx.func("_core:ArgumentParser._parse_common")
    gp = ctx.cfg(pc)
    val = [c for c in calls_in(pc) if call_leaf(c) == "validate" and root_name(c.func) == "self"]
    tests = [n for n in walk_local(pc) if isinstance(n, ast.If) and any(contains(n, v) for v in val)]
    ctx.need(val and tests, "_parse_common: guarded validate call")
    t = tests[-1]
    ok = isinstance(t.test, ast.UnaryOp) and isinstance(t.test.op, ast.Not) and isinstance(t.test.operand, ast.Name) and t.test.operand.id == "skip_validation"
    rets = [r for r in walk_local(pc) if isinstance(r, ast.Return)]
    if ok:
        ok = gp.dominates(gp.cn(val), gp.cn(rets), removed_edges=gp.branch_edges(t, "f"))
    ctx.oblige("C02.c", ok, val[0], "unless skip_validation is set, every return of _parse_common is dominated by self.validate(cfg)" if ok else "a configuration can be returned without validation although skip_validation is false", fn=pc)
    # validated object is the returned one
    ok = bool(val[0].args) and root_name(val[0].args[0]) == "cfg" and all(root_name(r.value) == "cfg" for r in rets)
    ctx.oblige("C02.c", ok, val[0], "the validated object is the one returned" if ok else "validate and return refer to different objects", fn=pc, construct="validated is returned")
    for name, producer in (("parse_args", "_parse_common"), ("parse_object", "_parse_common"), ("parse_env", "_parse_common"), ("parse_string", "_parse_common"), ("parse_path", "parse_string")):
        fn = ctx.func(f"_core:ArgumentParser.{name}")
        rets = [r for r in walk_local(fn) if isinstance(r, ast.Return)]
        ok = bool(rets)
        for r in rets:
            if not isinstance(r.value, ast.Name):
                ok = False
                continue
            defs = [s for s in walk_local(fn) if isinstance(s, ast.Assign) and any(isinstance(tg, ast.Name) and tg.id == r.value.id for tg in s.targets)]
            ok = ok and len(defs) == 1 and isinstance(defs[0].value, ast.Call) and call_leaf(defs[0].value) == producer and root_name(defs[0].value.func) == "self"
        ctx.oblige("C02.c", ok, rets[0] if rets else fn, f"{name} returns exactly the value produced by {producer}" if ok else f"{name} returns something other than the result of {producer}", fn=fn)
    # private skip flags default to False at every public entry
    n_flags = 0
    for name in ("parse_args", "parse_object", "parse_env", "parse_string"):
        fn = ctx.func(f"_core:ArgumentParser.{name}")
        for c in calls_in(fn):
            if call_leaf(c) == "get_private_kwargs":
                for k in c.keywords:
                    if k.arg in ("_skip_validation", "_skip_required", "_skip_subcommands"):
                        n_flags += 1
                        ok = isinstance(k.value, ast.Constant) and k.value.value is False
                        ctx.oblige("C02.c", ok, c, f"{k.arg} defaults to False in {name}" if ok else f"{k.arg} no longer defaults to False in {name}", fn=fn, construct=f"{k.arg} default")
    ctx.floor("C02.c-flags", n_flags, 4)

    # ---------------- C02.d the equals-default shortcut does not bypass the type ---------------------------
    # adapt_typehints returns `val` untouched when it equals `default` (bool/int/float/str compare equal across
    # types: True == 1 == 1.0).  On the parsing path a default is only ever passed for a TEXT value (the retry
    # with the original string); with a loaded value the shortcut would accept what the type just rejected.
    ad2 = ctx.func("_typehints:adapt_typehints")
    sc_if = [n for n in ad2.body if isinstance(n, ast.If) and "default" in {x.id for x in ast.walk(n.test) if isinstance(x, ast.Name)} and any(isinstance(b, ast.Return) for b in n.body)]
    ctx.need(sc_if, "adapt_typehints: equals-default early return")
    n_def = 0
    for fq, fn in ctx.repo.all_funcs():
        for c in calls_in(fn):
            if not (isinstance(c.func, ast.Name) and c.func.id == "adapt_typehints"):
                continue
            from .srcmodel import splat_keywords as _splat

            mode = {**_splat(c), **{k.arg: k.value for k in c.keywords if k.arg}}
            dkv = mode.get("default")
            if dkv is None or (isinstance(dkv, ast.Constant) and dkv.value is None):
                continue
            n_def += 1
            if any(isinstance(mode.get(m), ast.Constant) and mode[m].value is True for m in ("serialize", "instantiate_classes")):
                ctx.oblige("C02.d", True, c, "serialising / instantiating call: the value was validated before", fn=fn)
                continue
            a0 = c.args[0] if c.args else None
            ok = isinstance(a0, ast.Name) and any(pol and ast.unparse(t).replace(" ", "") == f"isinstance({a0.id},str)" for t, pol in guard_chain(c, stop=fn))
            ctx.oblige(
                "C02.d",
                ok,
                c,
                f"a declared default is passed to a parsing adaptation only for a text value (isinstance({a0.id}, str))" if ok else "a parsing adaptation is given the declared default for a value that need not be text: a bool / float that compares equal to the default (True == 1, 1.0 == 1) is returned as accepted although the declared type rejects it",
                fn=fn,
            )
    ctx.floor("C02.d-default-calls", n_def, 3)

    # ---------------- C02.e every type accepted at declaration has an arm ----------------------------------
    # add_argument accepts a hint whose origin is in root_types; adapt_typehints dispatches on tables of origins.
    # A root type no arm tests for falls out of the if/elif chain and its values are returned UNCHECKED.
    from .shared_rules import origin_table
    from .srcmodel import dotted as _dotted

    chain = next((n for n in ad2.body if isinstance(n, ast.If) and any(isinstance(c, ast.Compare) and isinstance(c.left, ast.Name) and c.left.id == ad2.args.args[1].arg and isinstance(c.ops[0], ast.Eq) and _dotted(c.comparators[0]) == "Any" for c in ast.walk(n.test))), None)
    ctx.need(chain is not None, "adapt_typehints: the if/elif chain starting at `typehint == Any`")
    # the dispatch variables: the `typehint` parameter and the local(s) holding its origin
    th = ad2.args.args[1].arg
    disp = {th} | {s.targets[0].id for s in walk_local(ad2) if isinstance(s, ast.Assign) and isinstance(s.targets[0], ast.Name) and any(isinstance(c, ast.Call) and call_leaf(c) == "get_typehint_origin" and c.args and isinstance(c.args[0], ast.Name) and c.args[0].id == th for c in ast.walk(s.value))}
    ctx.need(len(disp) >= 2, "adapt_typehints: local holding get_typehint_origin(typehint)")
    handled: Set[str] = set()
    n_arms = 0
    node_ = chain
    while node_ is not None:
        n_arms += 1
        for c in [x for x in ast.walk(node_.test) if isinstance(x, ast.Compare) and len(x.ops) == 1 and isinstance(x.left, ast.Name) and x.left.id in disp]:
            comp = c.comparators[0]
            if isinstance(c.ops[0], (ast.Eq, ast.Is)):
                handled.add(_dotted(comp) or "?")
            elif isinstance(c.ops[0], ast.In):
                if isinstance(comp, ast.Name):
                    handled |= origin_table(ctx.repo, comp.id)
                elif isinstance(comp, (ast.Set, ast.Tuple, ast.List)):
                    handled |= {_dotted(e) or "?" for e in comp.elts}
        node_ = node_.orelse[0] if len(node_.orelse) == 1 and isinstance(node_.orelse[0], ast.If) else None
    roots_ = origin_table(ctx.repo, "root_types")
    ROOT_ELSEWHERE = {"Unpack": "expanded into parameters at signature level (never reaches adapt_typehints as an origin)"}
    left = sorted(roots_ - handled - set(ROOT_ELSEWHERE))
    ctx.floor("C02.e-arms", n_arms, 12)
    ctx.oblige(
        "C02.e",
        not left,
        chain,
        f"all {len(roots_)} root types accepted at declaration are tested for by one of the {n_arms} arms of adapt_typehints" if not left else f"root type(s) {left} are accepted at declaration but no arm of adapt_typehints tests for them: their values fall through the chain and are returned unchecked and unconverted (anything is accepted)",
        fn=ad2,
        construct="root types have arms",
    )

    # the hint an action validates against is the one that is left after unsupported Union members were discarded:
    # `self._typehint = <hint>` is not followed by another assignment of <hint>
    ati = ctx.func("_typehints:ActionTypeHint.__init__")
    gati = ctx.cfg(ati)
    th_stores = [s_ for s_ in walk_local(ati) if isinstance(s_, ast.Assign) and isinstance(s_.targets[0], ast.Attribute) and s_.targets[0].attr == "_typehint" and isinstance(s_.value, ast.Name)]
    ctx.need(th_stores, "ActionTypeHint.__init__: self._typehint = typehint")
    for s_ in th_stores:
        v = s_.value.id
        redefs = [d_ for d_ in walk_local(ati) if isinstance(d_, ast.Assign) and any(isinstance(t, ast.Name) and t.id == v for t in d_.targets)]
        later = [d_ for d_ in redefs if gati.can_reach(gati.cn(s_), gati.cn(d_))]
        ok = not later
        ctx.oblige("C02.e", ok, later[0] if later else s_, f"`self._typehint` is the final value of `{v}`" if ok else f"`{v}` is reassigned ({src(later[0], 50)}) after it was stored in self._typehint: the discarded (unsupported) Union members stay in the stored hint, no arm of adapt_typehints handles them and such a member ACCEPTS ANY VALUE unchanged - Union[int, Deque[int]] accepts 'abc', and the result depends on the member order", fn=ati, construct="stored hint is the filtered hint")

    # ---------------- C02.f hints reach the adapter as declared ------------------------------------------------------
    # (1) names that exist in both typing and typing_extensions are taken from typing_extensions whenever it is there:
    #     the shadow capture (_capture_typing_extension_shadows) only ADDS the typing variant when the primary one is
    #     typing_extensions' - the other way round typing_extensions' TypedDict metaclass is missing from the tables
    #     and such TypedDicts are accepted unchecked
    from .util import guard_atoms

    tei = ctx.func("_optionals:typing_extensions_import")
    te_rets = [r for r in walk_local(tei) if isinstance(r, ast.Return) and "typing_extensions" in ast.unparse(r.value)]
    ctx.need(te_rets, "typing_extensions_import: return getattr(__import__('typing_extensions'), name, ...)")
    for r in te_rets:
        atoms = guard_atoms(r, stop=tei)
        ok = len(atoms) == 1 and atoms[0][1] and isinstance(atoms[0][0], ast.Name) and "typing_extensions" in atoms[0][0].id
        ctx.oblige("C02.f", ok, r, "typing_extensions' object is used whenever typing_extensions is available" if ok else f"typing_extensions' object is only used under {[ast.unparse(t) for t, _ in atoms]}: with the typing variant as primary the typing_extensions variant of _TypedDictMeta is in no table - a typing_extensions.TypedDict value is accepted without any key or type check", fn=tei)
    # (1') the shadow capture only ADDS typing's variant of a name when the module's own variable holds
    #      typing_extensions' variant: a name that the module defines itself and registers for capture must be defined
    #      through typing_extensions_import of the SAME name (otherwise the typing_extensions variant is in no table:
    #      a typing_extensions.TypedDict is then validated as a plain dict - C02-3B)
    thm = ctx.repo.mod("_typehints")
    mod_assigns = {}
    for s_ in thm.tree.body:
        if isinstance(s_, ast.Assign) and len(s_.targets) == 1 and isinstance(s_.targets[0], ast.Name):
            mod_assigns.setdefault(s_.targets[0].id, []).append(s_)
    caps = [s_.value for s_ in thm.tree.body if isinstance(s_, ast.Expr) and isinstance(s_.value, ast.Call) and call_leaf(s_.value) == "_capture_typing_extension_shadows" and s_.value.args and isinstance(s_.value.args[0], ast.Constant)]
    ctx.floor("C02.f-shadow-captures", len(caps), 4)
    for c in caps:
        nm = c.args[0].value
        for d_ in mod_assigns.get(nm, []):
            v_ = d_.value
            ok = isinstance(v_, ast.Call) and call_leaf(v_) == "typing_extensions_import" and v_.args and isinstance(v_.args[0], ast.Constant) and v_.args[0].value == nm
            ctx.oblige("C02.f", ok, None, f"`{nm}` is taken from typing_extensions when available, so the capture can add typing's variant" if ok else f"`{nm} = {ast.unparse(v_)[:50]}` is not typing_extensions' `{nm}`, but _capture_typing_extension_shadows('{nm}', ...) only adds typing's variant next to a typing_extensions primary: the typing_extensions variant is in no table - a typing_extensions.TypedDict is validated as a plain dict (any keys, any value types accepted)", site=f"_typehints:<module> :: {nm} = {ast.unparse(v_)[:60]}", construct=f"{nm} primary variant", function="_typehints:<module>")

    # (2) a hint rebuilt after resolving forward references keeps EVERY argument: one append per argument, unconditional
    rfr = ctx.func("_postponed_annotations:resolve_forward_refs")
    from .util import nested_defs as _nd

    rs_ = _nd(rfr).get("resolve_subtypes_forward_refs")
    ctx.need(rs_, "resolve_forward_refs.resolve_subtypes_forward_refs")
    for lp in [x for x in walk_local(rs_) if isinstance(x, ast.For) and "__args__" in ast.unparse(x.iter)]:
        apps = [c for c in calls_in(lp) if call_leaf(c) == "append"]
        ok = len(apps) == 1 and not guard_chain(apps[0], stop=lp) and any(isinstance(s, ast.Expr) and s.value is apps[0] for s in lp.body)
        ctx.oblige("C02.f", ok, apps[0] if apps else lp, "every argument of the hint is carried over into the rebuilt hint" if ok else "the append that collects the arguments of the rebuilt hint is conditional: resolved forward references are dropped - Tuple['Color', int] becomes tuple[int], so [5] is accepted and ['RED', 5] rejected", fn=rs_)

    # ---------------- C02.g: support is decided for the whole hint, and for both TypedDict providers ----------------------
    # is_supported_typehint(full=True) is what add_argument asks; the per-subtype question must be asked `full` too,
    # otherwise an unsupported leaf two levels down (Dict[str, List[NewType]]) is declared supported and adapt_typehints
    # passes anything at that position through unchanged
    ist = ctx.func("_typehints:ActionTypeHint.is_supported_typehint")
    fullp = next((a_.arg for a_ in ist.args.args if a_.arg == "full"), None)
    ctx.need(fullp, "is_supported_typehint(typehint, full=False)")
    recs_ = [c for c in calls_in(ist) if call_leaf(c) == "is_supported_typehint"]
    ctx.floor("C02.g-recursion", len(recs_), 1)
    for c in recs_:
        kw_ = {k.arg: k.value for k in c.keywords if k.arg}
        fv = kw_.get("full", c.args[1] if len(c.args) > 1 else None)
        ok = fv is not None and ((isinstance(fv, ast.Constant) and fv.value is True) or (isinstance(fv, ast.Name) and fv.id == fullp))
        ctx.oblige("C02.g", ok, c, "sub-types are asked for full support as well" if ok else "the recursion of is_supported_typehint asks only for shallow support of the sub-type: a hint with an unsupported leaf at depth two or more is accepted by add_argument, and every value at that position is accepted unchanged", fn=ist)
    gto = ctx.func("_util:get_typehint_origin")
    metas = set()
    for n_ in ast.walk(gto):
        cs = const_str(n_) if isinstance(n_, ast.Constant) else None
        if cs and cs.endswith("_TypedDictMeta"):
            metas.add(cs)
    ok = {"typing._TypedDictMeta", "typing_extensions._TypedDictMeta"} <= metas
    ctx.oblige("C02.g", ok, gto, "TypedDict classes of both providers (typing, typing_extensions) are recognised as mappings" if ok else f"get_typehint_origin recognises only {sorted(metas)}: a TypedDict from the other provider is treated as an ordinary class and every conforming dict is rejected", fn=gto, construct="TypedDict metaclasses")

    # ---------------- C02.h: after an order-insensitive Optional test no member is taken by position --------------------
    # is_optional(T, X) holds for Union[X, None] AND Union[None, X]; code under that guard that reads T.__args__[0] gets
    # NoneType for the second spelling (Union[None, Color]: AttributeError at add_argument, while Optional[Color] works)
    n_opt = 0
    for fq_, fn_ in ctx.repo.all_funcs():
        for sub in [x for x in ast.walk(fn_) if isinstance(x, ast.Subscript) and isinstance(x.value, ast.Attribute) and x.value.attr == "__args__" and isinstance(x.slice, ast.Constant) and isinstance(x.slice.value, int)]:
            subj = ast.unparse(x.value.value) if (x := sub) is not None else ""
            from .util import guard_atoms as _ga2

            under = [t for t, pol in _ga2(sub, stop=fn_) if pol and isinstance(t, ast.Call) and call_leaf(t) == "is_optional" and t.args and ast.unparse(t.args[0]) == subj]
            if under:
                n_opt += 1
                ctx.oblige("C02.h", False, sub, f"`{ast.unparse(sub)}` picks a Union member by position under `{ast.unparse(under[0])}`, which holds for both member orders: for Union[None, X] the member picked is NoneType - the declaration fails (or the wrong member is used) for one spelling of the same type", fn=fn_)
    io_ = ctx.func("_typehints:is_optional")
    order_free = any(isinstance(c, ast.Call) and call_leaf(c) == "any" for c in ast.walk(io_)) and not any(isinstance(x, ast.Subscript) and isinstance(x.value, ast.Attribute) and x.value.attr == "__args__" and isinstance(x.slice, ast.Constant) for x in ast.walk(io_))
    ctx.oblige("C02.h", order_free, io_, "is_optional does not depend on the position of None among the members" if order_free else "is_optional reads a Union member by position", fn=io_, construct="is_optional order-free")

    # ---------------- C02.g (the table of TypedDict metaclasses starts from the imported metaclass) ---------------------------
    th_mod = ctx.repo.mod("_typehints")
    tdm = [st for st in th_mod.tree.body if isinstance(st, (ast.Assign, ast.AnnAssign)) and any(isinstance(t, ast.Name) and t.id == "typed_dict_meta_types" for t in (st.targets if isinstance(st, ast.Assign) else [st.target]))]
    ctx.need(len(tdm) == 1 and tdm[0].value is not None, "module-level typed_dict_meta_types table in _typehints")
    names_t = {x.id for x in ast.walk(tdm[0].value) if isinstance(x, ast.Name)}
    ok = "_TypedDictMeta" in names_t and not any(isinstance(x, ast.Call) and call_leaf(x) == "TypedDict" for x in ast.walk(tdm[0].value))
    ctx.oblige("C02.g", ok, tdm[0], "the TypedDict metaclass table is built from the metaclass imported through typing_extensions_import (plus the captured shadows)" if ok else f"`{ast.unparse(tdm[0])[:90]}` derives the TypedDict metaclass from typing's own TypedDict: the metaclass of typing_extensions.TypedDict (a different class on this Python) is not in the table, such a hint is treated as a bare dict - foreign keys accepted, required keys not enforced", function="_typehints:<module>", site=f"_typehints:<module> :: {ast.unparse(tdm[0])[:80]}", construct="typed_dict_meta_types table")

    return ctx.finish(
        explanation=(
            "(a) The Union arm of adapt_typehints is abstracted to a finite automaton over per-iteration symbols V (member accepted, break), O (string fallback appended), "
            "E (member's exception appended), read off the CFG of the loop; the selection expression after the loop is evaluated on every word up to length 4 (sufficient for "
            "first/last/first-non-E/last-non-E selections): it must never denote an E element when an accepted value exists. (b) mutation summary of adapt_typehints(val). "
            "(c) dominance: every parse return passes validate. Decides the two mechanisms that make acceptance order-dependent and the validate-before-return wiring, not conformance of every accepted value."
        ),
        rule_text="one obligation per automaton query / wiring site; words of the loop language are enumerated exhaustively up to the stated length",
    )
