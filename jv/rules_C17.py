"""C17 - exactly one subcommand is selected and only its settings survive.

The selection rule is written down once, in _ActionSubCommands.get_subcommands /
handle_subcommands / __call__; its clauses are visible in the shape of that code.
Decided clauses (each a necessary condition of the statement, named here):
  C17.a  the chosen name is stored under the subcommand key: unconditionally on the
         argv path (__call__), and together with the choice on the fallback path
  C17.b  priority: the explicit key wins; the fallback (first subcommand for which
         settings were given, in declaration order) is only reachable when the
         explicit key is absent or None
  C17.c  exclusivity: every other subcommand's section is deleted - the deletion
         loop ranges over all keys with settings except the chosen one and deletes
         unconditionally, through the level's prefix
  C17.d  every level: handle_subcommands recurses whenever the chosen sub-parser has
         subcommands of its own, with the prefix extended by the chosen name; the
         argv path parses the rest of the command line with the chosen sub-parser
  C17.e  complete settings: the sub-parser's defaults / environment are merged
         *under* the given values of the section (given values win) and stored back
  C17.f  a required subcommand that cannot be determined, or a name outside the
         choices, raises (shared with C06.d)
  C17.g  parser-wide settings that select a level's sources (default_env, parser_mode)
         are pushed down through the property, so every level receives them
  C17.h  configurations folded in before the deciding source is known (default config
         files, --cfg items) do not pick a subcommand
Not decided: the resulting namespace for all subcommand trees and input mixes (a
function of configuration contents); interaction with default config files.
"""

from __future__ import annotations

import ast
from typing import List, Optional

from .report import Ctx
from .srcmodel import AnalysisError, call_leaf, calls_in, const_str, contains, dotted, src, walk_local
from .util import guard_chain, root_name

NX = {"e"}
GS = "_actions:_ActionSubCommands.get_subcommands"
HS = "_actions:_ActionSubCommands.handle_subcommands"
SC = "_actions:_ActionSubCommands.__call__"


def _names(e: ast.AST) -> set:
    return {n.id for n in ast.walk(e) if isinstance(n, ast.Name)}


def _is_prefixed(fn: ast.AST, e: ast.AST, depth: int = 0) -> bool:
    if isinstance(e, ast.BinOp) and isinstance(e.op, ast.Add):
        return (isinstance(e.left, ast.Name) and e.left.id == "prefix") or _is_prefixed(fn, e.left, depth)
    if isinstance(e, ast.Name) and depth < 3:
        defs = [s for s in walk_local(fn) if isinstance(s, ast.Assign) and any(isinstance(t, ast.Name) and t.id == e.id for t in s.targets)]
        return bool(defs) and all(_is_prefixed(fn, s.value, depth + 1) for s in defs)
    return False




def _name_given(v: ast.AST) -> bool:
    """`<local> is not None` or a bare `<local>` (truthiness of the chosen name)."""
    if isinstance(v, ast.Name):
        return True
    return isinstance(v, ast.Compare) and isinstance(v.left, ast.Name) and len(v.ops) == 1 and isinstance(v.ops[0], ast.IsNot) and isinstance(v.comparators[0], ast.Constant) and v.comparators[0].value is None

def _decision_asked(t: ast.AST) -> bool:
    """Guard under which get_subcommands must come to a decision: `fail_no_subcommand`, possibly widened by
    `subcommand is not None` (a name that was given is always checked)."""
    if isinstance(t, ast.BoolOp) and isinstance(t.op, ast.Or):
        return all(ast.unparse(v) == "fail_no_subcommand" or _name_given(v) for v in t.values) and any(ast.unparse(v) == "fail_no_subcommand" for v in t.values)
    return ast.unparse(t) == "fail_no_subcommand"

from .srcmodel import ancestors as _anc17


def run(ctx: Ctx) -> int:
    gs = ctx.func(GS)
    hs = ctx.func(HS)
    sc = ctx.func(SC)
    g = ctx.cfg(gs)
    for fn, ref in ((gs, GS), (hs, HS)):
        params = [a.arg for a in fn.args.args]
        ctx.need("cfg" in params and "prefix" in params, f"{ref}(.., cfg, .., prefix, ..)")

    # ---- identify the roles in get_subcommands --------------------------------------------------------
    # dest: local defined as prefix + action.dest ; S: the selection variable (assigned from cfg[dest])
    dest_defs = [s for s in walk_local(gs) if isinstance(s, ast.Assign) and len(s.targets) == 1 and isinstance(s.targets[0], ast.Name) and _is_prefixed(gs, s.value) and isinstance(s.value, ast.BinOp) and isinstance(s.value.right, ast.Attribute) and s.value.right.attr == "dest"]
    ctx.need(len(dest_defs) == 1, "get_subcommands: <dest> = prefix + action.dest")
    dest = dest_defs[0].targets[0].id
    explicit = [
        s
        for s in walk_local(gs)
        if isinstance(s, ast.Assign) and isinstance(s.value, ast.Subscript) and isinstance(s.value.value, ast.Name) and s.value.value.id == "cfg" and isinstance(s.value.slice, ast.Name) and s.value.slice.id == dest and isinstance(s.targets[0], ast.Name)
    ]
    ctx.need(len(explicit) == 1, "get_subcommands: <subcommand> = cfg[<dest>]")
    sel = explicit[0].targets[0].id
    # K: the list of subcommands for which settings were given
    kdefs = [s for s in walk_local(gs) if isinstance(s, ast.Assign) and isinstance(s.value, ast.ListComp) and any(call_leaf(c) == "isinstance" for c in calls_in(s.value)) and "choices" in ast.unparse(s.value.generators[0].iter)]
    ctx.need(len(kdefs) == 1 and isinstance(kdefs[0].targets[0], ast.Name), "get_subcommands: <keys> = [k for k in action.choices... if isinstance(cfg.get(prefix + k), Namespace)]")
    keys = kdefs[0].targets[0].id
    kc = kdefs[0].value

    # ---------------- C17.b priority ---------------------------------------------------------------------
    gch = guard_chain(explicit[0], stop=gs)
    ok = len(gch) == 1 and gch[0][1] and dest in _names(gch[0][0]) and "cfg" in _names(gch[0][0])
    explicit_test = gch[0][0] if gch else None
    ctx.oblige("C17.b", ok, explicit[0], f"the explicit `{dest}` entry selects the subcommand whenever it is present" if ok else "the explicit subcommand key no longer selects under the plain presence test", fn=gs, construct="explicit key selects")
    fallback = [
        s
        for s in walk_local(gs)
        if isinstance(s, ast.Assign) and any(isinstance(t, ast.Name) and t.id == sel for t in s.targets) and isinstance(s.value, ast.Subscript) and isinstance(s.value.value, ast.Name) and s.value.value.id == keys
    ]
    ctx.need(len(fallback) == 1, f"get_subcommands: fallback <{sel}> = <{keys}>[i]")
    fb = fallback[0]
    idx = fb.value.slice
    first = isinstance(idx, ast.Constant) and idx.value == 0
    only_when_absent = explicit_test is not None and any(t is explicit_test and pol is False for t, pol in guard_chain(fb, stop=gs))
    ok = first and only_when_absent
    ctx.oblige(
        "C17.b",
        ok,
        fb,
        "the fallback takes the first subcommand with settings and is only reachable when the explicit key is absent or None" if ok else ("the fallback does not take the first subcommand with settings" if not first else "the fallback can override an explicitly named subcommand (it is no longer on the else-side of the explicit test)"),
        fn=gs,
        construct="fallback first-with-settings",
    )
    # declaration order, no re-ordering, settings test through the prefix
    gen = kc.generators[0]
    order_ok = not any(call_leaf(c) in ("sorted", "reversed", "set") for c in calls_in(gen.iter)) and len(kc.generators) == 1 and isinstance(kc.elt, ast.Name) and isinstance(gen.target, ast.Name) and kc.elt.id == gen.target.id
    tests = gen.ifs
    t_ok = len(tests) == 1 and isinstance(tests[0], ast.Call) and call_leaf(tests[0]) == "isinstance" and len(tests[0].args) == 2 and dotted(tests[0].args[1]) == "Namespace"
    if t_ok:
        inner = tests[0].args[0]
        t_ok = isinstance(inner, ast.Call) and call_leaf(inner) in ("get", "__getitem__") and root_name(inner.func) == "cfg" and inner.args and _is_prefixed(gs, inner.args[0])
    ctx.oblige("C17.b", order_ok and t_ok, kdefs[0], "candidates are the declared subcommands, in declaration order, for which the configuration holds a section at this level" if order_ok and t_ok else "the candidate list of subcommands-with-settings changed (order, filter, or prefix)", fn=gs, construct="candidate list")
    # no later assignment can replace the selection with something else
    others = [s for s in walk_local(gs) if isinstance(s, ast.Assign) and any(isinstance(t, ast.Name) and t.id == sel for t in s.targets) and s not in (explicit[0], fb) and not (isinstance(s.value, ast.Constant) and s.value.value is None)]
    ctx.oblige("C17.b", not others, others[0] if others else gs, f"`{sel}` is only ever the explicit name or the first candidate" if not others else f"`{sel}` is also assigned by {src(others[0], 60)}", fn=gs, construct="selection sources")

    # ---------------- C17.a the name is stored -----------------------------------------------------------
    stores_fb = [t for t in fb.targets if isinstance(t, ast.Subscript) and isinstance(t.value, ast.Name) and t.value.id == "cfg" and isinstance(t.slice, ast.Name) and t.slice.id == dest]
    ok = bool(stores_fb)
    if not ok:
        later = [s for s in walk_local(gs) if isinstance(s, ast.Assign) and any(isinstance(t, ast.Subscript) and root_name(t.value) == "cfg" and isinstance(t.slice, ast.Name) and t.slice.id == dest for t in s.targets) and isinstance(s.value, ast.Name) and s.value.id == sel]
        rets = [r for r in walk_local(gs) if isinstance(r, ast.Return)]
        ok = bool(later) and g.must_pass(g.cn(later), g.cn(fb), g.cn(rets), exclude_labels=NX, strict=True)
    ctx.oblige("C17.a", ok, fb, f"a subcommand chosen by fallback is stored under `{dest}` together with the choice" if ok else "a subcommand chosen by fallback is not stored under the subcommand key: the result does not say which one was selected", fn=gs, construct="fallback stores the name")
    gsc = ctx.cfg(sc)
    vals = sc.args.args[3].arg if len(sc.args.args) > 3 else None
    ctx.need(vals, "_ActionSubCommands.__call__(self, parser, namespace, values, ...)")
    nsp = sc.args.args[2].arg
    name_defs = [s for s in sc.body if isinstance(s, ast.Assign) and isinstance(s.value, ast.Subscript) and isinstance(s.value.value, ast.Name) and s.value.value.id == vals and isinstance(s.value.slice, ast.Constant) and s.value.slice.value == 0 and isinstance(s.targets[0], ast.Name)]
    ctx.need(len(name_defs) == 1, "__call__: <subcommand> = values[0]")
    nm = name_defs[0].targets[0].id
    st = [s for s in sc.body if isinstance(s, ast.Assign) and any(isinstance(t, ast.Subscript) and isinstance(t.value, ast.Name) and t.value.id == nsp and dotted(t.slice) == "self.dest" for t in s.targets) and isinstance(s.value, ast.Name) and s.value.id == nm]
    ok = bool(st)
    ctx.oblige("C17.a", ok, st[0] if st else sc, "the argv path stores the chosen name under the subcommand key unconditionally" if ok else "the argv path no longer stores the chosen subcommand's name unconditionally", fn=sc, construct="argv stores the name")

    # what is handed back: once a subcommand is chosen the list of names is exactly [chosen] - callers complete and
    # check (required arguments!) the sub-parsers in that list
    from .util import guard_atoms

    narrow = [s for s in walk_local(gs) if isinstance(s, ast.Assign) and any(isinstance(t, ast.Name) and t.id == keys for t in s.targets) and isinstance(s.value, ast.List) and len(s.value.elts) == 1 and isinstance(s.value.elts[0], ast.Name) and s.value.elts[0].id == sel]
    ok = len(narrow) == 1
    if ok:
        atoms = guard_atoms(narrow[0], stop=gs)
        ok = bool(atoms) and all(isinstance(t, ast.Name) and t.id == sel and pol for t, pol in atoms)
    ctx.oblige(
        "C17.a",
        ok,
        narrow[0] if narrow else gs,
        f"whenever a subcommand was chosen, the names handed back are exactly [`{sel}`]" if ok else f"`{keys} = [{sel}]` is missing or depends on more than `{sel}` being set: a subcommand chosen by name alone (no section of its own) is not handed back, so its defaults are not merged and its required arguments are not checked",
        fn=gs,
        construct="returned names are the chosen one",
    )

    # ---------------- C17.c exclusivity ------------------------------------------------------------------
    dels = [s for s in walk_local(gs) if isinstance(s, ast.Delete) and any(isinstance(t, ast.Subscript) and isinstance(t.value, ast.Name) and t.value.id == "cfg" for t in s.targets)]
    dels += [stmt for stmt in walk_local(gs) if isinstance(stmt, ast.Expr) and isinstance(stmt.value, ast.Call) and call_leaf(stmt.value) in ("pop", "__delitem__") and root_name(stmt.value.func) == "cfg"]
    loops = [lp for lp in walk_local(gs) if isinstance(lp, ast.For) and any(contains(lp, d) for d in dels)]
    ok = len(dels) == 1 and len(loops) == 1
    why = "the removal of the other subcommands' sections vanished or changed shape"
    if ok:
        lp, d = loops[0], dels[0]
        it = lp.iter
        # iteration domain: all of <keys> except the chosen one
        dom_ok = False
        if isinstance(it, (ast.ListComp, ast.GeneratorExp)) and len(it.generators) == 1:
            gn = it.generators[0]
            filt = gn.ifs
            dom_ok = (
                isinstance(gn.iter, ast.Name)
                and gn.iter.id == keys
                and isinstance(it.elt, ast.Name)
                and isinstance(gn.target, ast.Name)
                and it.elt.id == gn.target.id
                and len(filt) == 1
                and isinstance(filt[0], ast.Compare)
                and len(filt[0].ops) == 1
                and isinstance(filt[0].ops[0], ast.NotEq)
                and {getattr(filt[0].left, "id", None), getattr(filt[0].comparators[0], "id", None)} == {gn.target.id, sel}
            )
        key_expr = d.targets[0].slice if isinstance(d, ast.Delete) else d.value.args[0]
        lv = lp.target.id if isinstance(lp.target, ast.Name) else None
        pref_ok = isinstance(key_expr, ast.BinOp) and isinstance(key_expr.op, ast.Add) and isinstance(key_expr.left, ast.Name) and key_expr.left.id == "prefix" and isinstance(key_expr.right, ast.Name) and key_expr.right.id == lv
        uncond = not guard_chain(d, stop=lp) and not [x for x in walk_local(lp) if isinstance(x, (ast.Break, ast.Continue))]
        outer = guard_chain(lp, stop=gs)
        outer_ok = all(pol and _names(t) <= {sel, keys, "len"} for t, pol in outer)
        ok = dom_ok and pref_ok and uncond and outer_ok
        why = (
            "the deletion loop does not range over every candidate except the chosen one"
            if not dom_ok
            else "the deleted key is not `prefix + <other subcommand>`"
            if not pref_ok
            else "the deletion inside the loop is conditional"
            if not uncond
            else f"the deletion loop is additionally guarded by {[ast.unparse(t) for t, _ in outer]}"
        )
    ctx.oblige("C17.c", ok, dels[0] if dels else gs, "once a subcommand is chosen, the section of every other subcommand with settings is deleted at this level" if ok else why + ": settings of a subcommand that was not selected survive in the result", fn=gs, construct="others deleted")
    # the removal can only be skipped under the not_single_subcommand context (while config files are being applied)
    rs = [s for s in walk_local(gs) if isinstance(s, ast.Assign) and isinstance(s.value, ast.Call) and call_leaf(s.value) == "get" and dotted(s.value.func.value) == "single_subcommand"]
    fb_g = [t for t, pol in guard_chain(fb, stop=gs) if pol]
    rs_name = rs[0].targets[0].id if rs and isinstance(rs[0].targets[0], ast.Name) else None
    ok = bool(rs) and any({"fail_no_subcommand", rs_name} <= _names(t) for t in fb_g)
    ctx.oblige("C17.c", ok, fb, "the fallback (and with it the removal) applies whenever the caller asks for a decision or single-subcommand mode is on" if ok else "the fallback no longer applies under fail_no_subcommand / single-subcommand mode", fn=gs, construct="fallback condition")

    # ---------------- C17.d every level --------------------------------------------------------------------
    gh = ctx.cfg(hs)
    rec = [c for c in calls_in(hs) if call_leaf(c) == "handle_subcommands"]
    lps = [lp for lp in walk_local(hs) if isinstance(lp, ast.For) and any(contains(lp, c) for c in rec)]
    ctx.need(len(rec) == 1 and len(lps) == 1, "handle_subcommands: one recursive call inside the loop over the selected subcommands")
    lp = lps[0]
    tg = [e.id for e in lp.target.elts] if isinstance(lp.target, ast.Tuple) and all(isinstance(e, ast.Name) for e in lp.target.elts) else []
    ctx.need(len(tg) == 2 and isinstance(lp.iter, ast.Call) and call_leaf(lp.iter) == "zip", "handle_subcommands: for <name>, <parser> in zip(...)")
    nvar, pvar = tg
    gch = guard_chain(rec[0], stop=lp)
    ok_g = len(gch) == 1 and gch[0][1] and "_subparsers" in ast.unparse(gch[0][0]) and _names(gch[0][0]) <= {pvar}
    no_skip = not [x for x in walk_local(lp) if isinstance(x, (ast.Break, ast.Continue, ast.Return))]
    # prefix argument: <key> + "." with key = prefix + name
    pa = rec[0].args[4] if len(rec[0].args) > 4 else next((k.value for k in rec[0].keywords if k.arg == "prefix"), None)
    ok_p = isinstance(pa, ast.BinOp) and isinstance(pa.op, ast.Add) and const_str(pa.right) == "." and _is_prefixed(hs, pa.left) and (nvar in _names(pa.left) or any(nvar in _names(s.value) for s in walk_local(hs) if isinstance(s, ast.Assign) and isinstance(pa.left, ast.Name) and any(isinstance(t, ast.Name) and t.id == pa.left.id for t in s.targets)))
    ok_a = len(rec[0].args) >= 2 and isinstance(rec[0].args[0], ast.Name) and rec[0].args[0].id == pvar and isinstance(rec[0].args[1], ast.Name) and rec[0].args[1].id == "cfg"
    # every mode parameter (env, defaults, fail_no_subcommand, ...) reaches the nested level unchanged
    hparams = [a.arg for a in hs.args.args]
    bound = {}
    for i, a in enumerate(rec[0].args):
        if i < len(hparams):
            bound[hparams[i]] = a
    for k in rec[0].keywords:
        if k.arg:
            bound[k.arg] = k.value
    dropped = [p_ for p_ in hparams[2:] if p_ != "prefix" and not (isinstance(bound.get(p_), ast.Name) and bound[p_].id == p_)]
    ok_pass = not dropped
    ok = ok_g and no_skip and ok_p and ok_a and ok_pass
    ctx.oblige(
        "C17.d",
        ok,
        rec[0],
        "handle_subcommands descends into the chosen sub-parser whenever it has subcommands, on the same configuration, with the prefix extended by the chosen name" if ok else ("the descent into nested subcommand levels changed (guard, early exit from the loop, prefix or arguments): deeper levels are not selected / completed" if ok_pass else f"the nested level does not receive the caller's {dropped}: below the first level the selection runs with the parameter's default instead (a decision is forced / sources are switched although the caller said otherwise)"),
        fn=hs,
        construct="recursion into nested levels",
    )
    # the argv path parses the remaining arguments with the chosen sub-parser and stores the result under its name
    sub_parse = [c for c in calls_in(sc) if call_leaf(c) in ("parse_args", "parse_known_args")]
    ok = len(sub_parse) == 1
    if ok:
        c = sub_parse[0]
        stmt = [s for s in walk_local(sc) if isinstance(s, ast.Assign) and contains(s, c)]
        look = [s for s in walk_local(sc) if isinstance(s, ast.Assign) and isinstance(s.value, ast.Subscript) and "_name_parser_map" in ast.unparse(s.value.value) and isinstance(s.value.slice, ast.Name) and s.value.slice.id == nm]
        ok = bool(stmt) and bool(look) and root_name(c.func) == look[0].targets[0].id and any(isinstance(t, ast.Subscript) and root_name(t.value) == nsp and isinstance(t.slice, ast.Name) and t.slice.id == nm for t in stmt[0].targets)
        rest = [s for s in sc.body if isinstance(s, ast.Assign) and isinstance(s.value, ast.Subscript) and isinstance(s.value.value, ast.Name) and s.value.value.id == vals and isinstance(s.value.slice, ast.Slice)]
        ok = ok and bool(rest) and c.args and isinstance(c.args[0], ast.Name) and c.args[0].id == rest[0].targets[0].id
        gch2 = guard_chain(c, stop=sc)
        ok = ok and len(gch2) == 1 and gch2[0][1] and "_name_parser_map" in ast.unparse(gch2[0][0])
    ctx.oblige("C17.d", ok, sub_parse[0] if sub_parse else sc, "the argv path parses the rest of the command line with the chosen sub-parser and stores the result under the chosen name" if ok else "the argv path no longer parses the remaining arguments with the chosen sub-parser into its own section", fn=sc, construct="argv sub-parse")

    # ---------------- C17.e complete settings ---------------------------------------------------------------
    merges = [c for c in calls_in(lp) if call_leaf(c) == "merge_config"]
    srcs = [s for s in walk_local(lp) if isinstance(s, ast.Assign) and isinstance(s.value, ast.Call) and call_leaf(s.value) in ("parse_env", "get_defaults") and root_name(s.value.func) == pvar and isinstance(s.targets[0], ast.Name)]
    ok = len(merges) == 1 and len(srcs) == 2 and len({s.targets[0].id for s in srcs}) == 1
    why = "handle_subcommands no longer merges the sub-parser's environment / defaults into the section"
    if ok:
        m = merges[0]
        sn = srcs[0].targets[0].id
        a0, a1 = (m.args + [None, None])[:2]
        given_first = isinstance(a0, ast.Call) and call_leaf(a0) == "get" and root_name(a0.func) == "cfg" and a0.args and _is_prefixed(hs, a0.args[0])
        base_second = isinstance(a1, ast.Name) and a1.id == sn
        stmt = [s for s in walk_local(lp) if isinstance(s, ast.Assign) and contains(s, m)]
        stored = bool(stmt) and any(isinstance(t, ast.Subscript) and root_name(t.value) == "cfg" and _is_prefixed(hs, t.slice) for t in stmt[0].targets)
        recv = root_name(m.func) == pvar
        gm = guard_chain(m, stop=lp)
        g_ok = len(gm) == 1 and gm[0][1] and _names(gm[0][0]) == {sn}
        by = {call_leaf(s.value): guard_chain(s, stop=lp) for s in srcs}
        env_ok = any(isinstance(t, ast.Name) and t.id == "env" and pol for t, pol in by.get("parse_env", []))
        def_ok = any(isinstance(t, ast.Name) and t.id == "defaults" and pol for t, pol in by.get("get_defaults", []))
        ok = given_first and base_second and stored and recv and g_ok and env_ok and def_ok
        why = (
            "the merge no longer lets the given values of the section win over the sub-parser's defaults / environment (argument order)"
            if not (given_first and base_second)
            else "the merged section is not stored back under the prefixed name"
            if not stored
            else "the merge is done by a parser other than the chosen sub-parser"
            if not recv
            else "the merge is skipped under an extra condition"
            if not g_ok
            else "environment / defaults of the sub-parser are taken under the wrong flag"
        )
    ctx.oblige("C17.e", ok, merges[0] if merges else hs, "the chosen section is completed with the sub-parser's environment (if env) or defaults (if defaults); the given values win and the result is stored back" if ok else why, fn=hs, construct="section completed")

    if len(srcs) == 2:
        from .util import guard_atoms as _ga17

        by_at = {call_leaf(s.value): _ga17(s, stop=lp) for s in srcs}
        env_first = all(isinstance(t, ast.Name) and t.id == "env" and pol for t, pol in by_at.get("parse_env", [(None, False)]))
        def_second = {(t.id, pol) for t, pol in by_at.get("get_defaults", []) if isinstance(t, ast.Name)} == {("env", False), ("defaults", True)}
        ok = env_first and def_second
        ctx.oblige("C17.e", ok, srcs[0], "the sub-parser's environment is read whenever env is on (it includes the defaults); its plain defaults only when env is off" if ok else "the env / defaults alternatives of handle_subcommands are tested in the wrong order: with env and defaults both on (the normal case) only the plain defaults of the sub-parser are merged - a sub-command chosen in a config file loses its APP_FIT__EPOCHS setting, while the same sub-command chosen on the command line keeps it", fn=hs, construct="env before defaults")
    rec_calls = [c for c in calls_in(lp) if call_leaf(c) == "handle_subcommands"]
    ctx.need(rec_calls, "handle_subcommands: recursion for inner subcommands")
    ghs = ctx.cfg(hs)
    store_nodes = ghs.cn([s for s in walk_local(lp) if isinstance(s, ast.Assign) and any(call_leaf(c) == "merge_config" for c in calls_in(s))]) + ghs.cn(srcs)
    src_nodes = ghs.cn(srcs)
    # inside one iteration: from the loop head, the recursion is reached only after the environment / defaults of
    # THIS level were looked at (the nested level reads what this level stored)
    heads = [t for (_, t, _l) in ghs.branch_edges(lp, "loop")]
    ctx.need(heads, "handle_subcommands: loop body entry")
    with_nodes = ghs.cn([w for w in walk_local(lp) if isinstance(w, ast.With) and any(x in srcs for x in ast.walk(w))])
    ok = bool(with_nodes) and ghs.must_pass(with_nodes, heads, ghs.cn(rec_calls))
    ctx.oblige("C17.e", ok, rec_calls[0], "inner subcommands are handled after this level's section was completed" if ok else "the recursion into inner subcommands runs before this level's environment / defaults were merged: an inner subcommand named only by APP_A__SUBCOMMAND or by the sub-parser's own default config file is not seen yet - the parse fails with 'a.subcommand ... not provided'", fn=hs, construct="this level before inner levels")
    # ... and after it was STORED: within one iteration the store of the completed section is not reachable from the recursion
    merge_stores = [s_ for s_ in walk_local(lp) if isinstance(s_, ast.Assign) and any(call_leaf(c) == "merge_config" for c in calls_in(s_))]
    loop_nodes = {a_ for (a_, _t, _l) in ghs.branch_edges(lp, "loop")}
    if merge_stores:
        after = ghs.reachable(ghs.cn(rec_calls), removed=loop_nodes, exclude_labels={"e"})
        ok = not (after & set(ghs.cn(merge_stores)))
        ctx.oblige("C17.e", ok, merge_stores[0], "the completed section is stored before the inner levels are handled" if ok else "the section completed with this level's environment / defaults is stored only after the recursion into the inner subcommands: the inner level looks into a section that does not yet hold what APP_A__SUBCOMMAND or the sub-parser's default config file say - the parse fails with 'not provided' or picks the wrong inner subcommand", fn=hs, construct="section stored before inner levels")

    # ---------------- C17.f required / unknown -----------------------------------------------------------------
    rz = [r for r in walk_local(gs) if isinstance(r, ast.Raise) and isinstance(r.exc, ast.Call) and call_leaf(r.exc) == "NSKeyError"]
    ok = bool(rz)
    if ok:
        pos: List[ast.AST] = []
        for t, pol in guard_chain(rz[0], stop=gs):
            if pol:
                pos += t.values if isinstance(t, ast.BoolOp) and isinstance(t.op, ast.And) else [t]
        extra = [ast.unparse(t) for t in pos if not ("_name_parser_map" in ast.unparse(t) or _decision_asked(t))]
        early = [r for r in walk_local(gs) if isinstance(r, ast.Return) and r.lineno < rz[0].lineno and any(_decision_asked(t) and pol for t, pol in guard_chain(r, stop=gs))]
        ok = not extra and any("_name_parser_map" in ast.unparse(t) for t in pos) and all(any("is None" in ast.unparse(t) and "_required" in ast.unparse(t) and pol for t, pol in guard_chain(r, stop=gs)) for r in early)
    ctx.oblige("C17.f", ok, rz[0] if rz else gs, "when a decision is asked for, a missing required subcommand or a name outside the choices raises; only 'nothing given, nothing required' returns without a subcommand" if ok else "a required subcommand that cannot be determined (or an unknown name) is no longer an error on every path", fn=gs, construct="required / unknown raises")

    # environment variable names: each subcommand level extends the prefix by the subcommand's NAME, which may hold a
    # dash (`dry-run`); the name looked up in the environment is built from the prefix with dashes replaced
    gev = ctx.func("_formatters:get_env_var")
    uses = [n_ for n_ in ast.walk(gev) if isinstance(n_, ast.Attribute) and n_.attr == "env_prefix" and isinstance(n_.ctx, ast.Load) and not isinstance(getattr(n_, "_jv_parent", None), ast.Call)]
    val_uses = [u for u in uses if not (isinstance(getattr(u, "_jv_parent", None), ast.Call) and call_leaf(getattr(u, "_jv_parent", None)) == "isinstance")]

    def _normalised(u) -> bool:
        p_ = getattr(u, "_jv_parent", None)
        if isinstance(p_, ast.Attribute) and p_.attr == "replace":
            c_ = getattr(p_, "_jv_parent", None)
            return isinstance(c_, ast.Call) and [const_str(a) for a in c_.args] == ["-", "_"]
        return False

    whole = [c for c in calls_in(gev) if call_leaf(c) == "replace" and [const_str(a) for a in c.args] == ["-", "_"] and isinstance(c.func.value, ast.Name)]
    ok = bool(val_uses) and (all(_normalised(u) for u in val_uses if isinstance(getattr(u, "_jv_parent", None), (ast.Attribute, ast.BinOp))) and any(_normalised(u) for u in val_uses) or bool(whole))
    ctx.oblige("C17.e", ok, val_uses[0] if val_uses else gev, "the environment variable name is built from the prefix with dashes replaced (a subcommand named `dry-run` is addressed as ..._DRY_RUN_...)" if ok else "get_env_var uses the parser's env_prefix as it is: the prefix of a subcommand parser contains the subcommand's name, and for a name with a dash the variable looked up (APP_DRY-RUN_X) can never be set - the subcommand loses its environment settings", fn=gev, construct="env var name normalised")

    # the environment branch: a subcommand named in the environment MAPPING being read gets its settings from that
    # same mapping (parse_env(env=<the mapping>)), and under the same defaults flag
    lev = ctx.func("_core:ArgumentParser._load_env_vars")
    envp = lev.args.args[1].arg
    npe = [c for c in calls_in(lev) if call_leaf(c) == "parse_env"]
    ctx.need(npe, "_load_env_vars: nested parse_env for the chosen subcommand")
    for c in npe:
        kw_ = {k.arg: k.value for k in c.keywords if k.arg}
        bound_env = kw_.get("env", c.args[0] if c.args else None)
        ok = isinstance(bound_env, ast.Name) and bound_env.id == envp and isinstance(kw_.get("defaults"), ast.Name) and kw_["defaults"].id == "defaults"
        ctx.oblige("C17.e", ok, c, "the chosen subcommand's environment settings are read from the mapping that named it" if ok else "the nested parse_env does not receive the mapping being read: a subcommand chosen by parse_env({...}) takes its settings from os.environ instead of the mapping (values ignored, nested choice rejected)", fn=lev)

    # provisional parses of a sub-parser (its environment / defaults, read while the outer parse is still collecting
    # its sources) must not validate: what is required of the subcommand may still come from the command line, and
    # the subcommand named by the environment may not be the one finally chosen
    n_prov = 0
    for fn_ in (lev, hs):
        for c in calls_in(fn_):
            leaf = call_leaf(c)
            if leaf not in ("parse_env", "get_defaults") or not isinstance(c.func, ast.Attribute) or isinstance(c.func.value, ast.Name) and c.func.value.id == "self":
                continue
            n_prov += 1
            kw_ = {k.arg: k.value for k in c.keywords if k.arg}
            flag = kw_.get("_skip_validation", kw_.get("skip_validation"))
            ok = isinstance(flag, ast.Constant) and flag.value is True
            ctx.oblige("C17.e", ok, c, "the provisional parse of the sub-parser skips validation" if ok else f"`{ast.unparse(c)[:80]}` validates a provisional result: with APP_SUBCOMMAND=run in the environment, `prog stop` fails because `run` misses a required argument / nested subcommand that only the finally chosen command line would have to give", fn=fn_, construct=f"provisional {leaf} skips validation")
    ctx.floor("C17.e-provisional-parses", n_prov, 3)

    # ---------------- C17.i a name given through the environment is never dropped -------------------------------------
    # _load_env_vars: once the variable of the subcommand option is present, its value reaches the configuration on every
    # path (to be accepted, overridden by a later source, or rejected by get_subcommands) - an unknown name that is simply
    # skipped makes `APP_SUBCOMMAND=zzz prog` behave as if nothing had been said, while `subcommand: zzz` in a config is an error
    glev = ctx.cfg(lev)
    n_envsub = 0
    for if_ in [n_ for n_ in walk_local(lev) if isinstance(n_, ast.If) and "_ActionSubCommands" in ast.unparse(n_.test) and " in " in ast.unparse(n_.test)]:
        reads = [s_ for s_ in if_.body if isinstance(s_, ast.Assign) and isinstance(s_.value, ast.Subscript) and ast.unparse(s_.value.value) == envp]
        if not reads:
            continue
        n_envsub += 1
        stores = [s_ for s_ in ast.walk(if_) if isinstance(s_, ast.Assign) and any(isinstance(t, ast.Subscript) and ast.unparse(t.slice).endswith(".dest") for t in s_.targets)]
        loop_ = next((a_ for a_ in _anc17(if_) if isinstance(a_, ast.For)), None)
        heads_ = [a_ for (a_, _t, _l) in glev.branch_edges(loop_, "loop")] if loop_ is not None else []
        ok = bool(stores) and bool(heads_) and glev.must_pass(glev.cn(stores), glev.cn(reads), heads_ + [glev.exit], exclude_labels={"e"}, strict=True)
        ctx.oblige("C17.i", ok, reads[0], "the subcommand name found in the environment is stored on every path" if ok else "a subcommand name found in the environment is stored only when it is one of the choices; any other value is skipped without a word: with optional subcommands APP_SUBCOMMAND=zzz gives subcommand=None, while the same name in a config file or on the command line is rejected", fn=lev, construct="environment subcommand name stored on every path")
    ctx.floor("C17.i-env-subcommand", n_envsub, 1)

    # ---------------- C17.h intermediate folds do not decide ---------------------------------------------------
    # a configuration that is folded in BEFORE the command line / object has been seen (a default config file, a
    # --cfg item) must not pick a subcommand: picking deletes the other sections, and the source that names the
    # subcommand comes later.  Such folds call _parse_common with env=False, defaults=False; they have to pass
    # fail_no_subcommand=False and run under not_single_subcommand() (which switches the fallback off).
    from .util import enclosing_withs

    n_fold = 0
    for fq, fn in ctx.repo.all_funcs():
        for c in calls_in(fn):
            if call_leaf(c) != "_parse_common":
                continue
            kw = {k.arg: k.value for k in c.keywords if k.arg}
            if not all(isinstance(kw.get(x), ast.Constant) and kw[x].value is False for x in ("env", "defaults")):
                continue
            n_fold += 1
            fns = kw.get("fail_no_subcommand")
            ok_f = isinstance(fns, ast.Constant) and fns.value is False
            ok_c = any(isinstance(it.context_expr, ast.Call) and call_leaf(it.context_expr) == "not_single_subcommand" for _, it in enclosing_withs(c, stop=fn))
            ok = ok_f and ok_c
            ctx.oblige(
                "C17.h",
                ok,
                c,
                "this intermediate fold leaves the choice of subcommand to the final parse (fail_no_subcommand=False under not_single_subcommand())" if ok else "this intermediate fold (env=False, defaults=False) picks a subcommand: with sections for several subcommands in the folded configuration the first one is chosen and the others are deleted before the command line / object names the subcommand - the values the file holds for the subcommand actually chosen are lost",
                fn=fn,
            )
    ctx.floor("C17.h-intermediate-folds", n_fold, 1)
    # the other intermediate fold: ActionConfigFile.apply_config parses the item with _fail_no_subcommand False under the same context
    acf = ctx.func("_actions:ActionConfigFile.apply_config")
    kwd = [s for s in walk_local(acf) if isinstance(s, ast.Assign) and isinstance(s.value, ast.Dict) and any(const_str(k) == "_fail_no_subcommand" for k in s.value.keys)]
    ok = bool(kwd)
    if ok:
        dv = dict(zip([const_str(k) for k in kwd[0].value.keys], kwd[0].value.values))
        ok = isinstance(dv["_fail_no_subcommand"], ast.Constant) and dv["_fail_no_subcommand"].value is False
        for src_k in ("env", "defaults"):
            okk = src_k in dv and isinstance(dv[src_k], ast.Constant) and dv[src_k].value is False
            ctx.oblige("C17.h", okk, kwd[0], f"a --cfg item is folded in with {src_k}=False: it contributes the file's content only" if okk else f"a --cfg item is parsed with {src_k}={ast.unparse(dv[src_k]) if src_k in dv else 'unset'}: with default_env on, every config file given on the command line drags the subcommand's environment variables in again - they then beat an earlier --cfg (three sources: --cfg a, --cfg b, APP_FIT__A)", fn=acf, construct=f"cfg item fold {src_k}=False")
        ok = ok and any(isinstance(it.context_expr, ast.Call) and call_leaf(it.context_expr) == "not_single_subcommand" for w in walk_local(acf) if isinstance(w, ast.With) for it in w.items)
    ctx.oblige("C17.h", ok, kwd[0] if kwd else acf, "a --cfg item is parsed without deciding the subcommand" if ok else "a --cfg item decides the subcommand while it is applied (fail_no_subcommand / not_single_subcommand changed)", fn=acf, construct="cfg item does not decide")

    # ---------------- C17.g settings that select sources reach every level --------------------------------------
    # a parser-wide setting (default_env, parser_mode) is pushed to the sub-parsers by its property setter; the
    # push assigns the PROPERTY on each sub-parser, so that sub-parser's own setter pushes it further down
    n_set = 0
    apc = ctx.repo.cls("_core:ArgumentParser")
    for m in apc.body:
        if not isinstance(m, ast.FunctionDef):
            continue
        setter_of = next((d.value.id for d in m.decorator_list if isinstance(d, ast.Attribute) and d.attr == "setter" and isinstance(d.value, ast.Name)), None)
        if setter_of is None:
            continue
        for lp in [x for x in ast.walk(m) if isinstance(x, ast.For) and "_name_parser_map" in ast.unparse(x.iter) and isinstance(x.target, ast.Name)]:
            n_set += 1
            lv = lp.target.id
            stores = [s for s in ast.walk(lp) if isinstance(s, ast.Assign) and any(isinstance(t, ast.Attribute) and isinstance(t.value, ast.Name) and t.value.id == lv for t in s.targets)]
            attrs = {t.attr for s in stores for t in s.targets if isinstance(t, ast.Attribute)}
            ok = attrs == {setter_of}
            ctx.oblige(
                "C17.g",
                ok,
                lp,
                f"`{setter_of}` is pushed to every sub-parser through the property itself (each level pushes it further)" if ok else f"the setter of `{setter_of}` writes {sorted(attrs)} on the sub-parsers instead of the property `{setter_of}`: the setting stops at the first subcommand level, deeper levels keep their own value (their environment / parser mode is not the one configured on the root)",
                fn=m,
            )
    ctx.floor("C17.g-propagating-setters", n_set, 2)

    ctx.trusted_base += ["argparse hands the sub-parser name and the remaining arguments to _ActionSubCommands.__call__ as values[0], values[1:]", "Namespace.merge semantics: merge_config(cfg_from, cfg_to) lets cfg_from win (decided under C04)"]
    ctx.notes.append("C17's exhaustive claim (the result namespace for every subcommand tree and input mix) is NOT decided; the clauses above are the structural necessary conditions of the selection rule as written in get_subcommands / handle_subcommands / __call__.")
    return ctx.finish(
        explanation=(
            "Guard-structure, dominance and derivation checks of the three functions that implement subcommand selection: the explicit key wins and the fallback (first declared subcommand with a "
            "section) sits on its else-side; the chosen name is stored; the deletion loop ranges over every other candidate, unconditionally, through the level's prefix; the descent into nested "
            "levels is unconditional for sub-parsers that have subcommands and extends the prefix by the chosen name; the section is completed with the sub-parser's environment/defaults with the "
            "given values winning; an undeterminable required subcommand or an unknown name raises. Narrow: these are necessary conditions of the selection rule, not the resulting namespace."
        ),
        rule_text="one obligation per clause site; non-trivial = the anchored construct exists",
    )
