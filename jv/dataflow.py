"""E4 - small forward dataflow framework over the statement CFG.

State: dict  local name -> frozenset of abstract tags.  Join: pointwise union.
The transfer function is supplied by the rule (it knows its tag lattice).
"""

from __future__ import annotations

import ast
from typing import Callable, Dict, FrozenSet, Optional

from .cfg import CFG, Node

State = Dict[str, FrozenSet]


def join(a: State, b: State) -> State:
    if a is b:
        return a
    out = dict(a)
    for k, v in b.items():
        out[k] = out.get(k, frozenset()) | v
    return out


def forward(
    g: CFG,
    init: State,
    transfer: Callable[[Node, State], State],
    max_iter: int = 20000,
    edge_refine: Optional[Callable[[Node, State, str], State]] = None,
) -> Dict[int, State]:
    """Returns the IN state of every reachable node.  edge_refine(node, out_state, label)
    may sharpen the state carried along one outgoing edge (branch-sensitive facts)."""
    ins: Dict[int, State] = {g.entry: dict(init)}
    work = [g.entry]
    it = 0
    while work:
        it += 1
        if it > max_iter:  # pragma: no cover
            raise RuntimeError("dataflow did not converge")
        nid = work.pop()
        node = g.nodes[nid]
        out = transfer(node, ins[nid])
        for t, lab in node.succ:
            # exceptional edges carry the IN state (the statement may not have completed)
            st = ins[nid] if lab in ("e",) else out
            if edge_refine is not None and lab in ("t", "f"):
                st = edge_refine(node, st, lab)
                if st is None:
                    continue  # the refinement shows this edge cannot be taken
            old = ins.get(t)
            new = dict(st) if old is None else join(old, st)
            if old is None or new != old:
                ins[t] = new
                work.append(t)
    return ins


def assigned_simple_names(target: ast.AST):
    if isinstance(target, ast.Name):
        yield target.id
    elif isinstance(target, (ast.Tuple, ast.List)):
        for e in target.elts:
            yield from assigned_simple_names(e)
    elif isinstance(target, ast.Starred):
        yield from assigned_simple_names(target.value)
