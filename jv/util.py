"""Small AST utilities shared by the rules."""

from __future__ import annotations

import ast
from typing import Iterator, List, Optional, Sequence, Set, Tuple

from .srcmodel import (
    FuncNode,
    ScopeNode,
    ancestors,
    call_leaf,
    call_name,
    const_str,
    contains,
    dotted,
    parent,
    walk_local,
)


def root_name(node: ast.AST) -> Optional[str]:
    """Root identifier of an attribute / subscript / call chain."""
    while True:
        if isinstance(node, ast.Name):
            return node.id
        if isinstance(node, ast.Attribute):
            node = node.value
        elif isinstance(node, ast.Subscript):
            node = node.value
        elif isinstance(node, ast.Call):
            node = node.func
        elif isinstance(node, ast.Starred):
            node = node.value
        else:
            return None


def enclosing_withs(node: ast.AST, stop: Optional[ast.AST] = None) -> List[Tuple[ast.With, ast.withitem]]:
    """(with statement, item) pairs whose *body* lexically contains node, innermost first."""
    out = []
    child = node
    for a in ancestors(node):
        if a is stop:
            break
        if isinstance(a, (ast.With, ast.AsyncWith)):
            # inside body (not inside the item expressions)?
            if any(child is s for s in a.body):
                for it in reversed(a.items):
                    out.append((a, it))
            else:
                # node is inside one of the items: items before it are active
                for idx, it in enumerate(a.items):
                    if child is it:
                        for prev in reversed(a.items[:idx]):
                            out.append((a, prev))
        if isinstance(a, FuncNode):
            break
        child = a
    return out


def enclosing_trys(node: ast.AST) -> List[Tuple[ast.Try, str]]:
    """(try statement, part) where part in body/handler/orelse/finalbody, innermost first,
    within the enclosing function."""
    out = []
    child = node
    for a in ancestors(node):
        if isinstance(a, ast.Try):
            if any(child is s for s in a.body):
                out.append((a, "body"))
            elif any(child is s for s in a.orelse):
                out.append((a, "orelse"))
            elif any(child is s for s in a.finalbody):
                out.append((a, "finalbody"))
            else:
                out.append((a, "handler"))
        if isinstance(a, FuncNode):
            break
        child = a
    return out


def handler_type_names(h: ast.ExceptHandler) -> List[str]:
    """Dotted names in an except clause; computed expressions are returned unparsed."""
    if h.type is None:
        return ["BaseException"]
    return exc_expr_names(h.type)


def exc_expr_names(e: ast.AST) -> List[str]:
    if isinstance(e, ast.Tuple):
        out: List[str] = []
        for x in e.elts:
            out += exc_expr_names(x)
        return out
    if isinstance(e, ast.BinOp) and isinstance(e.op, ast.Add):
        return exc_expr_names(e.left) + exc_expr_names(e.right)
    if isinstance(e, ast.Starred):
        return exc_expr_names(e.value)
    d = dotted(e)
    if d is not None:
        return [d]
    if isinstance(e, ast.Call):
        n = call_name(e)
        return [f"{n}()"] if n else [ast.unparse(e)]
    return [ast.unparse(e)]


def is_open_for_write(call: ast.Call) -> bool:
    """open(p, "w") / fsspec.open(p, "w") / p.open("w") with a constant write mode."""
    if call_leaf(call) != "open":
        return False
    mode = None
    for a in call.args[:3]:
        s = const_str(a)
        if s is not None and len(s) <= 3 and set(s) <= set("rwxabt+"):
            mode = s
    for k in call.keywords:
        if k.arg == "mode":
            mode = const_str(k.value) or mode
    return mode is not None and any(c in mode for c in "wax+")


def assigned_names(target: ast.AST) -> List[str]:
    out = []
    for n in ast.walk(target):
        if isinstance(n, ast.Name) and isinstance(n.ctx, ast.Store):
            out.append(n.id)
    return out


def stmt_assign_targets(s: ast.stmt) -> List[ast.AST]:
    if isinstance(s, ast.Assign):
        return list(s.targets)
    if isinstance(s, (ast.AnnAssign, ast.AugAssign)):
        return [s.target]
    return []


def nested_defs(fn: ast.AST) -> dict:
    """Directly nested function definitions by name."""
    out = {}
    for n in walk_local(fn):
        if isinstance(n, FuncNode):
            out[n.name] = n
    return out


def is_name(node: ast.AST, name: str) -> bool:
    return isinstance(node, ast.Name) and node.id == name


def test_mentions(test: ast.AST, name: str) -> bool:
    return any(isinstance(n, ast.Name) and n.id == name for n in ast.walk(test))


def guard_chain(node: ast.AST, stop: Optional[ast.AST] = None) -> List[Tuple[ast.AST, bool]]:
    """Control dependence (lexical): list of (test expr, polarity) for the
    enclosing if / while / IfExp / BoolOp short-circuits, innermost first.  polarity True means the
    node executes when the test is true.  elif chains contribute the negation
    of the earlier tests."""
    out: List[Tuple[ast.AST, bool]] = []
    child = node
    for a in ancestors(node):
        if a is stop or isinstance(a, FuncNode) or isinstance(a, ast.Lambda):
            break
        if isinstance(a, (ast.If, ast.While)):
            if any(child is s for s in a.body):
                out.append((a.test, True))
            elif any(child is s for s in a.orelse):
                out.append((a.test, False))
        elif isinstance(a, ast.IfExp):
            if child is a.body:
                out.append((a.test, True))
            elif child is a.orelse:
                out.append((a.test, False))
        elif isinstance(a, ast.BoolOp):
            idx = next((i for i, v in enumerate(a.values) if v is child), None)
            if idx:
                for prev in a.values[:idx]:
                    out.append((prev, isinstance(a.op, ast.And)))
        elif isinstance(a, (ast.ListComp, ast.SetComp, ast.GeneratorExp, ast.DictComp)):
            for g in a.generators:
                for cond in g.ifs:
                    if not contains(cond, node):
                        out.append((cond, True))
        child = a
    return out


def guard_atoms(node: ast.AST, stop: Optional[ast.AST] = None) -> List[Tuple[ast.AST, bool]]:
    """guard_chain flattened to atomic facts: a conjunction that holds contributes each conjunct, a disjunction that
    fails contributes each disjunct negated, leading `not`s are folded into the polarity."""
    out: List[Tuple[ast.AST, bool]] = []
    work = list(guard_chain(node, stop=stop))
    while work:
        t, pol = work.pop(0)
        inner, pos = strip_not(t)
        eff = pol == pos
        if isinstance(inner, ast.BoolOp) and ((isinstance(inner.op, ast.And) and eff) or (isinstance(inner.op, ast.Or) and not eff)):
            work = [(v, eff) for v in inner.values] + work
            continue
        out.append((inner, eff))
    return out


def branch_when(if_node: ast.If, truth: bool) -> list:
    """Statements of the arm taken when the condition with leading `not`s stripped evaluates to `truth`."""
    _, pos = strip_not(if_node.test)
    return if_node.body if (truth == pos) else if_node.orelse


def strip_not(test: ast.AST) -> Tuple[ast.AST, bool]:
    """(inner, positive) with leading `not`s removed."""
    pos = True
    while isinstance(test, ast.UnaryOp) and isinstance(test.op, ast.Not):
        test = test.operand
        pos = not pos
    return test, pos


LOG_LEAVES = {"debug", "info", "warning", "warn", "error", "exception", "critical", "log"}


def is_neutral_stmt(s: ast.stmt) -> bool:
    """Statements that do not change what a block decides: pass, docstrings / bare constants, logging calls."""
    if isinstance(s, ast.Pass):
        return True
    if isinstance(s, ast.Expr):
        if isinstance(s.value, ast.Constant):
            return True
        if isinstance(s.value, ast.Call) and isinstance(s.value.func, ast.Attribute) and s.value.func.attr in LOG_LEAVES:
            from .cfg import is_logger_expr

            return is_logger_expr(s.value.func.value)
    return False


def core_stmts(stmts) -> list:
    return [s for s in stmts if not is_neutral_stmt(s)]


def body_raises(stmts, noreturn=None) -> Optional[ast.stmt]:
    """The block consists (apart from neutral statements) of exactly one statement that ends it abnormally:
    a `raise`, or a call of a no-return function.  Returns that statement, else None."""
    core = core_stmts(stmts)
    if len(core) != 1:
        return None
    s = core[0]
    if isinstance(s, ast.Raise):
        return s
    if noreturn is not None and isinstance(s, ast.Expr) and isinstance(s.value, ast.Call) and noreturn(s.value):
        return s
    return None


def returns_of(fn: ast.AST) -> List[ast.Return]:
    return [n for n in walk_local(fn) if isinstance(n, ast.Return)]


def raises_of(fn: ast.AST) -> List[ast.Raise]:
    return [n for n in walk_local(fn) if isinstance(n, ast.Raise)]
