"""Rules used by more than one property (C08.b = C19.d, C08/C09 context variables)."""

from __future__ import annotations

import ast
from typing import Dict, List, Optional, Set, Tuple

from .report import Ctx
from .srcmodel import AnalysisError, ScopeNode, call_leaf, call_name, calls_in, contains, dotted, enclosing_function, qualname, src, walk_local
from .util import enclosing_trys, guard_chain, root_name  # noqa: F401

CHDIR_OWNERS = {
    "_util:change_to_path_dir": "the one context manager that runs code in a config file's directory",
    "_deprecated:ActionPathList._check_type": "deprecated path-list action (rel='list')",
}
ENV_WRITE_EXEMPT = {"_common:<module>": "import-time LOGGER_LEVEL under JSONARGPARSE_DEBUG"}
ARGPARSE_PATCH_OWNER = "_namespace:patch_namespace"


def _in_finally(node: ast.AST) -> bool:
    return any(part == "finalbody" for _, part in enclosing_trys(node))


def check_global_state_restore(ctx: Ctx, rule: str) -> None:
    """Process-global state (cwd, argparse.Namespace, os.environ) is written only by
    its owners and restored on every path (normal and exceptional)."""
    repo = ctx.repo
    # ---- ownership -------------------------------------------------------
    n_chdir = 0
    for fq, fn in repo.all_funcs():
        for c in calls_in(fn):
            if call_name(c) in ("os.chdir", "os.fchdir"):
                n_chdir += 1
                ok = fq in CHDIR_OWNERS
                ctx.oblige(rule, ok, c, f"os.chdir in its owner ({CHDIR_OWNERS.get(fq)})" if ok else "os.chdir outside the two functions that own the working directory", fn=fn)
            if call_name(c) in ("os.putenv", "os.unsetenv", "os.environ.update", "os.environ.pop", "os.environ.setdefault", "os.environ.clear"):
                ctx.oblige(rule, False, c, "the process environment is modified", fn=fn)
        for s in walk_local(fn):
            if isinstance(s, (ast.Assign, ast.AugAssign, ast.Delete)):
                tgs = s.targets if isinstance(s, (ast.Assign, ast.Delete)) else [s.target]
                for t in tgs:
                    d = dotted(t.value) if isinstance(t, ast.Subscript) else dotted(t)
                    if isinstance(t, ast.Subscript) and d == "os.environ":
                        ctx.oblige(rule, False, s, "the process environment is modified", fn=fn)
                    if isinstance(t, ast.Attribute) and d in ("sys.argv",):
                        ctx.oblige(rule, False, s, "sys.argv is rebound", fn=fn)
                    if isinstance(t, ast.Attribute) and dotted(t.value) == "argparse":
                        ok = fq == ARGPARSE_PATCH_OWNER
                        ctx.oblige(rule, ok, s, "argparse module attribute written only by patch_namespace" if ok else "an attribute of the argparse module is overwritten outside patch_namespace", fn=fn)
    ctx.floor(f"{rule}-chdir-sites", n_chdir, 4)
    # module-level writes
    for m in repo.modules.values():
        for s in ast.walk(m.tree):
            if isinstance(s, ast.Assign) and enclosing_function(s) is None:
                for t in s.targets:
                    if isinstance(t, ast.Subscript) and dotted(t.value) == "os.environ":
                        key = f"{m.name}:<module>"
                        ok = key in ENV_WRITE_EXEMPT and "debug_mode_active" in " ".join(ast.unparse(x) for x, _ in guard_chain(s))
                        ctx.oblige(rule, ok, s, f"import-time environment write exempt by name: {ENV_WRITE_EXEMPT.get(key)}" if ok else "module-level write to os.environ", site=f"{key} :: {src(s)}", function=key)

    # ---- restore on every path: os.chdir ---------------------------------------
    for fref in CHDIR_OWNERS:
        if not repo.has_func(fref):
            raise AnalysisError(f"anchor vanished: {fref}")
        fn = ctx.func(fref)
        g = ctx.cfg(fn)
        chs = [c for c in calls_in(fn) if call_name(c) == "os.chdir"]
        restores = [c for c in chs if _in_finally(c)]
        changes = [c for c in chs if not _in_finally(c)]
        if not restores or not changes:
            ctx.oblige(rule, False, fn, "working directory is changed without a restoring os.chdir in a finally block", fn=fn, construct="chdir restore in finally")
            continue
        for ch in changes:
            saved = root_name(restores[0].args[0]) if restores[0].args else None
            save_defs = [s for s in walk_local(fn) if isinstance(s, ast.Assign) and root_name(s.targets[0]) == saved and isinstance(s.value, ast.Call) and call_name(s.value) == "os.getcwd"]
            ok_saved = bool(save_defs) and g.dominates(g.cn(save_defs), g.cn(ch))
            starts = [t for i in g.cn(ch) for t, lab in g.nodes[i].succ if lab != "e"]
            # flag-sensitive: the restore guard `if <saved>:` is true on every path through the change,
            # because <saved> = os.getcwd() (non-empty) dominates the change and is not rebound afterwards
            removed_edges: Set[Tuple[int, int, str]] = set()
            rebound_after = [s for s in walk_local(fn) if isinstance(s, ast.Assign) and root_name(s.targets[0]) == saved and set(g.cn(s)) & g.reachable(starts, include_srcs=True)]
            for r in restores:
                for t, pol in guard_chain(r):
                    if isinstance(t, ast.Name) and t.id == saved and pol and ok_saved and not rebound_after:
                        for nid in g.by_ast.get(id(t), []):
                            for tt, lab in g.nodes[nid].succ:
                                if lab == "f":
                                    removed_edges.add((nid, tt, lab))
            reach = g.reachable(starts, removed=g.cn(restores), removed_edges=removed_edges, include_srcs=True)
            ok = ok_saved and g.exit not in reach and g.xexit not in reach
            path = None
            if not ok:
                path = g.find_path(starts, [g.exit, g.xexit], removed=g.cn(restores))
            ctx.oblige(
                rule,
                ok,
                ch,
                f"after this change of directory every path (normal and exceptional) restores the saved cwd `{saved}`" if ok else "after this os.chdir there is a path that leaves the function without restoring the working directory",
                fn=fn,
                details={"path": g.describe_path(path)},
            )
            # the restore uses the saved value
            for r in restores:
                okr = r.args and root_name(r.args[0]) == saved and ok_saved
                ctx.oblige(rule, bool(okr), r, "the restore goes back to the directory saved before the change" if okr else "the restoring chdir does not use the saved cwd", fn=fn)

    # ---- argparse.Namespace patch ---------------------------------------------
    pn = ctx.func(ARGPARSE_PATCH_OWNER)
    g = ctx.cfg(pn)
    stores = [s for s in walk_local(pn) if isinstance(s, ast.Assign) and isinstance(s.targets[0], ast.Attribute) and dotted(s.targets[0]) == "argparse.Namespace"]
    patch = [s for s in stores if not _in_finally(s)]
    restore = [s for s in stores if _in_finally(s)]
    ok = len(patch) == 1 and len(restore) == 1
    if ok:
        saved = root_name(restore[0].value)
        sdef = [s for s in walk_local(pn) if isinstance(s, ast.Assign) and root_name(s.targets[0]) == saved and dotted(s.value) == "argparse.Namespace"]
        ok = bool(sdef) and g.dominates(g.cn(sdef), g.cn(patch))
        starts = [t for i in g.cn(patch) for t, lab in g.nodes[i].succ if lab != "e"]
        reach = g.reachable(starts, removed=g.cn(restore), include_srcs=True)
        ok = ok and g.exit not in reach and g.xexit not in reach
    ctx.oblige(rule, ok, patch[0] if patch else pn, "argparse.Namespace is restored to the saved class on every path out of patch_namespace" if ok else "patch_namespace can leave argparse.Namespace replaced", fn=pn)


def check_recreate_branches(ctx: Ctx, rule: str) -> set:
    """recreate_branches rebuilds Namespace / dict / list levels recursively and unconditionally
    (every nested value goes through the recursive call, empty branches included).  Returns the kinds copied."""
    rb = ctx.func("_namespace:recreate_branches")
    ctx.expect_locals(rb, ["data", "new_data", "val", "key"])
    kinds = set()
    uncond = True
    for n_ in walk_local(rb):
        if not isinstance(n_, ast.If):
            continue
        for c_ in [x for x in ast.walk(n_.test) if isinstance(x, ast.Call) and call_leaf(x) == "isinstance" and root_name(x.args[0]) == "data"]:
            pos_types = [dotted(e) for e in (c_.args[1].elts if isinstance(c_.args[1], ast.Tuple) else [c_.args[1]])]
            negated = any(isinstance(u, ast.UnaryOp) and isinstance(u.op, ast.Not) and u.operand is c_ for u in ast.walk(n_.test))
            if negated:
                continue
            assigns_new = [b for b in n_.body if isinstance(b, ast.Assign) and root_name(b.targets[0]) == "new_data"]
            # mapping kinds: new_data = type(data)(); for ...: new_data[key] = recreate_branches(val, ...)
            item_stores = [s for b in n_.body for s in ast.walk(b) if isinstance(s, ast.Assign) and isinstance(s.targets[0], ast.Subscript) and root_name(s.targets[0].value) == "new_data"]
            if assigns_new and any("type(data)()" in ast.unparse(a.value) for a in assigns_new) and item_stores:
                good = all(isinstance(s.value, ast.Call) and call_leaf(s.value) == "recreate_branches" and s.value.args and isinstance(s.value.args[0], ast.Name) for s in item_stores)
                for s in item_stores:
                    for t, pol in guard_chain(s, stop=n_):
                        if "skip_keys" not in ast.unparse(t):
                            good = False
                if good:
                    kinds |= set(pos_types)
                else:
                    uncond = False
            # list kind: new_data = [recreate_branches(v, ...) for v in data]
            for a in assigns_new:
                v = a.value
                if isinstance(v, ast.ListComp):
                    if isinstance(v.elt, ast.Call) and call_leaf(v.elt) == "recreate_branches" and not any(g.ifs for g in v.generators):
                        kinds |= set(pos_types)
                    else:
                        uncond = False
    rets = [r for r in walk_local(rb) if isinstance(r, ast.Return)]
    ok = {"Namespace", "dict", "list"} <= kinds and uncond and all(root_name(r.value) == "new_data" for r in rets)
    ctx.oblige(rule, ok, rb, f"recreate_branches rebuilds {sorted(kinds)} recursively, every nested value (empty branches included) through the recursive call" if ok else f"recreate_branches does not copy every Namespace / dict / list level unconditionally (copies {sorted(kinds)}, unconditional: {uncond}): clone()/strip_meta() hand out containers shared with the original", fn=rb, construct="recreate_branches copy kinds")
    return kinds


def key_helper_roles(repo) -> Dict[str, Dict[int, str]]:
    """Meaning of the dotted-key helpers, read from their bodies (one `return key.split/rsplit(".", n)`):
    helper name -> {index: role} with roles root / rest / parent / leaf / component."""
    out: Dict[str, Dict[int, str]] = {}
    m = repo.modules.get("_namespace")
    if m is None:
        raise AnalysisError("anchor vanished: module _namespace")
    for s in m.tree.body:
        if not isinstance(s, ast.FunctionDef) or not s.name.startswith("split_key"):
            continue
        rets = [r for r in ast.walk(s) if isinstance(r, ast.Return)]
        if len(rets) != 1 or not isinstance(rets[0].value, ast.Call) or call_leaf(rets[0].value) not in ("split", "rsplit"):
            raise AnalysisError(f"key helper {s.name} is no longer a single str.split/rsplit: its meaning must be re-read")
        c = rets[0].value
        sep_ok = c.args and isinstance(c.args[0], ast.Constant) and c.args[0].value == "."
        if not sep_ok:
            raise AnalysisError(f"key helper {s.name} no longer splits at '.'")
        maxsplit = c.args[1].value if len(c.args) > 1 and isinstance(c.args[1], ast.Constant) else None
        if call_leaf(c) == "split" and maxsplit is None:
            out[s.name] = {0: "root", -1: "leaf"}
        elif call_leaf(c) == "split" and maxsplit == 1:
            out[s.name] = {0: "root", 1: "rest", -1: "rest-or-whole"}
        elif call_leaf(c) == "rsplit" and maxsplit == 1:
            out[s.name] = {0: "parent", 1: "leaf", -1: "leaf"}
        else:
            raise AnalysisError(f"key helper {s.name}: unexpected split form {src(c)}")
    return out


def key_expr_role(roles: Dict[str, Dict[int, str]], e: ast.AST) -> Optional[Tuple[str, str]]:
    """(role, unparsed key argument) of `helper(key)[i]`, or None if e is not of that form."""
    if isinstance(e, ast.Subscript) and isinstance(e.value, ast.Call) and isinstance(e.value.func, ast.Name) and e.value.func.id in roles and e.value.args:
        idx = e.slice
        iv = None
        if isinstance(idx, ast.Constant) and isinstance(idx.value, int):
            iv = idx.value
        elif isinstance(idx, ast.UnaryOp) and isinstance(idx.op, ast.USub) and isinstance(idx.operand, ast.Constant):
            iv = -idx.operand.value
        r = roles[e.value.func.id].get(iv)
        if r is not None:
            return r, ast.unparse(e.value.args[0])
    return None


def origin_table(repo, name: str, module: str = "_typehints", _depth: int = 0) -> Set[str]:
    """Contents of a module-level table of type origins (`X = {List, list, ...}` / `X = A.union(B)`), as dotted names."""
    m = repo.modules.get(module)
    if m is None:
        raise AnalysisError(f"anchor vanished: module {module}")
    for s in m.tree.body:
        if isinstance(s, ast.Assign) and len(s.targets) == 1 and isinstance(s.targets[0], ast.Name) and s.targets[0].id == name:
            v = s.value
            if isinstance(v, ast.Set):
                out = {dotted(e) for e in v.elts}
                if None in out:
                    raise AnalysisError(f"table {name}: element that is not a dotted name")
                return out  # type: ignore[return-value]
            if isinstance(v, ast.Call) and call_leaf(v) == "union" and isinstance(v.func, ast.Attribute) and isinstance(v.func.value, ast.Name) and _depth < 3:
                out = set(origin_table(repo, v.func.value.id, module, _depth + 1))
                for a in v.args:
                    if not isinstance(a, ast.Name):
                        raise AnalysisError(f"table {name}: union with a non-name")
                    out |= origin_table(repo, a.id, module, _depth + 1)
                return out
            raise AnalysisError(f"table {name}: unexpected definition {src(v)}")
    raise AnalysisError(f"anchor vanished: table {name} in {module}")


def contextvar_table(repo) -> Dict[str, Tuple[str, Optional[ast.AST]]]:
    """name -> (module, default expr) for every module-level ContextVar(...) declaration."""
    out: Dict[str, Tuple[str, Optional[ast.AST]]] = {}
    for m in repo.modules.values():
        for s in m.tree.body:
            v = None
            tg = None
            if isinstance(s, ast.Assign) and len(s.targets) == 1:
                tg, v = s.targets[0], s.value
            elif isinstance(s, ast.AnnAssign) and s.value is not None:
                tg, v = s.target, s.value
            if isinstance(tg, ast.Name) and isinstance(v, ast.Call) and call_leaf(v) == "ContextVar":
                d = None
                for k in v.keywords:
                    if k.arg == "default":
                        d = k.value
                out[tg.id] = (m.name, d)
    return out
