"""E1 - source model: parsed modules, function / class tables, parent links.

Anchors are qualified names ("_core:ArgumentParser.save"), never positions.
"""

from __future__ import annotations

import ast
import hashlib
import os
from typing import Dict, Iterable, Iterator, List, Optional, Tuple


class AnalysisError(Exception):
    """An anchor vanished / an unsupported construct was met / a floor was missed.

    Reported as exit status 2 (ANALYSIS-ERROR), never as a violation.
    """


FuncNode = (ast.FunctionDef, ast.AsyncFunctionDef)
ScopeNode = (ast.FunctionDef, ast.AsyncFunctionDef, ast.ClassDef, ast.Lambda)


def repo_root() -> str:
    return os.environ.get("JV_REPO", "/repo")


class _Canon(ast.NodeTransformer):
    """Canonical form of a few constructs that have several behaviour-identical spellings, so that every rule sees
    one of them (positions of the surviving nodes are kept; every step is an exact equivalence):
      * `if a: (if b: S)`  with no else on either and nothing else in the outer body   ->  `if a and b: S`
      * `if not c: A else: B`  (plain else, not an elif chain)                            ->  `if c: B else: A`
      * `<name> + "<text>"`                                                               ->  f"{<name>}<text>" is
        NOT rewritten (it changes types for non-str operands); instead f"{<name>}<text>" with a bare name and no
        format spec, as used for dotted keys, is rewritten to `<name> + "<text>"` only where <text> starts with a
        separator character - both operands are then strings wherever the original was evaluated without error."""

    def visit_If(self, node: ast.If):
        self.generic_visit(node)
        # merge nested ifs
        while not node.orelse and len(node.body) == 1 and isinstance(node.body[0], ast.If) and not node.body[0].orelse:
            inner = node.body[0]
            a = node.test.values if isinstance(node.test, ast.BoolOp) and isinstance(node.test.op, ast.And) else [node.test]
            b = inner.test.values if isinstance(inner.test, ast.BoolOp) and isinstance(inner.test.op, ast.And) else [inner.test]
            node.test = ast.copy_location(ast.BoolOp(op=ast.And(), values=list(a) + list(b)), node.test)
            node.body = inner.body
        # canonical polarity of two-armed ifs
        # (also when the else part is a single `if`, i.e. written as elif: `if not c: B elif d: X` is `if c: (if d: X) else: B`)
        if node.orelse and isinstance(node.test, ast.UnaryOp) and isinstance(node.test.op, ast.Not):
            node.test, node.body, node.orelse = node.test.operand, node.orelse, node.body
        # ... and of two-armed ifs on one comparison: `!=` -> `==`, `not in` -> `in`, `is None` -> `is not None`
        if node.orelse and not (len(node.orelse) == 1 and isinstance(node.orelse[0], ast.If)) and isinstance(node.test, ast.Compare) and len(node.test.ops) == 1:
            op = node.test.ops[0]
            is_none = isinstance(node.test.comparators[0], ast.Constant) and node.test.comparators[0].value is None
            new_op = ast.Eq() if isinstance(op, ast.NotEq) else ast.In() if isinstance(op, ast.NotIn) else ast.IsNot() if (isinstance(op, ast.Is) and is_none) else ast.Is() if (isinstance(op, ast.IsNot) and not is_none) else None
            if new_op is not None:
                node.test = ast.copy_location(ast.Compare(left=node.test.left, ops=[new_op], comparators=node.test.comparators), node.test)
                node.body, node.orelse = node.orelse, node.body
        # `if c: x = a  else: x = b`  ->  `x = a if c else b`
        if (
            len(node.body) == 1
            and len(node.orelse) == 1
            and isinstance(node.body[0], ast.Assign)
            and isinstance(node.orelse[0], ast.Assign)
            and len(node.body[0].targets) == 1
            and len(node.orelse[0].targets) == 1
            and isinstance(node.body[0].targets[0], ast.Name)
            and isinstance(node.orelse[0].targets[0], ast.Name)
            and node.body[0].targets[0].id == node.orelse[0].targets[0].id
        ):
            return ast.copy_location(
                ast.Assign(targets=[node.body[0].targets[0]], value=ast.copy_location(ast.IfExp(test=node.test, body=node.body[0].value, orelse=node.orelse[0].value), node.test)),
                node,
            )
        return node

    # ---- statement-list level equivalences -------------------------------------------------------------------
    def generic_visit(self, node):
        super().generic_visit(node)
        for field in ("body", "orelse", "finalbody"):
            lst = getattr(node, field, None)
            if isinstance(lst, list) and lst and isinstance(lst[0], ast.stmt):
                setattr(node, field, self._stmts(lst, node))
        return node

    def _stmts(self, lst, owner):
        out = []
        i = 0
        while i < len(lst):
            s = lst[i]
            nxt = lst[i + 1] if i + 1 < len(lst) else None
            # `t = <expr>` directly followed by `return t`, t used nowhere else in the function  ->  `return <expr>`
            if (
                isinstance(s, ast.Assign)
                and len(s.targets) == 1
                and isinstance(s.targets[0], ast.Name)
                and isinstance(nxt, ast.Return)
                and isinstance(nxt.value, ast.Name)
                and nxt.value.id == s.targets[0].id
                and self._only_returned(s.targets[0].id)
            ):
                out.append(ast.copy_location(ast.Return(value=s.value), s))
                i += 2
                continue
            # `b = <expr>` directly followed by `a = b`  ->  `a = b = <expr>`
            if (
                isinstance(s, ast.Assign)
                and len(s.targets) == 1
                and isinstance(s.targets[0], ast.Name)
                and isinstance(nxt, ast.Assign)
                and len(nxt.targets) == 1
                and isinstance(nxt.value, ast.Name)
                and nxt.value.id == s.targets[0].id
                and not any(isinstance(n, ast.Name) and n.id == s.targets[0].id for n in ast.walk(nxt.targets[0]))
            ):
                out.append(ast.copy_location(ast.Assign(targets=[nxt.targets[0], s.targets[0]], value=s.value), s))
                i += 2
                continue
            out.append(s)
            i += 1
        return out

    _fn_stack: list = []

    def _only_returned(self, name: str) -> bool:
        """Every read of `name` in the enclosing function is a bare `return name`, every write a plain assignment."""
        fn = self._fn_stack[-1] if self._fn_stack else None
        if fn is None:
            return False
        ret_loads = {id(r.value) for r in ast.walk(fn) if isinstance(r, ast.Return) and isinstance(r.value, ast.Name) and r.value.id == name}
        plain_stores = {id(s.targets[0]) for s in ast.walk(fn) if isinstance(s, ast.Assign) and len(s.targets) == 1 and isinstance(s.targets[0], ast.Name) and s.targets[0].id == name}
        for n in ast.walk(fn):
            if isinstance(n, ast.Name) and n.id == name and id(n) not in ret_loads and id(n) not in plain_stores:
                return False
        a = fn.args
        return name not in {x.arg for x in a.posonlyargs + a.args + a.kwonlyargs}

    def _visit_fn(self, node):
        self._fn_stack.append(node)
        try:
            return self.generic_visit(node)
        finally:
            self._fn_stack.pop()

    visit_FunctionDef = _visit_fn
    visit_AsyncFunctionDef = _visit_fn

    def visit_UnaryOp(self, node: ast.UnaryOp):
        self.generic_visit(node)
        # not (a in b) -> a not in b ; not (a is b) -> a is not b   (and the reverse double negations)
        if isinstance(node.op, ast.Not) and isinstance(node.operand, ast.Compare) and len(node.operand.ops) == 1:
            flip = {ast.In: ast.NotIn, ast.NotIn: ast.In, ast.Is: ast.IsNot, ast.IsNot: ast.Is}
            op = node.operand.ops[0]
            if type(op) in flip:
                return ast.copy_location(ast.Compare(left=node.operand.left, ops=[flip[type(op)]()], comparators=node.operand.comparators), node)
        return node

    def visit_JoinedStr(self, node: ast.JoinedStr):
        self.generic_visit(node)
        v = node.values
        if len(v) == 2 and isinstance(v[0], ast.FormattedValue) and v[0].conversion == -1 and v[0].format_spec is None and isinstance(v[0].value, ast.Name) and isinstance(v[1], ast.Constant) and isinstance(v[1].value, str) and v[1].value[:1] in (".", ":", "/"):
            return ast.copy_location(ast.BinOp(left=v[0].value, op=ast.Add(), right=ast.copy_location(ast.Constant(v[1].value), node)), node)
        return node


class Module:
    def __init__(self, name: str, path: str, text: str):
        self.name = name  # e.g. "_core"
        self.path = path
        self.text = text
        raw = ast.parse(text, filename=path)
        from .alpha import normalise as _alpha_normalise

        self.alpha_renamed = _alpha_normalise(raw, name)
        self.tree = ast.fix_missing_locations(_Canon().visit(raw))
        self.funcs: Dict[str, ast.AST] = {}  # qualname -> FunctionDef (last definition wins, all kept in funcs_all)
        self.funcs_all: Dict[str, List[ast.AST]] = {}
        self.classes: Dict[str, ast.ClassDef] = {}
        self.imports: Dict[str, Tuple[str, Optional[str]]] = {}  # local name -> (module, attr|None)
        self._index()

    # ------------------------------------------------------------------
    def _index(self) -> None:
        for node in ast.walk(self.tree):
            for child in ast.iter_child_nodes(node):
                child._jv_parent = node  # type: ignore[attr-defined]
        self.tree._jv_parent = None  # type: ignore[attr-defined]

        def visit(node: ast.AST, prefix: str) -> None:
            for child in ast.iter_child_nodes(node):
                if isinstance(child, FuncNode):
                    q = prefix + child.name
                    child._jv_qualname = q  # type: ignore[attr-defined]
                    child._jv_module = self  # type: ignore[attr-defined]
                    self.funcs[q] = child
                    self.funcs_all.setdefault(q, []).append(child)
                    visit(child, q + ".")
                elif isinstance(child, ast.ClassDef):
                    q = prefix + child.name
                    child._jv_qualname = q  # type: ignore[attr-defined]
                    child._jv_module = self  # type: ignore[attr-defined]
                    self.classes[q] = child
                    visit(child, q + ".")
                else:
                    visit(child, prefix)

        visit(self.tree, "")

        for node in ast.walk(self.tree):
            if isinstance(node, ast.ImportFrom):
                mod = ("." * node.level) + (node.module or "")
                for a in node.names:
                    self.imports[a.asname or a.name] = (mod, a.name)
            elif isinstance(node, ast.Import):
                for a in node.names:
                    self.imports[a.asname or a.name.split(".")[0]] = (a.name, None)

    # ------------------------------------------------------------------
    def func(self, qualname: str) -> ast.AST:
        try:
            return self.funcs[qualname]
        except KeyError:
            raise AnalysisError(f"anchor vanished: function {self.name}:{qualname}") from None

    def cls(self, qualname: str) -> ast.ClassDef:
        try:
            return self.classes[qualname]
        except KeyError:
            raise AnalysisError(f"anchor vanished: class {self.name}:{qualname}") from None

    def has_func(self, qualname: str) -> bool:
        return qualname in self.funcs


class Repo:
    """All modules of the package under analysis."""

    def __init__(self, root: Optional[str] = None, package: str = "jsonargparse"):
        self.root = root or repo_root()
        self.pkgdir = os.path.join(self.root, package)
        if not os.path.isdir(self.pkgdir):
            raise AnalysisError(f"package directory not found: {self.pkgdir}")
        self.modules: Dict[str, Module] = {}
        h = hashlib.sha256()
        for fn in sorted(os.listdir(self.pkgdir)):
            if not fn.endswith(".py"):
                continue
            path = os.path.join(self.pkgdir, fn)
            with open(path, encoding="utf-8") as f:
                text = f.read()
            h.update(fn.encode())
            h.update(text.encode())
            name = fn[:-3]
            try:
                self.modules[name] = Module(name, path, text)
            except SyntaxError as ex:
                raise AnalysisError(f"cannot parse {path}: {ex}") from ex
        self.digest = h.hexdigest()[:16]
        if len(self.modules) < 20:
            raise AnalysisError(f"only {len(self.modules)} modules parsed under {self.pkgdir}")

    def mod(self, name: str) -> Module:
        try:
            return self.modules[name]
        except KeyError:
            raise AnalysisError(f"anchor vanished: module {name}") from None

    def func(self, ref: str) -> ast.AST:
        """ref = "module:Qual.name"."""
        m, q = ref.split(":")
        return self.mod(m).func(q)

    def has_func(self, ref: str) -> bool:
        m, q = ref.split(":")
        return m in self.modules and self.modules[m].has_func(q)

    def cls(self, ref: str) -> ast.ClassDef:
        m, q = ref.split(":")
        return self.mod(m).cls(q)

    def all_funcs(self) -> Iterator[Tuple[str, ast.AST]]:
        for m in self.modules.values():
            for q, nodes in m.funcs_all.items():
                for n in nodes:
                    yield f"{m.name}:{q}", n

    def n_functions(self) -> int:
        return sum(len(v) for m in self.modules.values() for v in m.funcs_all.values())


# ----------------------------------------------------------------------
# generic AST helpers
# ----------------------------------------------------------------------


def parent(node: ast.AST) -> Optional[ast.AST]:
    return getattr(node, "_jv_parent", None)


def ancestors(node: ast.AST) -> Iterator[ast.AST]:
    p = parent(node)
    while p is not None:
        yield p
        p = parent(p)


def enclosing_function(node: ast.AST) -> Optional[ast.AST]:
    for a in ancestors(node):
        if isinstance(a, FuncNode):
            return a
    return None


def qualname(fn: ast.AST) -> str:
    m = getattr(fn, "_jv_module", None)
    return f"{m.name if m else '?'}:{getattr(fn, '_jv_qualname', getattr(fn, 'name', '?'))}"


def walk_local(node: ast.AST, include_nested: bool = False) -> Iterator[ast.AST]:
    """Walk the body of a function without descending into nested scopes
    (nested function definitions, lambdas, classes) unless asked to.
    Comprehensions are descended into (they run inline)."""
    stack = list(ast.iter_child_nodes(node))
    while stack:
        n = stack.pop()
        yield n
        if not include_nested and isinstance(n, ScopeNode):
            continue
        stack.extend(ast.iter_child_nodes(n))


def dotted(node: ast.AST) -> Optional[str]:
    """a.b.c for Name/Attribute chains, else None.  `super().x` gives "super().x"."""
    parts: List[str] = []
    while True:
        if isinstance(node, ast.Attribute):
            parts.append(node.attr)
            node = node.value
        elif isinstance(node, ast.Name):
            parts.append(node.id)
            break
        elif isinstance(node, ast.Call) and isinstance(node.func, ast.Name) and node.func.id == "super":
            parts.append("super()")
            break
        else:
            return None
    return ".".join(reversed(parts))


def call_name(call: ast.Call) -> Optional[str]:
    """Dotted name of the callee expression of a call, if it is a plain chain."""
    return dotted(call.func)


def call_leaf(call: ast.Call) -> Optional[str]:
    f = call.func
    if isinstance(f, ast.Attribute):
        return f.attr
    if isinstance(f, ast.Name):
        return f.id
    return None


def calls_in(node: ast.AST, include_nested: bool = False) -> List[ast.Call]:
    out = [n for n in walk_local(node, include_nested) if isinstance(n, ast.Call)]
    if isinstance(node, ast.Call):
        out.append(node)
    return out


def find_calls(node: ast.AST, leaf: Optional[str] = None, name: Optional[str] = None, include_nested: bool = False) -> List[ast.Call]:
    out = []
    for c in calls_in(node, include_nested):
        if leaf is not None and call_leaf(c) != leaf:
            continue
        if name is not None and call_name(c) != name:
            continue
        out.append(c)
    out.sort(key=lambda c: (c.lineno, c.col_offset))
    return out


def stmt_of(node: ast.AST) -> ast.stmt:
    """Innermost statement that contains node."""
    n: Optional[ast.AST] = node
    while n is not None and not isinstance(n, ast.stmt):
        n = parent(n)
    if n is None:
        raise AnalysisError("node without enclosing statement")
    return n  # type: ignore[return-value]


def contains(outer: ast.AST, inner: ast.AST) -> bool:
    n: Optional[ast.AST] = inner
    while n is not None:
        if n is outer:
            return True
        n = parent(n)
    return False


def names_in(node: ast.AST) -> List[str]:
    return [n.id for n in ast.walk(node) if isinstance(n, ast.Name)]


def const_str(node: ast.AST) -> Optional[str]:
    if isinstance(node, ast.Constant) and isinstance(node.value, str):
        return node.value
    return None


def splat_keywords(call: ast.Call) -> Dict[str, ast.AST]:
    """Keyword arguments a call receives through `**name` where `name` is bound exactly once, in the enclosing function,
    to a dict literal with constant string keys (`kw = {"a": 1, ...}; f(**kw)`) - the spelling a refactoring that
    collects repeated keyword arguments produces.  Later stores `name["k"] = v` are not followed."""
    out: Dict[str, ast.AST] = {}
    for k in call.keywords:
        if k.arg is None and isinstance(k.value, ast.Name):
            fn = enclosing_function(call)
            if fn is None:
                continue
            defs = [s for s in walk_local(fn) if isinstance(s, ast.Assign) and any(isinstance(t, ast.Name) and t.id == k.value.id for t in s.targets)]
            if len(defs) == 1 and isinstance(defs[0].value, ast.Dict) and all(isinstance(kk, ast.Constant) and isinstance(kk.value, str) for kk in defs[0].value.keys):
                for kk, vv in zip(defs[0].value.keys, defs[0].value.values):
                    out[kk.value] = vv
    return out


def get_kwarg(call: ast.Call, name: str) -> Optional[ast.AST]:
    for k in call.keywords:
        if k.arg == name:
            return k.value
    return splat_keywords(call).get(name)


def get_arg(call: ast.Call, pos: int, name: Optional[str] = None) -> Optional[ast.AST]:
    if pos < len(call.args) and not any(isinstance(a, ast.Starred) for a in call.args[: pos + 1]):
        return call.args[pos]
    if name is not None:
        return get_kwarg(call, name)
    return None


def func_params(fn: ast.AST) -> List[str]:
    a = fn.args  # type: ignore[attr-defined]
    out = [x.arg for x in a.posonlyargs + a.args]
    if a.vararg:
        out.append(a.vararg.arg)
    out += [x.arg for x in a.kwonlyargs]
    if a.kwarg:
        out.append(a.kwarg.arg)
    return out


def local_names(fn: ast.AST) -> List[str]:
    """Parameters and every name stored in the function body (not nested scopes)."""
    cached = getattr(fn, "_jv_locals", None)
    if cached is not None:
        return cached
    out = list(func_params(fn))
    found = []
    for n in walk_local(fn):
        if isinstance(n, ast.Name) and isinstance(n.ctx, (ast.Store, ast.Del)):
            found.append((n.lineno, n.col_offset, n.id))
        elif isinstance(n, ast.ExceptHandler) and n.name:
            found.append((n.lineno, n.col_offset, n.name))
    for _, _, name in sorted(found):
        if name not in out:
            out.append(name)
    try:
        fn._jv_locals = out  # type: ignore[attr-defined]
    except Exception:  # pragma: no cover
        pass
    return out


class _Renamer(ast.NodeTransformer):
    """Alpha-renames locals by their index in the function (parameters first, then
    order of first binding), so two constructs of one function that differ only in
    which local they use keep different keys."""

    def __init__(self, locs: Iterable[str]):
        self.map: Dict[str, str] = {}
        for name in locs:
            if name not in ("self", "cls") and name not in self.map:
                self.map[name] = f"_v{len(self.map)}"

    def _n(self, name: str) -> str:
        return self.map.get(name, name)

    def visit_Name(self, node: ast.Name) -> ast.AST:
        return ast.copy_location(ast.Name(id=self._n(node.id), ctx=node.ctx), node)

    def visit_arg(self, node: ast.arg) -> ast.AST:
        return ast.copy_location(ast.arg(arg=self._n(node.arg), annotation=None), node)

    def visit_ExceptHandler(self, node: ast.ExceptHandler) -> ast.AST:
        self.generic_visit(node)
        if node.name:
            node.name = self._n(node.name)
        return node


def construct_key(node: ast.AST, fn: Optional[ast.AST] = None, maxlen: int = 160) -> str:
    """Normalised text of a construct: unparsed source with local variable names
    alpha-renamed in order of first use.  Stable under reformatting, comment
    edits, line shifts and renaming of locals.  Only the header of compound
    statements is used."""
    if fn is None:
        fn = enclosing_function(node)
    locs = local_names(fn) if fn is not None else []
    saved = {}
    # strip bodies of compound statements: key on the header only
    if isinstance(node, ast.stmt):
        for attr in ("body", "orelse", "finalbody", "handlers"):
            if hasattr(node, attr) and isinstance(getattr(node, attr), list):
                saved[attr] = getattr(node, attr)
                setattr(node, attr, [ast.Pass()] if attr == "body" else [])
    try:
        text = ast.unparse(node)
    finally:
        for attr, v in saved.items():
            setattr(node, attr, v)
    try:
        if isinstance(node, ast.ExceptHandler):
            n = ast.parse("try:\n pass\n" + text).body[0].handlers[0]
        elif isinstance(node, ast.withitem):
            n = ast.parse("with " + text + ": pass").body[0].items[0]
        elif isinstance(node, (ast.stmt, ast.expr)):
            body = ast.parse(text).body
            n = body[0] if isinstance(node, ast.stmt) else body[0].value
        else:
            n = ast.parse(text).body[0]
    except (SyntaxError, IndexError, AttributeError):
        # statements that only parse in context (return / yield / break ...)
        try:
            n = ast.parse("def _f():\n for _ in ():\n  " + text.replace("\n", "\n  ")).body[0].body[0].body[0]
        except SyntaxError:
            n = ast.Name(id=type(node).__name__, ctx=ast.Load())
    n = _Renamer(locs).visit(n)
    try:
        txt = ast.unparse(ast.fix_missing_locations(n))
    except Exception:  # pragma: no cover - defensive
        txt = type(node).__name__
    txt = " ".join(txt.split())
    if txt.endswith(": pass"):
        txt = txt[: -len(" pass")]
    if len(txt) > maxlen:
        txt = txt[: maxlen - 12] + "…" + hashlib.sha1(txt.encode()).hexdigest()[:10]
    return txt


def src(node: ast.AST, maxlen: int = 140) -> str:
    try:
        t = " ".join(ast.unparse(node).split())
    except Exception:  # pragma: no cover
        t = type(node).__name__
    return t if len(t) <= maxlen else t[: maxlen - 1] + "…"


def loc(node: ast.AST, fn: Optional[ast.AST] = None) -> str:
    f = fn if fn is not None else enclosing_function(node)
    m = getattr(f, "_jv_module", None) if f is not None else None
    path = m.path if m is not None else "?"
    return f"{path}:{getattr(node, 'lineno', '?')}"
