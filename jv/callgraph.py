"""E3 - call graph of the package (name / import / class-hierarchy based).

Resolution tiers (most to least precise):
  1 lexical and imported names (incl. function-local imports); ClassName(...) -> __init__
  2 self.m / cls.m through the class family (MRO of the enclosing class plus every
    override in its subclasses; mixins are widened to every class that inherits them)
  3 ClassName.m(...) static / class calls
  4 unknown receivers by method name: all package definers; names shared with
    dict / list / str / set are resolved to package methods only when a local
    inference (constructor call, annotation, naming convention of the repository)
    gives the receiver a package type
  5 explicit dispatch edges (argparse -> Action.__call__, type= callables)

Unresolved and imprecise call sites are counted; consumers say what they assume.
"""

from __future__ import annotations

import ast
from typing import Dict, Iterable, List, Optional, Set, Tuple

from .srcmodel import FuncNode, Repo, ancestors, call_leaf, dotted, enclosing_function, qualname, walk_local

COMMON_CONTAINER_METHODS = {
    "get", "pop", "update", "items", "keys", "values", "append", "extend", "insert", "remove", "clear", "copy", "sort", "reverse",
    "setdefault", "add", "discard", "index", "count", "join", "split", "strip", "startswith", "endswith", "replace", "format",
    "lower", "upper", "find", "popitem", "union", "difference", "intersection", "read", "write", "close", "open", "match", "sub",
    "search", "group", "groupdict", "debug", "info", "warning", "error", "exception", "set", "reset", "partition", "rsplit",
    "lstrip", "rstrip", "encode", "decode", "splitlines", "isdigit", "is_integer", "exit", "parse",
}  # fmt: skip

# repository naming conventions for receivers (confirmed by reading; used only for COMMON names)
NAME_TYPES = {
    "cfg": "Namespace", "namespace": "Namespace", "cfg_from": "Namespace", "cfg_to": "Namespace", "defaults": "Namespace", "ns": "Namespace",
    "parent_ns": "Namespace", "subcommand_cfg": "Namespace", "prev_cfg": "Namespace", "cfg_branch": "Namespace", "init_args": "Namespace",
    "parser": "ArgumentParser", "subparser": "ArgumentParser", "self.parser": "ArgumentParser",
}  # fmt: skip


class CallGraph:
    def __init__(self, repo: Repo):
        self.repo = repo
        self.funcs: Dict[str, ast.AST] = {}
        self.by_name: Dict[str, List[str]] = {}
        self.class_of: Dict[str, str] = {}  # function ref -> class ref
        self.classes: Dict[str, ast.ClassDef] = {}
        self.bases: Dict[str, List[str]] = {}
        self.subclasses: Dict[str, Set[str]] = {}
        self.class_by_name: Dict[str, List[str]] = {}
        for m in repo.modules.values():
            for q, lst in m.funcs_all.items():
                for fn in lst:
                    ref = f"{m.name}:{q}"
                    self.funcs[ref] = fn
                    self.by_name.setdefault(fn.name, []).append(ref)
            for q, c in m.classes.items():
                ref = f"{m.name}:{q}"
                self.classes[ref] = c
                self.class_by_name.setdefault(c.name, []).append(ref)
        for ref, c in self.classes.items():
            mod = ref.split(":")[0]
            bs = []
            for b in c.bases:
                d = dotted(b)
                if d is None:
                    continue
                leaf = d.split(".")[-1]
                if "." in d:
                    root = d.split(".")[0]
                    imp = self.repo.modules[mod].imports.get(root)
                    if imp is not None and not imp[0].startswith("."):
                        continue  # attribute of an external module (argparse.Namespace, ...)
                r = self._resolve_class_name(mod, leaf)
                if r and r != ref:
                    bs.append(r)
            self.bases[ref] = bs
        for ref in self.classes:
            for b in self._all_bases(ref):
                self.subclasses.setdefault(b, set()).add(ref)
        for fref, fn in self.funcs.items():
            mod, q = fref.split(":")
            parts = q.split(".")
            for i in range(len(parts) - 1, 0, -1):
                cref = f"{mod}:{'.'.join(parts[:i])}"
                if cref in self.classes:
                    # only direct methods (function nested directly in the class body)
                    if i == len(parts) - 1:
                        self.class_of[fref] = cref
                    break
        self.edges: Dict[str, List[Tuple[ast.Call, List[str], str]]] = {}
        self._rcache: Dict[Tuple[str, int], Tuple[List[str], str]] = {}
        self._mro: Dict[str, List[str]] = {}
        self._licache: Dict[int, Dict[str, Tuple[str, str]]] = {}
        self.stats = {"calls": 0, "resolved": 0, "external": 0, "imprecise": 0, "unresolved": 0}
        self._build()

    # ------------------------------------------------------------------ classes
    def _resolve_class_name(self, mod: str, name: str) -> Optional[str]:
        m = self.repo.modules[mod]
        if name in m.classes:
            return f"{mod}:{name}"
        imp = m.imports.get(name)
        if imp and imp[0].startswith("."):
            tm = imp[0].lstrip(".")
            if tm in self.repo.modules and imp[1] in self.repo.modules[tm].classes:
                return f"{tm}:{imp[1]}"
        # _type_checking re-exports (ArgumentParser, ActionsContainer) and late imports
        cands = self.class_by_name.get(name, []) if hasattr(self, "class_by_name") else []
        if len(cands) == 1:
            return cands[0]
        return None

    def _all_bases(self, cref: str, seen: Optional[Set[str]] = None) -> List[str]:
        seen = seen if seen is not None else set()
        out = []
        for b in self.bases.get(cref, []):
            if b not in seen:
                seen.add(b)
                out.append(b)
                out += self._all_bases(b, seen)
        return out

    def family(self, cref: str) -> List[str]:
        """The class, its bases and every subclass (and their bases): where a method
        called on `self` may be found at run time."""
        fam = [cref] + self._all_bases(cref)
        for sub in self.subclasses.get(cref, ()):  # mixins are widened to the classes that inherit them
            if sub not in fam:
                fam.append(sub)
            for b in self._all_bases(sub):
                if b not in fam:
                    fam.append(b)
        return fam

    def mro(self, cref: str) -> List[str]:
        """C3 linearisation over the package classes (external bases are leaves that do not appear)."""
        if cref in self._mro:
            return self._mro[cref]
        seqs = [self.mro(b) for b in self.bases.get(cref, [])] + [list(self.bases.get(cref, []))]
        seqs = [list(x) for x in seqs if x]
        out = [cref]
        while seqs:
            for seq in seqs:
                head = seq[0]
                if not any(head in other[1:] for other in seqs):
                    break
            else:  # inconsistent hierarchy: fall back to DFS order
                head = seqs[0][0]
            out.append(head)
            seqs = [[x for x in seq if x != head] for seq in seqs]
            seqs = [x for x in seqs if x]
        self._mro[cref] = out
        return out

    def super_targets(self, cref: str) -> List[str]:
        """Classes that `super()` inside cref can dispatch to: what follows cref in the MRO of cref
        itself or of any of its subclasses (siblings of a mixin, never subclasses of cref)."""
        out: List[str] = []
        for d in [cref] + sorted(self.subclasses.get(cref, ())):
            m = self.mro(d)
            if cref in m:
                for x in m[m.index(cref) + 1:]:
                    if x not in out and x not in self.subclasses.get(cref, ()):
                        out.append(x)
        return out

    def methods_named(self, name: str, in_classes: Optional[Iterable[str]] = None) -> List[str]:
        out = []
        for ref in self.by_name.get(name, []):
            c = self.class_of.get(ref)
            if c is None:
                continue
            if in_classes is None or c in in_classes:
                out.append(ref)
        return out

    # -------------------------------------------------------------------- build
    def _local_imports(self, fn: ast.AST) -> Dict[str, Tuple[str, str]]:
        key = id(fn)
        if key in self._licache:
            return self._licache[key]
        out = self._licache.setdefault(key, {})
        for n in walk_local(fn):
            if isinstance(n, ast.ImportFrom) and (n.level > 0 or (n.module or "").startswith("jsonargparse")):
                modname = (n.module or "").split(".")[-1]
                for a in n.names:
                    out[a.asname or a.name] = (modname, a.name)
        return out

    def _lexical(self, fref: str, name: str) -> List[str]:
        mod, q = fref.split(":")
        parts = q.split(".")
        # nested functions of enclosing functions, innermost first
        for i in range(len(parts), 0, -1):
            cand = f"{mod}:{'.'.join(parts[:i])}.{name}"
            if cand in self.funcs and cand not in self.class_of:
                return [cand]
        m = self.repo.modules[mod]
        if name in m.funcs:
            return [f"{mod}:{name}"]
        if name in m.classes:
            return self._ctor(f"{mod}:{name}")
        imp = dict(m.imports)
        li = self._local_imports(self.funcs[fref])
        for k, (tm, attr) in li.items():
            imp[k] = ("." + tm, attr)
        if name in imp and imp[name][0].startswith("."):
            tm = imp[name][0].lstrip(".")
            attr = imp[name][1]
            if tm in self.repo.modules:
                tmod = self.repo.modules[tm]
                if attr in tmod.funcs:
                    return [f"{tm}:{attr}"]
                if attr in tmod.classes:
                    return self._ctor(f"{tm}:{attr}")
                # re-export (e.g. _type_checking)
                cands = self.class_by_name.get(attr, [])
                if len(cands) == 1:
                    return self._ctor(cands[0])
        return []

    def _ctor(self, cref: str) -> List[str]:
        out = []
        for c in [cref] + self._all_bases(cref):
            mod, q = c.split(":")
            for special in ("__init__", "__new__"):
                r = f"{mod}:{q}.{special}"
                if r in self.funcs and r not in out:
                    out.append(r)
            if out:
                break
        return out or [f"<ctor {cref}>"]

    def receiver_type(self, fref: str, recv: ast.AST) -> Optional[str]:
        """Best-effort package class of a receiver expression (name of class), or None."""
        fn = self.funcs[fref]
        d = dotted(recv)
        if d in ("self", "cls"):
            c = self.class_of.get(fref)
            return c
        if isinstance(recv, ast.Name):
            # annotation of a parameter
            for a in fn.args.args + fn.args.kwonlyargs:
                if a.arg == recv.id and a.annotation is not None:
                    txt = ast.unparse(a.annotation).replace('"', "").replace("'", "")
                    for cname in ("ArgumentParser", "Namespace", "ActionsContainer", "ActionLink", "Path"):
                        if cname in txt:
                            r = self.class_by_name.get(cname)
                            if r:
                                return r[0]
            # constructor call
            for s in walk_local(fn):
                if isinstance(s, ast.Assign) and any(isinstance(t, ast.Name) and t.id == recv.id for t in s.targets) and isinstance(s.value, ast.Call):
                    leaf = call_leaf(s.value)
                    if leaf in self.class_by_name and isinstance(s.value.func, ast.Name):
                        return self.class_by_name[leaf][0]
                    if leaf in ("clone", "strip_meta", "recreate_branches", "get_defaults", "merge_config", "_apply_actions", "parse_object", "parse_args", "parse_string", "parse_env", "_parse_common"):
                        return self.class_by_name["Namespace"][0]
        if d in NAME_TYPES:
            r = self.class_by_name.get(NAME_TYPES[d])
            return r[0] if r else None
        return None

    def resolve(self, fref: str, call: ast.Call) -> Tuple[List[str], str]:
        """(targets, how) with how in lexical|self|static|typed|by-name|imprecise|external|unresolved."""
        key = (fref, id(call))
        r = self._rcache.get(key)
        if r is None:
            r = self._resolve(fref, call)
            self._rcache[key] = r
        return r

    def _resolve(self, fref: str, call: ast.Call) -> Tuple[List[str], str]:
        f = call.func
        if isinstance(f, ast.Name):
            t = self._lexical(fref, f.id)
            if t:
                return t, "lexical"
            return [], "external"
        if isinstance(f, ast.Attribute):
            name = f.attr
            recv = f.value
            d = dotted(recv)
            # super().m
            if isinstance(recv, ast.Call) and isinstance(recv.func, ast.Name) and recv.func.id == "super":
                c = self.class_of.get(fref)
                if c:
                    t = []
                    for cand in self.super_targets(c):
                        for r in self.methods_named(name, [cand]):
                            if r not in t:
                                t.append(r)
                    return (t, "self") if t else ([], "external")
                return [], "external"
            if d in ("self", "cls"):
                c = self.class_of.get(fref)
                if c is None:
                    # nested function inside a method: use the enclosing method's class
                    mod, q = fref.split(":")
                    parts = q.split(".")
                    for i in range(len(parts) - 1, 0, -1):
                        cr = f"{mod}:{'.'.join(parts[:i])}"
                        if cr in self.classes:
                            c = cr
                            break
                if c:
                    t = self.methods_named(name, self.family(c))
                    if t:
                        return t, "self"
                    return [], "external"
            # ClassName.m / module.f
            if isinstance(recv, ast.Name):
                mod = fref.split(":")[0]
                cr = self._resolve_class_name(mod, recv.id) if recv.id in self.class_by_name else None
                if cr is None:
                    li = self._local_imports(self.funcs[fref])
                    if recv.id in li and li[recv.id][1] in self.class_by_name:
                        cr = self.class_by_name[li[recv.id][1]][0]
                if cr:
                    t = self.methods_named(name, [cr] + self._all_bases(cr) + sorted(self.subclasses.get(cr, ())))
                    if t:
                        return t, "static"
                    return [], "external"
                m = self.repo.modules[mod]
                if recv.id in m.imports and not m.imports[recv.id][0].startswith("."):
                    return [], "external"  # stdlib / third-party module attribute
            # typed receiver
            rt = self.receiver_type(fref, recv)
            if rt:
                t = self.methods_named(name, self.family(rt))
                if t:
                    return t, "typed"
                return [], "external"
            if name in COMMON_CONTAINER_METHODS:
                return [], "external"
            t = self.methods_named(name)
            if len(t) == 1:
                return t, "by-name"
            if t:
                fams = {self.class_of[x] for x in t}
                return t, "imprecise" if len(fams) > 1 else "by-name"
            # module-level function accessed through an attribute (rare)
            return [], "external"
        return [], "unresolved"

    def _build(self) -> None:
        for fref, fn in self.funcs.items():
            lst = []
            for n in walk_local(fn):
                if isinstance(n, ast.Call):
                    t, how = self.resolve(fref, n)
                    self.stats["calls"] += 1
                    if how in ("external",):
                        self.stats["external"] += 1
                    elif how == "unresolved":
                        self.stats["unresolved"] += 1
                    else:
                        self.stats["resolved"] += 1
                        if how == "imprecise":
                            self.stats["imprecise"] += 1
                    if t:
                        lst.append((n, t, how))
            self.edges[fref] = lst

    def callees(self, fref: str) -> Set[str]:
        return {t for _, ts, _ in self.edges.get(fref, []) for t in ts if t in self.funcs}

    def callers(self) -> Dict[str, List[Tuple[str, ast.Call]]]:
        out: Dict[str, List[Tuple[str, ast.Call]]] = {}
        for fref, lst in self.edges.items():
            for c, ts, _ in lst:
                for t in ts:
                    out.setdefault(t, []).append((fref, c))
        return out

    def reachable_from(self, roots: Iterable[str], extra_edges: Optional[Dict[str, List[str]]] = None) -> Set[str]:
        seen = set()
        st = [r for r in roots]
        while st:
            x = st.pop()
            if x in seen or x not in self.funcs:
                continue
            seen.add(x)
            st.extend(self.callees(x))
            if extra_edges and x in extra_edges:
                st.extend(extra_edges[x])
        return seen
