"""C12 - auto_cli calls the component with exactly the parsed values.

Decided clauses:
  C12.a  keys removed from the parsed namespace before the call are exactly the
         keys auto_cli itself introduced (guard symmetry between introduction and removal)
  C12.b  exactly one component call (and at most one constructor call) per path;
         exactly one parse / instantiate / run per path of auto_cli
  C12.c  the callee's value is what is returned; the namespace passed is the
         instantiated parse result
  C12.d  signature defaults are compared by identity/equality, never by truthiness
  C12.e  subcommand selection addresses every configuration key through `prefix`
         (nested components are nested subcommand levels)
  C12.f  classmethods are recognised through the MRO (which parameter is implicit)
Not decided: required/default/Optional derivation in _add_signature_parameter;
binding for all signatures and inputs.
"""

from __future__ import annotations

import ast
from typing import Dict, FrozenSet, List, Optional, Set, Tuple

from .report import Ctx
from .srcmodel import AnalysisError, call_leaf, calls_in, const_str, contains, get_kwarg, src, walk_local
from .util import root_name, strip_not

NX = {"e"}

# which parser's introduction corresponds to which mapping popped in _run_component
#   (removed mapping, key)  ->  list of (function, receiver of the introducing call)
PAIRING = {
    ("cfg", "config"): [("_cli:auto_cli", "parser"), ("_cli:_add_subcommands", "subparser")],
    ("subcommand_cfg", "config"): [("_cli:_add_component_to_parser", "subparser")],
    ("cfg", "subcommand"): [("_cli:_add_component_to_parser", "parser")],
}
COMPONENT_ATOMS = {"has_parameter", "isclass", "get_class_methods", "getmembers", "isinstance"}


def _atoms(ctx: Ctx, fn: ast.AST, guards: List[Tuple[ast.AST, bool]]) -> Set[Tuple[str, str, bool]]:
    """Normalise guard tests into atoms (callee leaf, constant args, polarity); local
    variables are resolved to the call that defines them."""
    out: Set[Tuple[str, str, bool]] = set()

    def resolve(e: ast.AST) -> ast.AST:
        if isinstance(e, ast.Name):
            defs = [s for s in walk_local(fn) if isinstance(s, ast.Assign) and any(isinstance(t, ast.Name) and t.id == e.id for t in s.targets)]
            if len(defs) >= 1:
                return defs[0].value
        return e

    gfn = ctx.cfg(fn)
    seen_defs: Set[int] = set()

    def add(e: ast.AST, pol: bool):
        e, pos = strip_not(e)
        pol = pol == pos
        if isinstance(e, ast.Name) and pol:
            # a local that is truthy can only come from its non-falsy definitions: if there is
            # exactly one, the conditions under which that definition runs hold as well
            defs = [s for s in walk_local(fn) if isinstance(s, ast.Assign) and any(isinstance(t, ast.Name) and t.id == e.id for t in s.targets)]
            live = [s for s in defs if not (isinstance(s.value, ast.Constant) and not s.value.value)]
            if len(defs) > 1 and len(live) == 1 and id(live[0]) not in seen_defs:
                seen_defs.add(id(live[0]))
                for t2, p2 in gfn.guards_of(gfn.cn(live[0]), exclude_labels=NX):
                    add(t2, p2)
                return
        if isinstance(e, ast.BoolOp):
            # conjunction under positive polarity / disjunction under negative: every part holds
            if (isinstance(e.op, ast.And) and pol) or (isinstance(e.op, ast.Or) and not pol):
                for v in e.values:
                    add(v, pol)
            return
        e = resolve(e)
        e2, pos2 = strip_not(e)
        if e2 is not e:
            add(e2, pol == pos2)
            return
        leaves = []
        if isinstance(e, ast.Call):
            leaves = [e]
        elif isinstance(e, (ast.ListComp, ast.GeneratorExp)):
            # only the class-method enumeration is a component predicate
            leaves = [c for c in calls_in(e) if call_leaf(c) in ("getmembers", "get_class_methods")]
        for c in leaves:
            leaf = call_leaf(c)
            if leaf in COMPONENT_ATOMS:
                consts = ",".join(sorted(const_str(a) for a in c.args if const_str(a)))
                if leaf == "isinstance":
                    consts = ast.unparse(c.args[1]) if len(c.args) > 1 else ""
                    if "property" not in consts:
                        continue
                if leaf == "has_parameter" and c.args:
                    # whose signature is asked: the component itself or a method looked up on it
                    first = fn.args.args[0].arg if fn.args.args else None
                    subj = c.args[0]
                    sv = resolve(subj)
                    if isinstance(subj, ast.Name) and subj.id == first:
                        role = "component"
                    elif isinstance(sv, ast.Call) and call_leaf(sv) == "getattr" and sv.args and isinstance(sv.args[0], ast.Name) and sv.args[0].id == first:
                        role = "method of the component"
                    else:
                        role = ast.unparse(subj)
                    consts = f"{consts} of the {role}"
                if leaf == "getmembers":
                    leaf = "get_class_methods"
                out.add((leaf, consts, pol))

    for t, pol in guards:
        add(t, pol)
    return out


def run(ctx: Ctx) -> int:
    rc = ctx.func("_cli:_run_component")
    g = ctx.cfg(rc)

    # ---------------- C12.a ---------------------------------------------------
    removals: List[Tuple[str, str, ast.Call]] = []
    for c in calls_in(rc):
        if call_leaf(c) == "pop" and isinstance(c.func, ast.Attribute) and c.args and const_str(c.args[0]) is not None:
            removals.append((root_name(c.func), const_str(c.args[0]), c))
    for s in walk_local(rc):
        if isinstance(s, ast.Delete):
            for t in s.targets:
                if isinstance(t, ast.Subscript) and const_str(t.slice):
                    removals.append((root_name(t.value), const_str(t.slice), s))
    ctx.floor("C12.a-removals", len(removals), 3)
    for mapping, key, node in removals:
        pair = PAIRING.get((mapping, key))
        if pair is None:
            ctx.oblige("C12.a", False, node, f"key '{key}' is removed from `{mapping}` but auto_cli never introduces such a key there: a parameter of that name would be dropped", fn=rc)
            continue
        r_atoms = _atoms(ctx, rc, g.guards_of(g.cn(node), exclude_labels=NX))
        verdicts = []
        for fref, recv in pair:
            fn = ctx.func(fref)
            gi = ctx.cfg(fn)
            if key == "subcommand":
                intro = [c for c in calls_in(fn) if call_leaf(c) == "add_subcommands" and root_name(c.func) == recv and (get_kwarg(c, "dest") is None or const_str(get_kwarg(c, "dest")) == "subcommand")]
            else:
                intro = [c for c in calls_in(fn) if call_leaf(c) == "add_argument" and root_name(c.func) == recv and c.args and const_str(c.args[0]) == f"--{key}"]
            if not intro:
                raise AnalysisError(f"anchor vanished: introduction of '{key}' on `{recv}` in {fref}")
            for ic in intro:
                i_atoms = _atoms(ctx, fn, gi.guards_of(gi.cn(ic), exclude_labels=NX))
                # an unconditional `--key` option fails loudly (argparse option conflict) when the
                # component has a parameter of the same name; a dest (subcommand) does not
                loud = key != "subcommand"
                if not i_atoms and loud:
                    verdicts.append((True, f"introduced unconditionally on `{recv}` in {fref.split(':')[1]} (a parameter named '{key}' conflicts loudly)"))
                elif i_atoms and i_atoms <= r_atoms:
                    verdicts.append((True, f"removal guarded by the introduction's condition {sorted(i_atoms)}"))
                else:
                    verdicts.append((False, f"introduced on `{recv}` in {fref.split(':')[1]} only under {sorted(i_atoms) or 'no condition (silent dest)'} but removed under {sorted(r_atoms) or 'no condition'}"))
        ok = all(v for v, _ in verdicts)
        ctx.oblige(
            "C12.a",
            ok,
            node,
            ("; ".join(w for _, w in verdicts)) if ok else "a key is removed from the namespace although auto_cli may not have introduced it - a component parameter of that name silently loses its parsed value: " + "; ".join(w for v, w in verdicts if not v),
            fn=rc,
            details={"removal_guards": sorted(r_atoms)},
        )

    # ---------------- C12.b ---------------------------------------------------
    splat_calls = [c for c in calls_in(rc) if any(k.arg is None for k in c.keywords) and isinstance(c.func, ast.Name)]
    ctor = [s for s in walk_local(rc) if isinstance(s, ast.Assign) and isinstance(s.value, ast.Call) and s.value in splat_calls]
    ctx.need(splat_calls and ctor, "_run_component: component(**cfg) calls")
    paths = g.simple_paths(g.entry, [g.exit], exclude_labels=NX | {"r"})
    ctx.need(paths, "_run_component: paths to a return")
    ctor_nodes = set(g.cn(ctor))
    call_nodes: Dict[int, int] = {}
    for c in splat_calls:
        for i in g.cn(c):
            call_nodes[i] = call_nodes.get(i, 0) + 1
    prop_rets = [r for r in walk_local(rc) if isinstance(r, ast.Return) and isinstance(r.value, ast.Call) and call_leaf(r.value) == "getattr"]
    prop_nodes = set(g.cn(prop_rets))
    bad = None
    for p in paths:
        n_calls = sum(call_nodes.get(i, 0) for i in p)
        n_ctor = sum(1 for i in p if i in ctor_nodes)
        has_prop = any(i in prop_nodes for i in p)
        final_calls = n_calls - n_ctor
        okp = n_ctor <= 1 and ((final_calls == 1 and not has_prop) or (final_calls == 0 and has_prop and n_ctor == 1))
        if not okp and bad is None:
            bad = (p, n_calls, n_ctor, has_prop)
    ctx.oblige(
        "C12.b",
        bad is None,
        rc,
        f"on each of the {len(paths)} paths: at most one constructor call followed by exactly one final call (or one property read)" if bad is None else f"a path calls the component {bad[1]} time(s) with {bad[2]} constructor call(s): not exactly one invocation",
        fn=rc,
        construct="exactly one call per path",
        details={"path": g.describe_path(bad[0]) if bad else []},
    )
    # constructor call precedes the method call; the method is looked up on the constructed object
    meth = [s for s in walk_local(rc) if isinstance(s, ast.Assign) and root_name(s.targets[0]) == "component" and isinstance(s.value, ast.Call) and call_leaf(s.value) == "getattr"]
    ok = bool(meth) and root_name(meth[0].value.args[0]) == root_name(ctor[0].targets[0]) and g.dominates(g.cn(ctor), g.cn(meth))
    ctx.oblige("C12.b", ok, meth[0] if meth else rc, "the method is taken from the object just constructed" if ok else "the method is not looked up on the constructed instance", fn=rc)
    # constructor gets the class's own cfg, the method gets the subcommand's cfg
    rebind = [s for s in walk_local(rc) if isinstance(s, ast.Assign) and isinstance(s.targets[0], ast.Name) and s.targets[0].id == "cfg" and isinstance(s.value, ast.Name)]
    sub_pop = [s for s in walk_local(rc) if isinstance(s, ast.Assign) and isinstance(s.value, ast.Call) and call_leaf(s.value) == "pop" and root_name(s.value.func) == "cfg" and s.value.args and isinstance(s.value.args[0], ast.Name)]
    ok = bool(rebind) and bool(sub_pop) and rebind[0].value.id == root_name(sub_pop[0].targets[0]) and g.dominates(g.cn(sub_pop), g.cn(ctor)) and g.dominates(g.cn(ctor), g.cn(rebind))
    ctx.oblige("C12.b", ok, sub_pop[0] if sub_pop else rc, "the method's settings are removed from the constructor's arguments before construction and become the method's arguments afterwards" if ok else "constructor and method no longer receive only their own parameters", fn=rc)

    ac = ctx.func("_cli:auto_cli")
    ga = ctx.cfg(ac)
    pa = [c for c in calls_in(ac) if call_leaf(c) == "parse_args"]
    ic = [c for c in calls_in(ac) if call_leaf(c) == "instantiate_classes"]
    runs = [c for c in calls_in(ac) if call_leaf(c) == "_run_component"]
    ctx.need(len(pa) >= 2 and len(runs) >= 1, "auto_cli: parse_args / _run_component")
    pan, icn, rn = set(ga.cn(pa)), set(ga.cn(ic)), set(ga.cn(runs))
    for start in sorted(pan):
        ps = ga.simple_paths(start, [ga.exit], exclude_labels=NX | {"r"})
        okp = bool(ps) and all(sum(1 for i in p if i in rn) == 1 and sum(1 for i in p if i in icn) == 1 and sum(1 for i in p if i in pan) == 1 for p in ps)
        ctx.oblige("C12.b", okp, ga.nodes[start].ast, f"after this parse every path ({len(ps)}) instantiates once and runs the component once" if okp else "a path after parse_args runs the component zero or several times", fn=ac)

    # ---------------- C12.c ---------------------------------------------------
    rets = [r for r in walk_local(rc) if isinstance(r, ast.Return)]
    for r in rets:
        v = r.value
        ok = False
        if isinstance(v, ast.Call) and v in splat_calls:
            ok = True
        elif isinstance(v, ast.Call) and call_leaf(v) == "run" and v.args and v.args[0] in splat_calls:
            ok = True
        elif isinstance(v, ast.Call) and call_leaf(v) == "getattr" and root_name(v.args[0]) == root_name(ctor[0].targets[0]):
            ok = True
        ctx.oblige("C12.c", ok, r, "returns the value of the component call (or the property read)" if ok else "the component's return value is not what _run_component returns", fn=rc)
    for r in [r for r in walk_local(ac) if isinstance(r, ast.Return)]:
        if ga.can_reach(sorted(pan), ga.cn(r)):
            ok = isinstance(r.value, ast.Call) and call_leaf(r.value) == "_run_component"
            ctx.oblige("C12.c", ok, r, "auto_cli returns what _run_component returns" if ok else "auto_cli drops or replaces the component's return value", fn=ac)
    # what is passed: instantiate_classes(parse_args(args))
    for c in ic:
        a0 = c.args[0] if c.args else None
        defs = [s for s in walk_local(ac) if isinstance(s, ast.Assign) and isinstance(a0, ast.Name) and root_name(s.targets[0]) == a0.id]
        ok = bool(defs) and all(isinstance(s.value, ast.Call) and call_leaf(s.value) == "parse_args" for s in defs)
        ctx.oblige("C12.c", ok, c, "classes are instantiated from the parse result" if ok else "instantiate_classes is not applied to the parse result", fn=ac)
    for c in runs:
        a1 = c.args[1] if len(c.args) > 1 else None
        rn_ = root_name(a1) if a1 is not None else None
        defs = [s for s in walk_local(ac) if isinstance(s, ast.Assign) and root_name(s.targets[0]) == rn_ and isinstance(s.targets[0], ast.Name)]
        ok = bool(defs) and all(isinstance(s.value, ast.Call) and call_leaf(s.value) == "instantiate_classes" for s in defs)
        ctx.oblige("C12.c", ok, c, "the component is run with the instantiated parse result" if ok else "the namespace given to _run_component is not the instantiated parse result", fn=ac)
    pas = [c for c in pa]
    for c in pas:
        ok = bool(c.args) and root_name(c.args[0]) == "args" and not c.keywords
        ctx.oblige("C12.c", ok, c, "the caller's args are parsed as given" if ok else "parse_args is not called with the caller's args", fn=ac)

    # ---------------- C12.d ---------------------------------------------------
    # a falsy signature default ('' / 0 / False / []) is still a default: None-ness of `default` is decided by
    # identity, never by truthiness, where the parameter's annotation / requiredness is derived
    asp = ctx.func("_signatures:SignatureArguments._add_signature_parameter")
    n_def = 0
    for node in walk_local(asp):
        test = getattr(node, "test", None) if isinstance(node, (ast.If, ast.IfExp, ast.While)) else None
        if test is None:
            continue
        parts = []
        st_ = [test]
        while st_:
            t = st_.pop()
            if isinstance(t, ast.BoolOp):
                st_ += t.values
            elif isinstance(t, ast.UnaryOp) and isinstance(t.op, ast.Not):
                st_.append(t.operand)
            else:
                parts.append(t)
        for pt in parts:
            if isinstance(pt, ast.Name) and pt.id == "default":
                n_def += 1
                ctx.oblige("C12.d", False, node, "the signature default is tested by truthiness: parameters whose default is '' / 0 / False / [] are treated like parameters defaulting to None (they become Optional and accept null)", fn=asp)
            elif isinstance(pt, ast.Compare) and isinstance(pt.left, ast.Name) and pt.left.id == "default":
                n_def += 1
                ok = all(isinstance(o, (ast.Is, ast.IsNot, ast.Eq, ast.NotEq)) for o in pt.ops)
                ctx.oblige("C12.d", ok, pt, "the signature default is compared by identity / equality" if ok else "unexpected comparison of the signature default", fn=asp)
    ctx.floor("C12.d-default-tests", n_def, 2)

    # ---------------- C12.e ---------------------------------------------------
    # nested components (class inside a dict of components, functions in nested dicts) are nested subcommand
    # levels: the two functions that select a subcommand address the configuration of level n through
    # `prefix`; a key used without it names a different (top-level) entry
    n_pref = 0
    for ref in ("_actions:_ActionSubCommands.get_subcommands", "_actions:_ActionSubCommands.handle_subcommands"):
        fn = ctx.func(ref)
        params = [a.arg for a in fn.args.args]
        ctx.need("prefix" in params and "cfg" in params, f"{ref}(.., cfg, .., prefix, ..)")

        def prefixed(e: ast.AST, depth: int = 0) -> bool:
            if isinstance(e, ast.BinOp) and isinstance(e.op, ast.Add):
                return (isinstance(e.left, ast.Name) and e.left.id == "prefix") or prefixed(e.left, depth)
            if isinstance(e, ast.JoinedStr):
                return bool(e.values) and isinstance(e.values[0], ast.FormattedValue) and isinstance(e.values[0].value, ast.Name) and e.values[0].value.id == "prefix"
            if isinstance(e, ast.Name) and depth < 3:
                defs = [s for s in walk_local(fn) if isinstance(s, ast.Assign) and any(isinstance(t, ast.Name) and t.id == e.id for t in s.targets)]
                others = [n for n in walk_local(fn) if isinstance(n, (ast.For, ast.comprehension)) and any(isinstance(x, ast.Name) and x.id == e.id for x in ast.walk(n.target))]
                return bool(defs) and not others and all(prefixed(s.value, depth + 1) for s in defs)
            return False

        uses: List[Tuple[ast.AST, ast.AST]] = []
        for n in walk_local(fn):
            if isinstance(n, ast.Subscript) and isinstance(n.value, ast.Name) and n.value.id == "cfg":
                uses.append((n, n.slice))
            elif isinstance(n, ast.Call) and isinstance(n.func, ast.Attribute) and isinstance(n.func.value, ast.Name) and n.func.value.id == "cfg" and n.func.attr in ("get", "pop", "__contains__", "__delitem__", "__getitem__", "__setitem__", "update") and n.args:
                uses.append((n, n.args[0] if n.func.attr != "update" or len(n.args) < 2 else n.args[1]))
            elif isinstance(n, ast.Compare) and len(n.ops) == 1 and isinstance(n.ops[0], (ast.In, ast.NotIn)) and isinstance(n.comparators[0], ast.Name) and n.comparators[0].id == "cfg":
                uses.append((n, n.left))
        for node, key in uses:
            n_pref += 1
            ok = prefixed(key)
            ctx.oblige(
                "C12.e",
                ok,
                node,
                f"`{ast.unparse(key)}` addresses the current subcommand level (derived from `prefix`)" if ok else f"`{ast.unparse(node)}` addresses the configuration without `prefix`: below the first subcommand level it names a different entry (KeyError, or the wrong component's settings are kept/removed)",
                fn=fn,
            )
    ctx.floor("C12.e-prefixed-keys", n_pref, 8)

    # ---------------- C12.f ---------------------------------------------------
    # which parameter is the implicit first one (self / cls) decides what is offered and passed: a classmethod is
    # recognised by looking the attribute up statically through the whole MRO (vars(cls) sees only the class's own)
    icm = ctx.func("_parameter_resolvers:is_classmethod")
    static = [c for c in calls_in(icm) if call_leaf(c) == "getattr_static"]
    mro = any(isinstance(n_, ast.Attribute) and n_.attr in ("__mro__",) or (isinstance(n_, ast.Call) and call_leaf(n_) in ("mro", "getmro")) for n_ in ast.walk(icm))
    own_only = [c for c in calls_in(icm) if call_leaf(c) == "vars" or (isinstance(c.func, ast.Attribute) and c.func.attr == "get" and "__dict__" in ast.unparse(c.func.value))] + [n_ for n_ in ast.walk(icm) if isinstance(n_, ast.Attribute) and n_.attr == "__dict__"]
    ok = bool(static or mro) and not (own_only and not mro)
    ctx.oblige("C12.f", ok, (own_only or static or [icm])[0], "is_classmethod looks the attribute up statically through the MRO (inherited classmethods included)" if ok else "is_classmethod only looks at the class's own attributes: a classmethod inherited from a base class is taken for a plain function, its first real parameter is dropped as if it were `cls`, and the method is called without it", fn=icm)

    # has_parameter asks the full signature (keyword-only parameters included); the methods offered as subcommands
    # are the class's members through the MRO (inherited methods, classmethods), not just its own dict
    hp = ctx.func("_cli:has_parameter")
    sig = [n_ for n_ in ast.walk(hp) if isinstance(n_, ast.Attribute) and n_.attr == "parameters" and isinstance(n_.value, ast.Call) and call_leaf(n_.value) == "signature"]
    partial_ = [n_ for n_ in ast.walk(hp) if (isinstance(n_, ast.Call) and call_leaf(n_) in ("getfullargspec", "getargspec", "getargs")) or (isinstance(n_, ast.Attribute) and n_.attr in ("co_varnames", "__code__"))]
    ok = bool(sig) and not partial_
    ctx.oblige("C12.f", ok, (partial_ or sig or [hp])[0], "has_parameter looks at inspect.signature(...).parameters (every parameter kind)" if ok else "has_parameter no longer asks the full signature: a keyword-only parameter named `config` is not seen, auto_cli adds its own --config option next to it and the component cannot be built or called", fn=hp, construct="has_parameter full signature")
    gcm = ctx.func("_cli:get_class_methods")
    through_mro = any(isinstance(n_, ast.Call) and call_leaf(n_) in ("getmembers", "dir", "getmembers_static") for n_ in ast.walk(gcm))
    own = [n_ for n_ in ast.walk(gcm) if (isinstance(n_, ast.Call) and call_leaf(n_) == "vars") or (isinstance(n_, ast.Attribute) and n_.attr == "__dict__")]
    ok = through_mro and not own
    ctx.oblige("C12.f", ok, (own or [gcm])[0], "the methods offered as subcommands are the class's members through the MRO" if ok else "get_class_methods only lists the class's own attributes: inherited methods and classmethods are not offered as subcommands (a class whose public methods are all inherited is treated as having none)", fn=gcm, construct="class methods through the MRO")

    # the list of added arguments decides which helper options (--config / --print_config) a component keeps: it is
    # extended with what was just added, never with itself
    actp = ctx.func("_cli:_add_component_to_parser")
    for s in [x for x in walk_local(actp) if isinstance(x, ast.AugAssign) and isinstance(x.target, ast.Name)]:
        selfref = [g_ for c_ in ast.walk(s.value) if isinstance(c_, (ast.ListComp, ast.GeneratorExp)) for g_ in c_.generators if isinstance(g_.iter, ast.Name) and g_.iter.id == s.target.id]
        ok = not selfref
        ctx.oblige("C12.b", ok, s, f"`{s.target.id}` is extended with newly collected names" if ok else f"`{src(s, 60)}` extends `{s.target.id}` by iterating over itself: for a class without constructor parameters the list stays empty, its --config / --print_config options are removed, and `Tool --config ... run` no longer reaches the method", fn=actp)
    # forward references are resolved inside every kind of container hint (the tables of container origins)
    hst = ctx.func("_postponed_annotations:has_subtypes")
    tabs_ = {n_.comparators[0].id for n_ in ast.walk(hst) if isinstance(n_, ast.Compare) and isinstance(n_.ops[0], ast.In) and isinstance(n_.comparators[0], ast.Name)}
    need_ = {"sequence_origin_types", "tuple_set_origin_types", "mapping_origin_types"}
    ok = need_ <= tabs_
    ctx.oblige("C12.f", ok, hst, "has_subtypes covers sequences, tuples/sets and mappings" if ok else f"has_subtypes no longer tests {sorted(need_ - tabs_)}: a quoted forward reference inside such a container hint stays unresolved - the parameter is dropped from the CLI (or add fails) although the signature declares it", fn=hst, construct="container tables covered")

    ctx.trusted_base += ["argparse raises on conflicting option strings, so an unconditional --config option fails loudly if the component has a `config` parameter"]
    # ---------------- C12.g / C12.h: every parameter of the signature becomes an argument, with its final annotation --------
    tre = ctx.func("_postponed_annotations:type_requires_eval")
    leafs = set()
    for c in calls_in(tre):
        if call_leaf(c) == "isinstance" and len(c.args) == 2:
            leafs |= {x.id for x in ast.walk(c.args[1]) if isinstance(x, ast.Name)}
    ok = {"str", "ForwardRef"} <= leafs
    ctx.oblige("C12.g", ok, tre, "both spellings of an unevaluated annotation (a string, and the ForwardRef that typing makes of a quoted sub-type) are sent to evaluation" if ok else f"type_requires_eval only recognises {sorted(leafs)}: a parameter annotated List['int'] / Optional['Opts'] keeps its ForwardRef, is skipped as unsupported, and the component is called without it (TypeError) or its value is rejected as unexpected", fn=tre, construct="unevaluated leaf kinds")
    agg = [c for c in calls_in(tre) if call_leaf(c) in ("any", "all") and any(call_leaf(x) == "type_requires_eval" for x in calls_in(c))]
    ok = bool(agg) and all(call_leaf(c) == "any" for c in agg)
    ctx.oblige("C12.g", ok, agg[0] if agg else tre, "a container hint needs evaluation as soon as ONE of its members does" if ok else "a container hint is sent to evaluation only when ALL its members need it: Dict[str, 'Leaf'] keeps its forward reference, the parameter is skipped (fail_untyped=False) or breaks the CLI, and the component is called without it", fn=tre, construct="any member requires eval")
    asp2 = ctx.func("_signatures:SignatureArguments._add_signature_parameter")
    gasp = ctx.cfg(asp2)
    ann_locals = [s_.targets[0].id for s_ in walk_local(asp2) if isinstance(s_, ast.Assign) and isinstance(s_.targets[0], ast.Name) and ast.unparse(s_.value) == "param.annotation"]
    ctx.need(len(ann_locals) == 1, "_add_signature_parameter: <annotation> = param.annotation")
    annv = ann_locals[0]
    rewrites = [s_ for s_ in walk_local(asp2) if isinstance(s_, ast.Assign) and any(isinstance(t, ast.Name) and t.id == annv for t in s_.targets) and ast.unparse(s_.value) != "param.annotation"]
    ctx.floor("C12.h-annotation-rewrites", len(rewrites), 2)
    derived = [s_ for s_ in walk_local(asp2) if isinstance(s_, ast.Assign) and len(s_.targets) == 1 and isinstance(s_.targets[0], ast.Name) and s_.targets[0].id != annv and any(isinstance(x, ast.Name) and x.id == annv for x in ast.walk(s_.value)) and any(isinstance(c, ast.Call) for c in ast.walk(s_.value))]
    ctx.floor("C12.h-derived-facts", len(derived), 2)
    for d in derived:
        later = [r_ for r_ in rewrites if gasp.can_reach(gasp.cn(d), gasp.cn(r_), exclude_labels={"e"})]
        ok = not later
        ctx.oblige("C12.h", ok, d, f"`{d.targets[0].id}` is computed from the final annotation" if ok else f"`{d.targets[0].id}` is computed from `{annv}` before `{ast.unparse(later[0])[:50]}` replaces it: for `opts: Opts = None` (dataclass, implicit Optional) the fact describes Opts while the argument is declared with Optional[Opts] - building the CLI raises TypeError (unexpected keyword 'fail_untyped')", fn=asp2)

    return ctx.finish(
        explanation=(
            "Guard-symmetry check: each constant key popped from the parsed namespace in _run_component is paired (table in rules_C12.py) with the place auto_cli introduces it; "
            "the removal's control-dependence atoms (has_parameter / isclass / get_class_methods, read from the CFG) must include the introduction's, unless the introduction is an "
            "unconditional option that conflicts loudly with a same-named parameter. Plus path enumeration: exactly one component call per path, and the callee's value is returned. "
            "Decides what happens to the parsed namespace between parse_args and the call, not the signature-to-argument derivation."
        ),
        rule_text="one obligation per removal / path family / return; paths of _run_component and auto_cli are enumerated exhaustively (simple paths)",
    )
