"""C19 - path types accept exactly what the mode says; relative paths follow the config.

Decided clauses:
  C19.a  exception discipline of Path.__init__: every os.stat on the path is
         under an existence test (or converted); all explicit raises are PathError
  C19.b  lower/upper-case flag predicates are exact negations; every letter of
         the mode alphabet is tested; _check_mode rejects contradictory modes
  C19.c  every config load is consumed inside change_to_path_dir of the same path
  C19.d  os.chdir ownership and restore on all paths (shared with C08.b)
Not decided: agreement with the file system for all paths (needs an OS oracle).
"""

from __future__ import annotations

import ast
from typing import Dict, List, Optional, Set, Tuple

from .report import Ctx
from .shared_rules import check_global_state_restore
from .srcmodel import AnalysisError, call_leaf, call_name, calls_in, const_str, contains, dotted, get_kwarg, src, walk_local
from .util import body_raises, enclosing_trys, enclosing_withs, guard_chain, handler_type_names, root_name, strip_not

PAIRS = [("r", "R"), ("w", "W"), ("x", "X"), ("d", "D"), ("f", "F")]
CONSUMERS = {"parse_string", "_load_config_parser_mode", "_apply_actions", "adapt_typehints", "_parse_common"}


def _is_exists_test(e: ast.AST, path_txt: str) -> bool:
    if isinstance(e, ast.Call):
        n = call_name(e)
        if n == "os.access" and len(e.args) == 2 and ast.unparse(e.args[0]) == path_txt and ast.unparse(e.args[1]) == "os.F_OK":
            return True
        if n in ("os.path.exists", "os.path.isfile", "os.path.isdir") and e.args and ast.unparse(e.args[0]) == path_txt:
            return True
    return False


def _flag_ifs(init: ast.AST) -> Dict[str, List[Tuple[ast.If, ast.AST]]]:
    """`if "<c>" in mode and <pred>: raise PathError(...)`  ->  c -> [(if, pred)]"""
    out: Dict[str, List[Tuple[ast.If, ast.AST]]] = {}
    for n in walk_local(init):
        if not isinstance(n, ast.If) or not isinstance(n.test, ast.BoolOp) or not isinstance(n.test.op, ast.And):
            continue
        if body_raises(n.body) is None:
            continue
        first = n.test.values[0]
        if isinstance(first, ast.Compare) and len(first.ops) == 1 and isinstance(first.ops[0], ast.In) and const_str(first.left) and len(const_str(first.left)) == 1 and root_name(first.comparators[0]) == "mode":
            rest = n.test.values[1:]
            pred = rest[0] if len(rest) == 1 else ast.BoolOp(op=ast.And(), values=rest)
            out.setdefault(const_str(first.left), []).append((n, pred))
    return out


def _norm(e: ast.AST, path_txt: str) -> str:
    """Canonical text of a predicate: existence guards dropped, double negation removed."""

    def rec(x: ast.AST) -> Optional[ast.AST]:
        if isinstance(x, ast.UnaryOp) and isinstance(x.op, ast.Not):
            inner = rec(x.operand)
            if inner is None:
                return None
            if isinstance(inner, ast.UnaryOp) and isinstance(inner.op, ast.Not):
                return inner.operand
            return ast.UnaryOp(op=ast.Not(), operand=inner)
        if isinstance(x, ast.BoolOp):
            vals = []
            for v in x.values:
                if isinstance(x.op, ast.And) and _is_exists_test(v, path_txt) and call_name(v) == "os.access":
                    continue  # existence guard
                r = rec(v)
                if r is not None:
                    vals.append(r)
            if not vals:
                return None
            if len(vals) == 1:
                return vals[0]
            return ast.BoolOp(op=x.op, values=vals)
        return x

    r = rec(e)
    return ast.unparse(r) if r is not None else "True"


def run(ctx: Ctx) -> int:
    init = ctx.func("_util:Path.__init__")
    ctx.expect_locals(init, ["abs_path", "mode", "path", "cwd", "pdir", "ppdir"])
    g = ctx.cfg(init)

    # ---------------- C19.a ---------------------------------------------------
    stats = [c for c in calls_in(init) if call_name(c) in ("os.stat", "os.lstat", "os.listdir", "os.readlink")]
    ctx.floor("C19.a-stat-sites", len(stats), 2)
    for c in stats:
        ptxt = ast.unparse(c.args[0]) if c.args else ""
        ok, how = False, ""
        for t, part in enclosing_trys(c):
            if part == "body":
                for h in t.handlers:
                    names = set(handler_type_names(h))
                    if names & {"OSError", "FileNotFoundError", "Exception", "IOError"} and any(isinstance(r, ast.Raise) and isinstance(r.exc, ast.Call) and call_leaf(r.exc) == "PathError" for r in walk_local(h)):
                        ok, how = True, "converted to PathError by the enclosing try"
        if not ok:
            guards = list(guard_chain(c)) + list(g.guards_of(g.cn(c), exclude_labels={"e"}))
            for t, pol in guards:
                inner, pos = strip_not(t)
                if (pol == pos) and _is_exists_test(inner, ptxt) and call_name(inner) in ("os.access", "os.path.exists"):
                    ok, how = True, f"only evaluated when {ast.unparse(inner)} holds"
        ctx.oblige("C19.a", ok, c, f"os.stat on the path is safe: {how}" if ok else f"{src(c)} can raise FileNotFoundError for a missing path: no existence test guards it and nothing converts it to PathError", fn=init)
    rz = [r for r in walk_local(init) if isinstance(r, ast.Raise)]
    bad = [r for r in rz if not (isinstance(r.exc, ast.Call) and call_leaf(r.exc) == "PathError")]
    ctx.oblige("C19.a", not bad, bad[0] if bad else init, f"all {len(rz)} explicit raises of Path.__init__ are PathError" if not bad else "Path.__init__ raises something other than PathError", fn=init, construct="raises PathError only")
    pe = ctx.repo.cls("_util:PathError")
    ok = any(dotted(b) == "TypeError" for b in pe.bases)
    ctx.oblige("C19.a", ok, None, "PathError is a TypeError (converted by the parse entries)" if ok else "PathError is no longer a TypeError", site="_util:PathError bases", construct="PathError<TypeError", function="_util:PathError")

    # ---------------- C19.b ---------------------------------------------------
    cm = ctx.func("_util:Path._check_mode")
    ctx.expect_locals(cm, ["mode", "flag", "count"])
    alpha = None
    for c in calls_in(cm):
        if call_leaf(c) == "set" and c.args and const_str(c.args[0]) and len(const_str(c.args[0])) > 5:
            alpha = const_str(c.args[0])
    ctx.need(alpha, "Path._check_mode: mode alphabet")
    tested: Set[str] = set()
    for n in walk_local(init):
        if isinstance(n, ast.Compare) and len(n.ops) == 1 and isinstance(n.ops[0], ast.In) and const_str(n.left) and root_name(n.comparators[0]) == "mode":
            tested.add(const_str(n.left))
        if isinstance(n, ast.Call) and call_leaf(n) == "count" and root_name(n.func) == "mode" and n.args and const_str(n.args[0]):
            tested.add(const_str(n.args[0]))
    missing = sorted(set(alpha) - tested)
    ctx.oblige("C19.b", not missing, cm, f"every flag of the mode alphabet [{alpha}] is tested in Path.__init__" if not missing else f"mode flags accepted by _check_mode but never checked in Path.__init__: {missing}", fn=init, construct="alphabet exhaustively tested")
    ifs = _flag_ifs(init)
    for lo, up in PAIRS:
        lows, ups = ifs.get(lo, []), ifs.get(up, [])
        if not lows or not ups:
            ctx.oblige("C19.b", False, init, f"flag pair {lo}/{up}: check for {'lower' if not lows else 'upper'} case flag vanished", fn=init, construct=f"pair {lo}/{up}")
            continue
        ptxt = "abs_path"
        up_preds = {_norm(p, ptxt) for _, p in ups}
        low_preds = {_norm(ast.UnaryOp(op=ast.Not(), operand=p), ptxt) for _, p in lows}
        ok = bool(up_preds & low_preds)
        ctx.oblige(
            "C19.b",
            ok,
            ups[0][0],
            f"'{up}' rejects exactly when '{lo}' accepts: {sorted(up_preds & low_preds)[0] if ok else ''}" if ok else f"flags {lo}/{up} are not exact negations: '{up}' rejects when {sorted(up_preds)}, '{lo}' accepts when {sorted(low_preds)}",
            fn=init,
            construct=f"pair {lo}/{up}",
        )
    # the lower-case access checks are unconditional (not nested under the type checks)
    for lo in "rwx":
        for n, p in ifs.get(lo, []):
            gch = guard_chain(n)
            names = {ast.unparse(t) for t, _ in gch}
            ok = all(("_skip_check" in t or "_std_io" in t or "is_url" in t or "is_fsspec" in t) for t in names)
            ctx.oblige("C19.b", ok, n, f"'{lo}' is checked for every local path" if ok else f"'{lo}' check is nested under {sorted(names)}", fn=init, construct=f"{lo} unconditional")
    # _check_mode rejects contradictory modes and repeats
    combos = set()
    for n in walk_local(cm):
        if isinstance(n, ast.If) and isinstance(n.test, ast.BoolOp) and isinstance(n.test.op, ast.And) and body_raises(n.body) is not None:
            fl = sorted(const_str(v.left) for v in n.test.values if isinstance(v, ast.Compare) and const_str(v.left))
            combos.add("".join(fl))
    ok = {"df", "du", "ds"} <= combos
    ctx.oblige("C19.b", ok, cm, "contradictory modes f+d, u+d, s+d are rejected" if ok else f"_check_mode no longer rejects all of f+d, u+d, s+d (has {sorted(combos)})", fn=cm, construct="contradictory modes")
    cnt = [n for n in walk_local(cm) if isinstance(n, ast.For) and "Counter(mode)" in ast.unparse(n.iter)]
    ok = bool(cnt) and any(isinstance(r, ast.Raise) for r in walk_local(cnt[0])) and '2 if flag == "c" else 1' in ast.unparse(cnt[0]).replace("'", '"')
    ctx.oblige("C19.b", ok, cnt[0] if cnt else cm, "repeated flags are rejected (c at most twice)" if ok else "repeat check of mode flags changed", fn=cm, construct="repeated flags")

    # fixpoint walk to the nearest existing ancestor: `while ... and cur != prev:` must save prev = cur before
    # cur is advanced, otherwise the loop stops after one step
    n_fp = 0
    for lp in [n_ for n_ in walk_local(init) if isinstance(n_, ast.While)]:
        cmps = [x for x in ast.walk(lp.test) if isinstance(x, ast.Compare) and len(x.ops) == 1 and isinstance(x.ops[0], ast.NotEq) and isinstance(x.left, ast.Name) and isinstance(x.comparators[0], ast.Name)]
        for cmp_ in cmps:
            cur, prev = cmp_.left.id, cmp_.comparators[0].id
            save = [s for s in lp.body if isinstance(s, ast.Assign) and isinstance(s.targets[0], ast.Name) and isinstance(s.value, ast.Name) and {s.targets[0].id, s.value.id} == {cur, prev}]
            adv = [s for s in lp.body if isinstance(s, ast.Assign) and isinstance(s.targets[0], ast.Name) and not isinstance(s.value, ast.Name) and s.targets[0].id in (cur, prev)]
            both = [s for s in lp.body if isinstance(s, ast.Assign) and len(s.targets) == 2 and all(isinstance(t, ast.Name) for t in s.targets) and {t.id for t in s.targets} == {cur, prev}]
            if both:
                # canonical form of `cur = <advance>; prev = cur`: the remembered value is the advanced one
                n_fp += 1
                ctx.oblige("C19.b", False, lp, f"`{prev}` is assigned together with / after the advanced `{cur}`: the loop condition `{ast.unparse(cmp_)}` fails after the first step, so only one missing parent level is tolerated for the doubled creatable flag", fn=init)
                continue
            if not save or not adv:
                continue
            n_fp += 1
            saved_var, advanced = save[0].targets[0].id, adv[0].targets[0].id
            ok = saved_var != advanced and save[0].value.id == advanced and lp.body.index(save[0]) < lp.body.index(adv[0])
            ctx.oblige("C19.b", ok, lp, f"`{saved_var}` remembers the previous `{advanced}` before it is advanced (the walk continues until a fixpoint)" if ok else f"`{saved_var}` is assigned after `{advanced}` was advanced: the loop condition `{ast.unparse(cmp_)}` fails after the first step, so only one missing parent level is tolerated for the doubled creatable flag", fn=init)
    if n_fp == 0:
        # the same walk written as a single step (`if` instead of `while`): one level only
        for st in [n_ for n_ in walk_local(init) if isinstance(n_, ast.If)]:
            cmps = [x for x in ast.walk(st.test) if isinstance(x, ast.Compare) and len(x.ops) == 1 and isinstance(x.ops[0], ast.NotEq) and isinstance(x.left, ast.Name) and isinstance(x.comparators[0], ast.Name)]
            probes = [c for c in ast.walk(st.test) if isinstance(c, ast.Call) and call_name(c) in ("os.path.isdir", "os.path.exists")]
            for cmp_ in cmps:
                cur, prev = cmp_.left.id, cmp_.comparators[0].id
                body_assigns = {t.id for s_ in st.body if isinstance(s_, ast.Assign) for t in s_.targets if isinstance(t, ast.Name)}
                if probes and {cur, prev} <= body_assigns:
                    n_fp += 1
                    ctx.oblige("C19.b", False, st, f"the walk to the nearest existing ancestor (`{ast.unparse(st.test)[:70]}`) is a single `if` step, not a loop: a path with two or more missing parent levels is rejected for the doubled creatable flag although it can be created", fn=init)
    ctx.floor("C19.b-fixpoint-loops", n_fp, 1)

    # every file-system probe of the mode checks looks at the RESOLVED path (the value stored as self._absolute,
    # or a parent directory derived from it) - the spelling the caller gave only resolves from the process cwd
    abs_stores = [s for s in walk_local(init) if isinstance(s, ast.Assign) and any(isinstance(t, ast.Attribute) and t.attr == "_absolute" and root_name(t) == "self" for t in s.targets)]
    ctx.need(abs_stores and all(isinstance(s.value, ast.Name) for s in abs_stores), "Path.__init__: self._absolute = <local>")
    resolved = {s.value.id for s in abs_stores}
    rel_stores = [s for s in walk_local(init) if isinstance(s, ast.Assign) and any(isinstance(t, ast.Attribute) and t.attr == "_relative" and root_name(t) == "self" for t in s.targets)]
    raw = {s.value.id for s in rel_stores if isinstance(s.value, ast.Name)} - resolved
    derived = set(resolved)
    changed = True
    while changed:
        changed = False
        for s in walk_local(init):
            if isinstance(s, ast.Assign) and len(s.targets) == 1 and isinstance(s.targets[0], ast.Name) and s.targets[0].id not in derived:
                nm = {x.id for x in ast.walk(s.value) if isinstance(x, ast.Name)}
                if nm & derived and not (nm & raw):
                    derived.add(s.targets[0].id)
                    changed = True
    PROBES = {"os.access", "os.path.isfile", "os.path.isdir", "os.path.exists", "os.stat", "os.path.islink", "os.lstat"}
    n_probe = 0
    for c in calls_in(init):
        if call_name(c) in PROBES and c.args:
            n_probe += 1
            names = {x.id for x in ast.walk(c.args[0]) if isinstance(x, ast.Name)}
            ok = bool(names & derived) and not (names & raw)
            ctx.oblige(
                "C19.b",
                ok,
                c,
                f"probe of the resolved path (`{ast.unparse(c.args[0])}`)" if ok else f"`{src(c, 60)}` probes `{ast.unparse(c.args[0])}`, which is not the resolved path ({sorted(resolved)}): for a relative, `~` or file:// spelling, or a cwd other than the process's, the test looks at a different file than the one the Path denotes",
                fn=init,
            )
    ctx.floor("C19.b-probes", n_probe, 15)

    # "already a path of this type" means an instance of the library's own Path (mode checked, relative/absolute
    # recorded) - not anything path-like: a pathlib.Path given as a default or through parse_object is still checked
    ipt = ctx.func("typing:_is_path_type")
    insts = [c for c in calls_in(ipt) if call_leaf(c) == "isinstance" and len(c.args) == 2]
    cls_param = ipt.args.args[1].arg if len(ipt.args.args) > 1 else None
    ok = len(insts) == 1 and isinstance(insts[0].args[1], ast.Name) and ((insts[0].args[1].id == "Path" and ctx.repo.modules["typing"].imports.get("Path", ("", ""))[0].endswith("_util")) or insts[0].args[1].id == cls_param)
    ctx.oblige("C19.b", ok, insts[0] if insts else ipt, "a value counts as already of a path type only if it is an instance of jsonargparse's Path (or of the registered path class itself)" if ok else f"the 'already of this type' test of the path types is `{ast.unparse(insts[0]) if insts else '?'}`, wider than jsonargparse's Path: a pathlib.Path (default, parse_object) is accepted without any mode check and without relative/absolute bookkeeping", fn=ipt, construct="path type check")
    # `file://...` is a local path for EVERY mode: the normalisation is not conditioned on the mode (a mode with `s`
    # would otherwise classify a local file as an fsspec path - no overwrite check, no local mode checks)
    from .util import guard_atoms

    fsubs = [s for s in walk_local(init) if isinstance(s, ast.Assign) and isinstance(s.value, ast.Call) and call_leaf(s.value) == "sub" and "_file_scheme" in ast.unparse(s.value.func)]
    ctx.need(fsubs, "Path.__init__: self._file_scheme.sub(...)")
    for s in fsubs:
        extra_g = [ast.unparse(t) for t, pol in guard_atoms(s, stop=init) if "mode" in {x.id for x in ast.walk(t) if isinstance(x, ast.Name)}]
        ok = not extra_g
        ctx.oblige("C19.b", ok, s, "the file:// prefix is stripped whatever the mode" if ok else f"the file:// normalisation only happens under {extra_g}: with the other modes a file:// path is taken for a remote (fsspec) path - save() then writes it through the branch without overwrite check, local mode checks are skipped", fn=init)
    # what the Path hands out is what it checked: open() and get_content() use the resolved location
    for mname in ("open", "get_content"):
        pm = ctx.func(f"_util:Path.{mname}")
        opens = [c for c in calls_in(pm) if call_leaf(c) in ("open", "get", "head") and c.args and isinstance(c.args[0], ast.Attribute) and root_name(c.args[0]) == "self"]
        ctx.need(opens, f"Path.{mname}: open(self._absolute, ...)")
        for c in opens:
            ok = c.args[0].attr == "_absolute"
            ctx.oblige("C19.b", ok, c, f"Path.{mname} uses the resolved location" if ok else f"Path.{mname} opens `{ast.unparse(c.args[0])}`: for a path that was resolved against a config file's directory (or given with cwd=, or spelt ~/...) the file opened is not the file that was checked", fn=pm)
    # resolve_relative_path: every `..` removes the previous component
    rrp = ctx.func("_util:resolve_relative_path")
    pops_ = [c for c in calls_in(rrp) if call_leaf(c) == "pop"]
    ctx.need(pops_, "resolve_relative_path: resolved.pop()")
    for c in pops_:
        atoms = [ast.unparse(t) for t, pol in guard_atoms(c, stop=rrp)]
        ok = len(atoms) == 1 and "'..'" in atoms[0].replace('"', "'")
        ctx.oblige("C19.c", ok, c, "each `..` component removes the component before it" if ok else f"the `..` step is additionally guarded by {[a for a in atoms if '..' not in a] or atoms}: a relative path that climbs to the top level of a remote location (`../data.txt` next to memory://one/config.yaml) resolves one level too deep - another file is read", fn=rrp)

    # what counts as absolute: an operating-system absolute path, or a URL - and a URL has `://` in it.  A bare
    # `name:` prefix is a legal relative file name (`stage:train.yaml`).  The language of the URL test is compared
    # with  .*://.*  (regular-language inclusion)
    iap = ctx.func("_util:is_absolute_path")
    pp_ = iap.args.args[0].arg
    url_tests = [n_ for n_ in walk_local(iap) if isinstance(n_, ast.If)]
    ctx.need(url_tests, "is_absolute_path: URL test")
    ut = url_tests[0].test
    verdict, why_ = None, ""
    txt_ = ast.unparse(ut).replace(" ", "").replace('"', "'")
    import re as _re19

    sub_const = None
    if isinstance(ut, ast.Compare) and len(ut.ops) == 1:
        l_, r_ = ut.left, ut.comparators[0]
        if isinstance(l_, ast.Call) and call_leaf(l_) in ("find", "index") and root_name(l_.func) == pp_ and l_.args and const_str(l_.args[0]) is not None and isinstance(ut.ops[0], (ast.Gt, ast.GtE, ast.NotEq)):
            sub_const = const_str(l_.args[0])
        elif isinstance(ut.ops[0], ast.In) and const_str(l_) is not None and isinstance(r_, ast.Name) and r_.id == pp_:
            sub_const = const_str(l_)
    if sub_const is not None:
        from .relang import DFA

        lang = DFA.from_regex("(?s:.*)" + _re19.escape(sub_const) + "(?s:.*)", mode="fullmatch")
        urls = DFA.from_regex("(?s:.*)://(?s:.*)", mode="fullmatch")
        okk, wit_ = urls.includes(lang)
        verdict, why_ = okk, f"e.g. {wit_!r}"
    else:
        rm = [c for c in ast.walk(ut) if isinstance(c, ast.Call) and call_name(c) in ("re.match", "re.search", "re.fullmatch") and c.args and const_str(c.args[0]) is not None]
        if len(rm) == 1 and isinstance(ut, ast.Call):
            from .relang import DFA

            rx = const_str(rm[0].args[0])
            mode_ = {"re.match": "match", "re.fullmatch": "fullmatch", "re.search": "search"}[call_name(rm[0])]
            if mode_ == "search":
                rx, mode_ = "(?s:.*)(?:" + rx + ")", "match"
            lang = DFA.from_regex(rx, mode=mode_)
            if mode_ == "match":
                lang = DFA.from_regex("(?:" + rx + ")(?s:.*)", mode="fullmatch")
            urls = DFA.from_regex("(?s:.*)://(?s:.*)", mode="fullmatch")
            okk, wit_ = urls.includes(lang)
            verdict, why_ = okk, f"e.g. {wit_!r}"
    if verdict is None:
        raise AnalysisError(f"is_absolute_path: cannot read the URL test `{ast.unparse(ut)}`")
    ctx.oblige("C19.b", verdict, ut, "a non-OS-absolute path counts as absolute only if it contains `://` (a URL)" if verdict else f"the URL test of is_absolute_path accepts text without `://` ({why_}): a relative file name with a colon is taken for absolute, is not joined with the directory it belongs to, and is read / written in the process working directory instead", fn=iap, construct="absolute means OS-absolute or URL")

    # parse_value_or_config hands back the path it read the value from, whatever kind of value the file held:
    # callers resolve relative entries of the value against that file's directory
    pvc = ctx.func("_util:parse_value_or_config")
    gp = ctx.cfg(pvc)
    pstores = [s for s in walk_local(pvc) if isinstance(s, ast.Assign) and isinstance(s.targets[0], ast.Name) and isinstance(s.value, ast.Call) and call_leaf(s.value) == "Path"]
    ctx.need(len(pstores) == 1, "parse_value_or_config: <cfg_path> = Path(value, ...)")
    cpv = pstores[0].targets[0].id
    resets = [s for s in walk_local(pvc) if isinstance(s, ast.Assign) and s is not pstores[0] and any(isinstance(t, ast.Name) and t.id == cpv for t in s.targets)]
    late = [s for s in resets if gp.can_reach(gp.cn(pstores), gp.cn(s))]
    rets_p = [r for r in walk_local(pvc) if isinstance(r, ast.Return)]
    ok = not late and all(isinstance(r.value, ast.Tuple) and len(r.value.elts) == 2 and isinstance(r.value.elts[1], ast.Name) and r.value.elts[1].id == cpv for r in rets_p)
    ctx.oblige("C19.c", ok, late[0] if late else pvc, f"the path a value was read from is returned as read (`{cpv}` is not changed after it was set)" if ok else f"`{cpv}` is overwritten after the file was read ({src(late[0], 40) if late else 'return changed'}): for a file whose content is not a mapping (a list of paths) the caller no longer enters the file's directory, so its relative entries resolve against the process cwd", fn=pvc, construct="config path returned as read")

    # ---------------- C19.c ---------------------------------------------------
    n_sites = 0
    for fq, fn in ctx.repo.all_funcs():
        if fq.startswith("_deprecated:"):
            continue
        producers: List[Tuple[str, ast.AST]] = []
        for s in walk_local(fn):
            if isinstance(s, (ast.Assign, ast.AnnAssign)) and s.value is not None:
                v = s.value
                tg = s.targets[0] if isinstance(s, ast.Assign) else s.target
                if isinstance(v, ast.Call) and call_leaf(v) == "Path" and get_kwarg(v, "mode") is not None and "get_config_read_mode" in ast.unparse(get_kwarg(v, "mode")) and isinstance(tg, ast.Name):
                    producers.append((tg.id, s))
                elif isinstance(v, ast.Call) and call_leaf(v) == "parse_value_or_config" and isinstance(tg, ast.Tuple) and len(tg.elts) == 2 and isinstance(tg.elts[1], ast.Name) and tg.elts[1].id != "_":
                    producers.append((tg.elts[1].id, s))
            if isinstance(s, ast.For) and isinstance(s.iter, ast.Name):
                defs = [d for d in walk_local(fn) if isinstance(d, ast.Assign) and root_name(d.targets[0]) == s.iter.id and isinstance(d.value, ast.Call) and call_leaf(d.value) == "_get_default_config_files"]
                if defs and isinstance(s.target, ast.Tuple) and isinstance(s.target.elts[-1], ast.Name):
                    producers.append((s.target.elts[-1].id, s))
        if not producers:
            continue
        gf = ctx.cfg(fn)
        for pname, pstmt in producers:
            pn = gf.cn(pstmt) if not isinstance(pstmt, ast.For) else gf.node_ids_of(pstmt)
            starts = [t for i in pn for t, lab in gf.nodes[i].succ if lab != "e"]
            after = gf.reachable(starts, include_srcs=True)
            for c in calls_in(fn):
                leaf = call_leaf(c)
                content_vars = {d.targets[0].id for d in walk_local(fn) if isinstance(d, ast.Assign) and isinstance(d.targets[0], ast.Name) and isinstance(d.value, ast.Call) and call_leaf(d.value) == "get_content" and root_name(d.value.func) == pname}
                is_cons = leaf in CONSUMERS or (leaf == "load_value" and f"{pname}.get_content()" in ast.unparse(c)) or (leaf in ("_load_config_parser_mode", "load_value") and c.args and isinstance(c.args[0], ast.Name) and c.args[0].id in content_vars)
                if not is_cons:
                    continue
                if not (set(gf.cn(c)) & after):
                    continue
                n_sites += 1
                ok = False
                for w, item in enclosing_withs(c):
                    ce = item.context_expr
                    if isinstance(ce, ast.Call) and call_leaf(ce) == "change_to_path_dir" and ce.args and root_name(ce.args[0]) == pname:
                        ok = True
                    if isinstance(ce, ast.Call) and call_leaf(ce) == "relative_path_context" and root_name(ce.func) == pname:
                        ok = True
                # the ORIGINAL TEXT of the value (a copy taken before the load) names the file relative to the
                # directory we were in when it was given: it must not be interpreted inside the directory of the
                # file it names (sub/files.lst would be looked up as sub/sub/files.lst)
                a0 = c.args[0] if c.args else None
                prod_in = None
                if isinstance(pstmt, ast.Assign) and isinstance(pstmt.value, ast.Call) and pstmt.value.args and isinstance(pstmt.value.args[0], ast.Name):
                    prod_in = pstmt.value.args[0].id
                is_orig = (
                    isinstance(a0, ast.Name)
                    and prod_in is not None
                    and a0.id != prod_in
                    and any(isinstance(d, ast.Assign) and any(isinstance(t, ast.Name) and t.id == a0.id for t in d.targets) and isinstance(d.value, ast.Name) and d.value.id == prod_in and gf.dominates(gf.cn(d), pn) for d in walk_local(fn))
                    and not any(isinstance(d, ast.Assign) and d is not pstmt and any(isinstance(t, ast.Name) and t.id == a0.id for x in [d] for t in (x.targets[0].elts if isinstance(x.targets[0], ast.Tuple) else x.targets)) and not (isinstance(d.value, ast.Name) and d.value.id == prod_in) for d in walk_local(fn))
                )
                if is_orig:
                    ctx.oblige(
                        "C19.c",
                        not ok,
                        c,
                        f"the original text `{a0.id}` is re-interpreted in the directory it was given in (not inside change_to_path_dir({pname}))" if not ok else f"{leaf}({a0.id}, ...) re-interprets the ORIGINAL TEXT of the value inside change_to_path_dir({pname}) - the directory of the very file that text names: a relative `sub/files.lst` is looked up as `sub/sub/files.lst`, so a relative plain-text list file is rejected while the same file given by absolute path is accepted",
                        fn=fn,
                    )
                    continue
                ctx.oblige("C19.c", ok, c, f"content loaded from `{pname}` is interpreted inside change_to_path_dir({pname})" if ok else f"{leaf}(...) interprets a config loaded from `{pname}` outside `with change_to_path_dir({pname})`: relative paths inside it resolve against the process cwd", fn=fn)
    ctx.floor("C19.c", n_sites, 7)
    # a configuration read from a file is MERGED inside that file's directory too: merge_config adapts the file's
    # 'key+' appends (ActionTypeHint.apply_appends), and their relative paths belong to the file
    n_mf = 0
    for fref in ("_actions:ActionConfigFile.apply_config", "_core:ArgumentParser.get_defaults"):
        fn = ctx.func(fref)
        gf = ctx.cfg(fn)
        loaded = {}
        for s in walk_local(fn):
            if isinstance(s, ast.Assign) and isinstance(s.targets[0], ast.Name) and isinstance(s.value, ast.Call):
                leaf = call_leaf(s.value)
                if leaf == "parse_path" and s.value.args and isinstance(s.value.args[0], ast.Name):
                    # the Path local built from the same input
                    pl = [d.targets[0].id for d in walk_local(fn) if isinstance(d, ast.Assign) and isinstance(d.value, ast.Call) and call_leaf(d.value) == "Path" and d.value.args and isinstance(d.value.args[0], ast.Name) and d.value.args[0].id == s.value.args[0].id and isinstance(d.targets[0], ast.Name)]
                    pl += [d.target.id for d in walk_local(fn) if isinstance(d, ast.AnnAssign) and isinstance(d.value, ast.Call) and call_leaf(d.value) == "Path" and d.value.args and isinstance(d.value.args[0], ast.Name) and d.value.args[0].id == s.value.args[0].id and isinstance(d.target, ast.Name)]
                    if pl:
                        loaded[s.targets[0].id] = pl[0]
                if leaf == "_load_config_parser_mode" and s.value.args and "get_content" in ast.unparse(s.value.args[0]):
                    loaded[s.targets[0].id] = root_name(s.value.args[0])
        for c in calls_in(fn):
            if call_leaf(c) == "merge_config" and c.args and isinstance(c.args[0], ast.Name) and c.args[0].id in loaded:
                n_mf += 1
                pname = loaded[c.args[0].id]
                ok = any(isinstance(it.context_expr, ast.Call) and call_leaf(it.context_expr) == "change_to_path_dir" and it.context_expr.args and root_name(it.context_expr.args[0]) == pname for _, it in enclosing_withs(c, stop=fn))
                ctx.oblige(
                    "C19.c",
                    ok,
                    c,
                    f"the configuration read from `{pname}` is merged inside change_to_path_dir({pname})" if ok else f"the configuration read from `{pname}` is merged outside its directory: a `key+: [relative/path]` append written in that file is adapted during the merge and resolves against the process working directory",
                    fn=fn,
                )
    ctx.floor("C19.c-file-merges", n_mf, 2, defer=True)  # a load moved out of the directory is reported by the consumer rule above
    # relative_path_context is change_to_path_dir(self)
    rpc = ctx.func("_util:Path.relative_path_context")
    ok = any(isinstance(it.context_expr, ast.Call) and call_leaf(it.context_expr) == "change_to_path_dir" and root_name(it.context_expr.args[0]) == "self" for w in walk_local(rpc) if isinstance(w, ast.With) for it in w.items)
    ctx.oblige("C19.c", ok, rpc, "Path.relative_path_context delegates to change_to_path_dir(self)" if ok else "relative_path_context no longer enters change_to_path_dir(self)", fn=rpc)
    # Path() resolves relative paths against current_path_dir/cwd at construction, stores absolute
    txt = ast.unparse(init)
    ok = "os.path.join(cwd, abs_path)" in txt and "self._absolute = abs_path" in txt and "self._relative = path" in txt
    ctx.oblige("C19.c", ok, init, "relative paths are joined with the working directory at construction; original spelling and absolute location are both stored" if ok else "Path.__init__ bookkeeping of relative/absolute changed", fn=init, construct="relative/absolute bookkeeping")

    # ---------------- C19.d ---------------------------------------------------
    check_global_state_restore(ctx, "C19.d")

    ctx.trusted_base += ["os.access / os.path.isfile / os.path.isdir do not raise for missing paths; os.stat does"]
    # ---------------- C19.a (encodability probe) -------------------------------------------------------------------------
    # os.fsencode raises UnicodeEncodeError for text the file system encoding cannot hold; the handler that turns it into
    # PathError must name that class (or a base of it)
    from .util import enclosing_trys as _et19, handler_type_names as _htn19

    for c in [c for c in calls_in(init) if call_name(c) == "os.fsencode"]:
        names = set()
        for t_, part in _et19(c):
            if part == "body":
                for h in t_.handlers:
                    if any(isinstance(r, ast.Raise) and r.exc is not None and "PathError" in ast.unparse(r.exc) for r in ast.walk(h)):
                        names |= {n.split(".")[-1] for n in _htn19(h)}
        ok = bool(names & {"UnicodeEncodeError", "UnicodeError", "ValueError", "Exception"})
        ctx.oblige("C19.a", ok, c, "text the file system cannot encode is reported as PathError" if ok else f"the handler around os.fsencode catches {sorted(names) or 'nothing'}: UnicodeEncodeError for a path such as 'out_\\ud800.txt' (a JSON config can produce it) leaves Path.__init__ raw instead of the documented PathError", fn=init, construct="fsencode failure converted")

    return ctx.finish(
        explanation=(
            "Internal consistency of the mode language and scoping of directory changes: every os.stat in Path.__init__ is under a positive existence test (CFG control dependence + "
            "short-circuit) or converted; explicit raises are PathError; for each pair r/R w/W x/X d/D f/F the upper-case predicate is structurally the negation of the lower-case one "
            "(existence guards factored out); every alphabet letter is tested; every consumer of a loaded config runs lexically inside change_to_path_dir of the same path; os.chdir is owned "
            "by two functions and restored in finally. Not decided: agreement with the file system for all paths."
        ),
        rule_text="one obligation per os.stat site / flag pair / consumer call site / chdir site",
    )
