"""E2 - statement-level control-flow graph with exception edges.

One CFG per function.  Nodes are simple statements, branch tests, loop
heads, with-enter / with-exit, handler heads, ENTRY, EXIT (normal return) and
XEXIT (exception leaves the function).  `finally` bodies and with-exits are
instantiated once per continuation kind (normal / exception / return / break /
continue) so that path queries stay precise.

Edge labels:
    n        normal fall through
    t / f    branch outcome of an `if` / `while` / assert test
    loop     a `for` head yields another element;   exhaust   iteration ends
    e        implicit exception (statement contains a call, subscript load,
             yield or assert) - over-approximate
    r        explicit `raise`
    ret      `return`
    brk/cnt  break / continue

Path queries are reachability questions on the graph with some nodes or edges
removed ("every path from A to B passes through S"  <=>  B is unreachable from A
once S is removed).  Functions are small; no dominator tree is needed.
"""

from __future__ import annotations

import ast
from typing import Callable, Dict, Iterable, List, Optional, Sequence, Set, Tuple

from .srcmodel import AnalysisError, FuncNode, ScopeNode, call_leaf, call_name, dotted, parent

EXC_LABELS = {"e", "r"}


class Node:
    __slots__ = ("id", "kind", "ast", "succ", "pred", "tag")

    def __init__(self, id: int, kind: str, astnode: Optional[ast.AST], tag: str = ""):
        self.id = id
        self.kind = kind
        self.ast = astnode
        self.succ: List[Tuple[int, str]] = []
        self.pred: List[Tuple[int, str]] = []
        self.tag = tag

    def __repr__(self) -> str:  # pragma: no cover
        ln = getattr(self.ast, "lineno", "")
        return f"<{self.id}:{self.kind}{':' + self.tag if self.tag else ''}@{ln}>"


def _may_raise(node: ast.AST) -> bool:
    """Does evaluating this statement / expression possibly raise implicitly?"""
    stack = [node]
    while stack:
        n = stack.pop()
        if isinstance(n, ast.Call) and _is_total_call(n):
            f = n.func
            if isinstance(f, ast.Attribute) and is_logger_expr(f.value) and f.attr not in ("reset",):
                continue  # logging call: receiver and arguments were already judged total
            stack.extend(ast.iter_child_nodes(n))
            continue
        if isinstance(n, (ast.Call, ast.Yield, ast.YieldFrom, ast.Await)):
            return True
        if isinstance(n, ast.Subscript) and isinstance(n.ctx, (ast.Load, ast.Del)):
            return True
        if isinstance(n, ast.Subscript) and isinstance(n.ctx, ast.Store):
            return True
        if isinstance(n, ScopeNode):
            # a def / lambda / class statement does not run its body
            if isinstance(n, ast.Lambda):
                continue
            if n is not node:
                continue
            # decorators and defaults are evaluated
            for d in getattr(n, "decorator_list", []):
                stack.append(d)
            continue
        stack.extend(ast.iter_child_nodes(n))
    return False


# calls that do not raise for any argument (trusted facts about builtins / contextvars)
TOTAL_BUILTINS = {"isinstance", "hasattr", "callable", "id"}


def _is_total_call(c: ast.Call) -> bool:
    f = c.func
    if isinstance(f, ast.Name) and f.id in TOTAL_BUILTINS:
        return True
    if isinstance(f, ast.Name) and f.id == "getattr" and len(c.args) == 3:
        return True
    # ContextVar.reset(token) with the token obtained from the matching set() does not raise
    if isinstance(f, ast.Attribute) and f.attr == "reset" and len(c.args) == 1 and not c.keywords:
        return True
    # logging never raises into the caller: Logger.debug/.../log swallow handler and formatting errors (logging.raiseExceptions only prints)
    if isinstance(f, ast.Attribute) and f.attr in ("debug", "info", "warning", "warn", "error", "exception", "critical", "log") and is_logger_expr(f.value):
        return all(_total_expr(a) for a in list(c.args) + [k.value for k in c.keywords]) and _total_expr(f.value)
    return False


def is_logger_expr(e: ast.AST) -> bool:
    """The receiver is a logger: a name / attribute whose last component says so (logger, _logger, log, logging)
    or a getLogger(...) call."""
    if isinstance(e, ast.Name):
        return "log" in e.id.lower()
    if isinstance(e, ast.Attribute):
        return "log" in e.attr.lower()
    if isinstance(e, ast.Call):
        fn = e.func
        return (isinstance(fn, ast.Attribute) and fn.attr == "getLogger") or (isinstance(fn, ast.Name) and fn.id == "getLogger")
    return False


def _total_expr(e: ast.AST) -> bool:
    """Evaluating e cannot raise: constants, names, attribute chains rooted at names/self, f-strings of such, total calls."""
    if isinstance(e, (ast.Constant, ast.Name)):
        return True
    if isinstance(e, ast.Attribute):
        return _total_expr(e.value)
    if isinstance(e, ast.JoinedStr):
        return all(_total_expr(v) for v in e.values)
    if isinstance(e, ast.FormattedValue):
        return _total_expr(e.value)
    if isinstance(e, ast.Call):
        # getLogger(...) / __import__("logging") chains used to obtain a logger
        fn = e.func
        leaf = fn.attr if isinstance(fn, ast.Attribute) else fn.id if isinstance(fn, ast.Name) else None
        if leaf in ("getLogger", "__import__") and all(isinstance(a, ast.Constant) for a in e.args):
            return _total_expr(fn) if isinstance(fn, ast.Attribute) else True
        return _is_total_call(e)
    return False


def _is_catch_all(h: ast.ExceptHandler) -> bool:
    if h.type is None:
        return True
    names = []
    if isinstance(h.type, ast.Tuple):
        names = [dotted(e) for e in h.type.elts]
    else:
        names = [dotted(h.type)]
    return any(n in ("Exception", "BaseException") for n in names)


class _Frame:
    def __init__(self, kind: str, **kw):
        self.kind = kind  # 'except' | 'finally' | 'with' | 'loop'
        self.__dict__.update(kw)
        self.memo: Dict[Tuple, int] = {}


class CFG:
    def __init__(self, fn: ast.AST, noreturn: Optional[Callable[[ast.Call], bool]] = None, suppress_names: Sequence[str] = ("suppress",)):
        if not isinstance(fn, FuncNode):
            raise AnalysisError("CFG needs a function definition")
        self.fn = fn
        self.nodes: List[Node] = []
        self.by_ast: Dict[int, List[int]] = {}
        self._noreturn = noreturn or (lambda c: False)
        self._suppress = set(suppress_names)
        self.entry = self._new("entry", None)
        self.exit = self._new("exit", None)
        self.xexit = self._new("xexit", None)
        ends = self._block(fn.body, [self.entry], [])
        for e, lab in ends:
            self._edge(e, self.exit, lab)

    # ------------------------------------------------------------------ build
    def _new(self, kind: str, astnode: Optional[ast.AST], tag: str = "", register: bool = True) -> int:
        n = Node(len(self.nodes), kind, astnode, tag)
        self.nodes.append(n)
        if astnode is not None and register:
            self.by_ast.setdefault(id(astnode), []).append(n.id)
        return n.id

    def _edge(self, a: int, b: int, label: str = "n") -> None:
        if (b, label) not in self.nodes[a].succ:
            self.nodes[a].succ.append((b, label))
            self.nodes[b].pred.append((a, label))

    def _connect(self, ends: List[Tuple[int, str]], target: int) -> None:
        for e, lab in ends:
            self._edge(e, target, lab)

    def _block(self, stmts: Sequence[ast.stmt], preds, frames) -> List[Tuple[int, str]]:
        """preds: list of node ids or (id,label).  Returns dangling (id,label) ends."""
        ends: List[Tuple[int, str]] = [(p, "n") if isinstance(p, int) else p for p in preds]
        for s in stmts:
            if not ends:
                # unreachable code: still build it (so anchors can be found) but unconnected
                pass
            ends = self._stmt(s, ends, frames)
        return ends

    def _simple(self, kind: str, astnode: ast.AST, ends, frames, tag: str = "", may_raise: Optional[bool] = None) -> int:
        n = self._new(kind, astnode, tag)
        self._connect(ends, n)
        if may_raise is None:
            may_raise = _may_raise(astnode)
        if may_raise:
            self._unwind(n, "e", "exc", frames)
        return n

    def _is_noreturn_stmt(self, s: ast.stmt) -> bool:
        if isinstance(s, ast.Expr) and isinstance(s.value, ast.Call):
            return self._noreturn(s.value)
        return False

    def _stmt(self, s: ast.stmt, ends, frames) -> List[Tuple[int, str]]:
        if isinstance(s, ast.If):
            t = self._simple("test", s.test, ends, frames)
            self.by_ast.setdefault(id(s), []).append(t)
            a = self._block(s.body, [(t, "t")], frames)
            b = self._block(s.orelse, [(t, "f")], frames) if s.orelse else [(t, "f")]
            return a + b
        if isinstance(s, ast.While):
            t = self._simple("test", s.test, ends, frames)
            self.by_ast.setdefault(id(s), []).append(t)
            after: List[Tuple[int, str]] = []
            const_true = isinstance(s.test, ast.Constant) and bool(s.test.value)
            fr = _Frame("loop", head=t, breaks=after)
            body_ends = self._block(s.body, [(t, "t")], frames + [fr])
            self._connect(body_ends, t)
            out = list(after)
            if not const_true:
                if s.orelse:
                    out += self._block(s.orelse, [(t, "f")], frames)
                else:
                    out.append((t, "f"))
            return out
        if isinstance(s, (ast.For, ast.AsyncFor)):
            it = self._simple("iter", s.iter, ends, frames)
            h = self._new("loop", s)
            self._edge(it, h, "n")
            if _may_raise(s.iter) or True:
                # advancing an iterator may raise (generators); keep the edge
                self._unwind(h, "e", "exc", frames)
            after = []
            fr = _Frame("loop", head=h, breaks=after)
            body_ends = self._block(s.body, [(h, "loop")], frames + [fr])
            self._connect(body_ends, h)
            out = list(after)
            if s.orelse:
                out += self._block(s.orelse, [(h, "exhaust")], frames)
            else:
                out.append((h, "exhaust"))
            return out
        if isinstance(s, (ast.With, ast.AsyncWith)):
            cur = ends
            wframes = list(frames)
            for item in s.items:
                enter = self._simple("with_enter", item, cur, wframes, may_raise=True)
                self.by_ast.setdefault(id(s), []).append(enter)
                after_ph = self._new("join", None, "after_with")
                fr = _Frame("with", item=item, stmt=s, after=after_ph, suppress=self._is_suppress(item))
                wframes = wframes + [fr]
                cur = [(enter, "n")]
            body_ends = self._block(s.body, cur, wframes)
            # normal exit: unwind the with frames innermost first
            for fr in reversed(wframes[len(frames):]):
                x = self._new("with_exit", fr.item, "normal", register=False)
                self._connect(body_ends, x)
                self._edge(x, fr.after, "n")
                body_ends = [(fr.after, "n")]
                # __exit__ may raise
                outer = wframes[: wframes.index(fr)]
                self._unwind(x, "e", "exc", outer)
            return body_ends
        if isinstance(s, ast.Try) or s.__class__.__name__ == "TryStar":
            return self._try(s, ends, frames)
        if isinstance(s, ast.Return):
            n = self._simple("stmt", s, ends, frames, tag="return")
            self._unwind(n, "ret", "return", frames)
            return []
        if isinstance(s, ast.Raise):
            n = self._simple("stmt", s, ends, frames, tag="raise", may_raise=False)
            self._unwind(n, "r", "exc", frames)
            return []
        if isinstance(s, ast.Break):
            n = self._simple("stmt", s, ends, frames, tag="break", may_raise=False)
            self._unwind(n, "brk", "break", frames)
            return []
        if isinstance(s, ast.Continue):
            n = self._simple("stmt", s, ends, frames, tag="continue", may_raise=False)
            self._unwind(n, "cnt", "continue", frames)
            return []
        if isinstance(s, ast.Assert):
            n = self._simple("stmt", s, ends, frames, tag="assert", may_raise=True)
            return [(n, "n")]
        if isinstance(s, ast.Match):  # pragma: no cover - not used by the package
            raise AnalysisError(f"unsupported statement `match` at line {s.lineno}")
        # simple statement (incl. nested def / class)
        n = self._simple("stmt", s, ends, frames)
        if self._is_noreturn_stmt(s):
            self.nodes[n].tag = "noreturn"
            return []
        return [(n, "n")]

    def _is_suppress(self, item: ast.withitem) -> bool:
        ce = item.context_expr
        return isinstance(ce, ast.Call) and call_leaf(ce) in self._suppress

    def _try(self, s, ends, frames) -> List[Tuple[int, str]]:
        fin = _Frame("finally", stmt=s, frames=frames) if s.finalbody else None
        base = frames + ([fin] if fin else [])
        heads = []
        for h in s.handlers:
            heads.append(self._new("handler", h))
        exf = _Frame("except", stmt=s, heads=heads, handlers=s.handlers)
        body_frames = base + ([exf] if s.handlers else [])
        body_ends = self._block(s.body, ends, body_frames)
        if s.orelse:
            body_ends = self._block(s.orelse, body_ends, base)
        out = list(body_ends)
        for h, hn in zip(s.handlers, heads):
            out += self._block(h.body, [(hn, "n")], base)
        if fin:
            if out:
                start, fends = self._finally_copy(fin, "normal")
                self._connect(out, start)
                return fends
            return []
        return out

    def _finally_copy(self, fin: _Frame, kind: str):
        """Instantiate the finally body for one continuation kind.  Returns
        (entry node id, dangling ends)."""
        key = ("copy", kind)
        if key in fin.memo:
            return fin.memo[key]
        start = self._new("finally", fin.stmt, kind, register=False)
        ends = self._block(fin.stmt.finalbody, [(start, "n")], fin.frames)
        fin.memo[key] = (start, ends)
        return start, ends

    def _unwind(self, src: int, label: str, kind: str, frames: List[_Frame]) -> None:
        """Connect `src` to where control goes for a jump of the given kind
        (exc / return / break / continue), running finally bodies and with-exits
        on the way."""
        cur: List[Tuple[int, str]] = [(src, label)]
        i = len(frames) - 1
        while i >= 0:
            fr = frames[i]
            if fr.kind == "except":
                if kind == "exc":
                    for hn in fr.heads:
                        self._connect(cur, hn)
                    if any(_is_catch_all(h) for h in fr.handlers):
                        return
            elif fr.kind == "finally":
                mkey = (kind,) if kind in ("exc", "return") else (kind, id(self._loop_frame(frames, i)))
                if mkey in fr.memo:
                    self._connect(cur, fr.memo[mkey])
                    return
                start = self._new("finally", fr.stmt, kind, register=False)
                fr.memo[mkey] = start
                self._connect(cur, start)
                cur = self._block(fr.stmt.finalbody, [(start, "n")], fr.frames)
                if not cur:
                    return
                # keep branch labels of the last statement: go through a join node, then
                # continue unwinding with the label of the jump kind
                j = self._new("join", None, "finally_end")
                self._connect(cur, j)
                cur = [(j, _relabel(kind, "n"))]
            elif fr.kind == "with":
                mkey = (kind,) if kind in ("exc", "return") else (kind, id(self._loop_frame(frames, i)))
                if mkey in fr.memo:
                    self._connect(cur, fr.memo[mkey])
                    return
                x = self._new("with_exit", fr.item, kind, register=False)
                fr.memo[mkey] = x
                self._connect(cur, x)
                if kind == "exc" and fr.suppress:
                    self._edge(x, fr.after, "n")
                cur = [(x, _relabel(kind, "n"))]
            elif fr.kind == "loop":
                if kind == "break":
                    fr.breaks.extend((e, "brk") for e, _ in cur)
                    return
                if kind == "continue":
                    self._connect([(e, "cnt") for e, _ in cur], fr.head)
                    return
            i -= 1
        if kind == "exc":
            self._connect(cur, self.xexit)
        elif kind == "return":
            self._connect(cur, self.exit)
        else:  # pragma: no cover
            raise AnalysisError("break/continue outside loop")

    @staticmethod
    def _loop_frame(frames, upto):
        for j in range(upto, -1, -1):
            if frames[j].kind == "loop":
                return frames[j]
        return None

    # ---------------------------------------------------------------- queries
    def node_ids_of(self, astnode: ast.AST) -> List[int]:
        """CFG nodes whose own ast is this node (statement, test expr, withitem, handler)."""
        return list(self.by_ast.get(id(astnode), []))

    def nodes_containing(self, astnode: ast.AST) -> List[int]:
        """CFG nodes that evaluate the given (sub)expression / statement."""
        n: Optional[ast.AST] = astnode
        while n is not None and n is not self.fn:
            ids = self.by_ast.get(id(n))
            if ids:
                # for If/While statements by_ast maps to the test node, but only if
                # the expression really is inside the test
                if isinstance(n, (ast.If, ast.While)) and astnode is not n:
                    # astnode is inside body, not test: keep climbing is wrong; stop
                    return []
                if isinstance(n, (ast.With, ast.AsyncWith)) and astnode is not n:
                    return []
                return list(ids)
            n = parent(n)
        return []

    def succs(self, nid: int, labels: Optional[Set[str]] = None, exclude: Optional[Set[str]] = None):
        for t, lab in self.nodes[nid].succ:
            if labels is not None and lab not in labels:
                continue
            if exclude is not None and lab in exclude:
                continue
            yield t, lab

    def reachable(
        self,
        srcs: Iterable[int],
        removed: Iterable[int] = (),
        exclude_labels: Optional[Set[str]] = None,
        removed_edges: Optional[Set[Tuple[int, int, str]]] = None,
        include_srcs: bool = False,
    ) -> Set[int]:
        """Nodes reachable from srcs by >= 1 edge (or >= 0 if include_srcs),
        never entering a removed node."""
        removed = set(removed)
        seen: Set[int] = set()
        stack = []
        for s in srcs:
            if include_srcs and s not in removed:
                seen.add(s)
            stack.append(s)
        visited_src = set()
        while stack:
            n = stack.pop()
            if n in visited_src:
                continue
            visited_src.add(n)
            for t, lab in self.nodes[n].succ:
                if exclude_labels and lab in exclude_labels:
                    continue
                if removed_edges and (n, t, lab) in removed_edges:
                    continue
                if t in removed:
                    continue
                if t not in seen:
                    seen.add(t)
                if t not in visited_src:
                    stack.append(t)
        return seen

    def must_pass(
        self,
        via: Iterable[int],
        frm: Iterable[int],
        to: Iterable[int],
        exclude_labels: Optional[Set[str]] = None,
        removed_edges: Optional[Set[Tuple[int, int, str]]] = None,
        strict: bool = False,
    ) -> bool:
        """Every path from a node of `frm` to a node of `to` passes through `via`.
        With strict=True paths of length >= 1 are considered (frm itself does not count as reached)."""
        via = set(via)
        to = set(to) - via
        r = self.reachable(
            [f for f in frm if f not in via],
            removed=via,
            exclude_labels=exclude_labels,
            removed_edges=removed_edges,
            include_srcs=not strict,
        )
        return not (r & to)

    def dominates(
        self,
        a: Iterable[int],
        b: Iterable[int],
        exclude_labels: Optional[Set[str]] = None,
        removed_edges: Optional[Set[Tuple[int, int, str]]] = None,
    ) -> bool:
        """Every path ENTRY -> b passes through a."""
        return self.must_pass(a, [self.entry], b, exclude_labels, removed_edges)

    def branch_edges(self, test: ast.AST, label: str) -> Set[Tuple[int, int, str]]:
        """Edges leaving the test node(s) of an if/while with the given label ('t' or 'f')."""
        out = set()
        for nid in self.by_ast.get(id(test), []):
            for t, lab in self.nodes[nid].succ:
                if lab == label:
                    out.add((nid, t, lab))
        return out

    def cn(self, astnodes) -> List[int]:
        """CFG nodes evaluating any of the given AST nodes."""
        if isinstance(astnodes, ast.AST):
            astnodes = [astnodes]
        out: List[int] = []
        for a in astnodes:
            for i in self.nodes_containing(a):
                if i not in out:
                    out.append(i)
        return out

    def can_reach(self, a: Iterable[int], b: Iterable[int], exclude_labels: Optional[Set[str]] = None, removed: Iterable[int] = ()) -> bool:
        return bool(self.reachable(a, removed=removed, exclude_labels=exclude_labels) & set(b))

    def live_nodes(self) -> Set[int]:
        return self.reachable([self.entry], include_srcs=True)

    def find_path(self, frm: Iterable[int], to: Iterable[int], removed: Iterable[int] = (), exclude_labels: Optional[Set[str]] = None) -> Optional[List[int]]:
        """Shortest path (BFS) from frm to to avoiding removed; for reports."""
        removed = set(removed)
        to = set(to)
        from collections import deque

        prev: Dict[int, Optional[int]] = {}
        dq = deque()
        for f in frm:
            if f in removed:
                continue
            prev[f] = None
            dq.append(f)
        while dq:
            n = dq.popleft()
            for t, lab in self.nodes[n].succ:
                if exclude_labels and lab in exclude_labels:
                    continue
                if t in removed or t in prev:
                    continue
                prev[t] = n
                if t in to:
                    path = [t]
                    while prev[path[-1]] is not None:
                        path.append(prev[path[-1]])  # type: ignore[arg-type]
                    return list(reversed(path))
                dq.append(t)
        return None

    def describe_path(self, path: Optional[List[int]]) -> List[str]:
        if not path:
            return []
        out = []
        for nid in path:
            n = self.nodes[nid]
            ln = getattr(n.ast, "lineno", None)
            if n.kind in ("entry", "exit", "xexit"):
                out.append(n.kind.upper())
            elif n.kind == "join":
                continue
            else:
                try:
                    txt = " ".join(ast.unparse(n.ast).split())[:80] if n.ast is not None else ""
                except Exception:  # pragma: no cover
                    txt = ""
                if n.kind in ("loop",):
                    txt = txt.split(":")[0]
                out.append(f"{n.kind}{'(' + n.tag + ')' if n.tag else ''}@{ln}: {txt}")
        return out

    def guards_of(self, nodes: Iterable[int], exclude_labels: Optional[Set[str]] = None) -> List[Tuple[ast.AST, bool]]:
        """Control dependence from the graph: tests T such that the given nodes are
        reachable from ENTRY only through one outcome of T.  Returns (test expr, outcome)."""
        nodes = set(nodes)
        out: List[Tuple[ast.AST, bool]] = []
        for n in self.nodes:
            if n.kind != "test" or n.ast is None:
                continue
            for lab, pol in (("t", True), ("f", False)):
                edges = {(n.id, t, l) for t, l in n.succ if l == lab}
                if not edges:
                    continue
                other = {(n.id, t, l) for t, l in n.succ if l in ("t", "f") and l != lab}
                if not other:
                    continue
                r = self.reachable([self.entry], removed_edges=edges, exclude_labels=exclude_labels, include_srcs=True)
                if not (r & nodes):
                    out.append((n.ast, pol))
        return out

    def simple_paths(self, frm: int, to: Iterable[int], exclude_labels: Optional[Set[str]] = None, limit: int = 20000) -> List[List[int]]:
        """All simple paths (no node repeated) from frm to any node of `to`."""
        to = set(to)
        out: List[List[int]] = []
        stack: List[Tuple[int, List[int]]] = [(frm, [frm])]
        while stack:
            n, path = stack.pop()
            if n in to and len(path) > 1 or (n in to and n != frm):
                out.append(path)
                if len(out) > limit:
                    raise AnalysisError("too many paths")
                continue
            for t, lab in self.nodes[n].succ:
                if exclude_labels and lab in exclude_labels:
                    continue
                if t in path:
                    continue
                stack.append((t, path + [t]))
        return out

    def stmts(self) -> int:
        return sum(1 for n in self.nodes if n.kind not in ("entry", "exit", "xexit", "join"))


def _relabel(kind: str, lab: str) -> str:
    return {"exc": "e", "return": "ret", "break": "brk", "continue": "cnt"}.get(kind, lab)


# ----------------------------------------------------------------------
# no-return inference
# ----------------------------------------------------------------------

EXTERNAL_NORETURN = {"sys.exit", "os._exit", "exit", "quit"}


class NoReturnOracle:
    """Decides whether a call never returns normally.

    Package functions are classified by their own CFG (no path ENTRY -> EXIT),
    iterated to a fixpoint; calls are matched by leaf name when every package
    function of that leaf name is no-return (so `self.error(...)`,
    `parser.error(...)`, `raise_unexpected_value(...)` all qualify).  argparse's
    `exit` (leaf `exit` on a parser receiver) and `sys.exit` are external facts.
    """

    def __init__(self, repo):
        self.repo = repo
        self.noreturn_quals: Set[str] = set()
        self.by_leaf: Dict[str, List[str]] = {}
        for q, fn in repo.all_funcs():
            self.by_leaf.setdefault(fn.name, []).append(q)
        self._fix()

    def _fix(self) -> None:
        changed = True
        rounds = 0
        while changed and rounds < 6:
            changed = False
            rounds += 1
            for q, fn in self.repo.all_funcs():
                if q in self.noreturn_quals:
                    continue
                if _is_generator(fn):
                    continue
                # cheap pre-filter: must contain a raise or a call to a known noreturn at top level
                g = CFG(fn, self)
                if g.exit not in g.reachable([g.entry]):
                    self.noreturn_quals.add(q)
                    changed = True

    def __call__(self, call: ast.Call) -> bool:
        name = call_name(call)
        leaf = call_leaf(call)
        if name in EXTERNAL_NORETURN:
            return True
        if leaf == "exit" and isinstance(call.func, ast.Attribute):
            recv = dotted(call.func.value)
            if recv in ("self", "parser", "sys"):
                return True
        if leaf is None:
            return False
        if isinstance(call.func, ast.Attribute) and is_logger_expr(call.func.value):
            return False  # logger.error(...) / self._logger.error(...) is logging, not the parser's no-return error()
        quals = self.by_leaf.get(leaf)
        if not quals:
            return False
        return all(q in self.noreturn_quals for q in quals)


def _is_generator(fn: ast.AST) -> bool:
    stack = list(ast.iter_child_nodes(fn))
    while stack:
        n = stack.pop()
        if isinstance(n, (ast.Yield, ast.YieldFrom)):
            return True
        if isinstance(n, ScopeNode):
            continue
        stack.extend(ast.iter_child_nodes(n))
    return False
