"""Behaviour-preserving rewrites used to test the rules for brittleness (self-test of the thorough tier and
tools/neutral_experiment.py).  Each transformer rewrites one construct into an equivalent spelling everywhere."""

import ast

class ElseSwap(ast.NodeTransformer):
    """if c: A else: B  ->  if not c: B else: A   (only plain else, not elif chains)"""

    def visit_If(self, node):
        self.generic_visit(node)
        if node.orelse and not (len(node.orelse) == 1 and isinstance(node.orelse[0], ast.If)):
            t = node.test
            nt = t.operand if isinstance(t, ast.UnaryOp) and isinstance(t.op, ast.Not) else ast.UnaryOp(op=ast.Not(), operand=t)
            node.test, node.body, node.orelse = nt, node.orelse, node.body
        return node


class Annotate(ast.NodeTransformer):
    """unannotated parameters get `: 'object'` (annotations are not enforced)"""

    def _fn(self, node):
        self.generic_visit(node)
        for a in node.args.posonlyargs + node.args.args + node.args.kwonlyargs:
            if a.annotation is None and a.arg not in ("self", "cls"):
                a.annotation = ast.Constant("object")
        return node

    visit_FunctionDef = _fn
    visit_AsyncFunctionDef = _fn


class FString(ast.NodeTransformer):
    """<name> + "<const>"  ->  f"{<name>}<const>"   (string concatenation of a key and a separator)"""

    def visit_BinOp(self, node):
        self.generic_visit(node)
        if isinstance(node.op, ast.Add) and isinstance(node.right, ast.Constant) and isinstance(node.right.value, str) and node.right.value in (".", ".init_args.", "://", "::") and isinstance(node.left, ast.Name):
            return ast.JoinedStr(values=[ast.FormattedValue(value=node.left, conversion=-1), ast.Constant(node.right.value)])
        return node


class GuardSplit(ast.NodeTransformer):
    """if a and b: S   (no else)  ->  if a:\n    if b: S"""

    def visit_If(self, node):
        self.generic_visit(node)
        if not node.orelse and isinstance(node.test, ast.BoolOp) and isinstance(node.test.op, ast.And) and len(node.test.values) == 2:
            a, b = node.test.values
            return ast.If(test=a, body=[ast.If(test=b, body=node.body, orelse=[])], orelse=[])
        return node


class WithSplit(ast.NodeTransformer):
    """with A, B: S  ->  with A:\n    with B: S"""

    def visit_With(self, node):
        self.generic_visit(node)
        if len(node.items) > 1:
            inner = node.body
            for it in reversed(node.items[1:]):
                inner = [ast.With(items=[it], body=inner)]
            return ast.With(items=[node.items[0]], body=inner)
        return node


class ReturnVar(ast.NodeTransformer):
    """return <call>  ->  _result = <call>; return _result     (functions without a local of that name)"""

    def _fn(self, node):
        self.generic_visit(node)
        if any(isinstance(n, ast.Name) and n.id == "_result" for n in ast.walk(node)):
            return node

        class R(ast.NodeTransformer):
            def visit_FunctionDef(self, n):
                return n

            visit_AsyncFunctionDef = visit_FunctionDef
            visit_Lambda = visit_FunctionDef

            def visit_Return(self, r):
                if isinstance(r.value, ast.Call):
                    return [ast.Assign(targets=[ast.Name("_result", ast.Store())], value=r.value), ast.Return(ast.Name("_result", ast.Load()))]
                return r

        node.body = [x for s in node.body for x in (lambda y: y if isinstance(y, list) else [y])(R().visit(s))]
        return node

    visit_FunctionDef = _fn
    visit_AsyncFunctionDef = _fn


class Ternary(ast.NodeTransformer):
    """x = a if c else b  ->  if c: x = a  else: x = b"""

    def visit_Assign(self, node):
        if isinstance(node.value, ast.IfExp) and len(node.targets) == 1 and isinstance(node.targets[0], ast.Name):
            v = node.value
            return ast.If(test=v.test, body=[ast.Assign(targets=node.targets, value=v.body)], orelse=[ast.Assign(targets=[ast.Name(node.targets[0].id, ast.Store())], value=v.orelse)])
        return node


class DeChain(ast.NodeTransformer):
    """a = b = v  (b a plain name)  ->  b = v; a = b"""

    def visit_Assign(self, node):
        if len(node.targets) == 2 and isinstance(node.targets[1], ast.Name):
            b = node.targets[1]
            return [ast.Assign(targets=[b], value=node.value), ast.Assign(targets=[node.targets[0]], value=ast.Name(b.id, ast.Load()))]
        return node


class NotIn(ast.NodeTransformer):
    """a not in b -> not (a in b);  a is not b -> not (a is b)"""

    def visit_Compare(self, node):
        self.generic_visit(node)
        if len(node.ops) == 1 and isinstance(node.ops[0], (ast.NotIn, ast.IsNot)):
            op = ast.In() if isinstance(node.ops[0], ast.NotIn) else ast.Is()
            return ast.UnaryOp(op=ast.Not(), operand=ast.Compare(left=node.left, ops=[op], comparators=node.comparators))
        return node


KINDS = {"with-split": WithSplit, "return-var": ReturnVar, "ternary": Ternary, "dechain": DeChain, "not-in": NotIn, "else-swap": ElseSwap, "annotate": Annotate, "fstring": FString, "guard-split": GuardSplit}


