"""C16 - classes are instantiated in an order compatible with every link.

Decided clauses (narrow, see DESIGN.md):
  C16.a  the cycle check at link creation sees the new link and its ValueError is re-raised
  C16.b  instantiate_classes iterates the reordered components and applies the
         instantiation links of a component before building it; remaining links after the loop
  C16.c  DFS bookkeeping typestate of DirectedGraph.topological_sort / get_topological_order
  C16.d  every applied instantiation link is recorded and skipped next time
NOT decided: that the hand-written DFS is a correct topological sort / cycle
detector for every graph (needs execution or a proof; other technique families).
"""

from __future__ import annotations

import ast

from .report import Ctx
from .srcmodel import AnalysisError, call_leaf, call_name, calls_in, const_str, contains, dotted, get_kwarg, src, walk_local
from .util import guard_chain, root_name, strip_not

NX = {"e", "r"}


def _anc16(n):
    p = getattr(n, "_jv_parent", None)
    while p is not None:
        yield p
        p = getattr(p, "_jv_parent", None)


from .srcmodel import stmt_of as stmt_of16


def run(ctx: Ctx) -> int:
    # ---------------- C16.a ---------------------------------------------------
    init = ctx.func("_link_arguments:ActionLink.__init__")
    ctx.expect_locals(init, ["parser", "apply_on"])
    g = ctx.cfg(init)
    app = [c for c in calls_in(init) if call_leaf(c) == "append" and dotted(c.func.value) == "parser._links_group._group_actions" and c.args and root_name(c.args[0]) == "self"]
    io = [c for c in calls_in(init) if call_leaf(c) == "instantiation_order"]
    ctx.need(app and io, "ActionLink.__init__: _links_group._group_actions.append(self) / instantiation_order(parser)")
    ok = g.dominates(g.cn(app), g.cn(io)) and not guard_chain(app[0])
    ctx.oblige("C16.a", ok, io[0], "the new link is registered (unconditionally) before the cycle check runs" if ok else "the cycle check can run before the new link is registered: a cycle closed by this link goes unnoticed", fn=init)
    gch = guard_chain(io[0])
    ok = len(gch) == 1 and gch[0][1] and isinstance(gch[0][0], ast.Compare) and root_name(gch[0][0].left) == "apply_on" and "instantiate" in ast.unparse(gch[0][0])
    ctx.oblige("C16.a", ok, io[0], "the cycle check runs for every link applied on instantiation" if ok else "the cycle check is skipped for some instantiation links", fn=init, construct="cycle check guard")
    tries = [t for t in walk_local(init) if isinstance(t, ast.Try) and any(contains(t, c) and any(c in calls_in(b) for b in t.body) for c in io)]
    ok = True
    for t in tries:
        for h in t.handlers:
            hn = g.node_ids_of(h)
            if g.exit in g.reachable(hn) or not any(isinstance(n, ast.Raise) for n in walk_local(h)):
                ok = False
    ctx.oblige("C16.a", ok, io[0], "a detected cycle is re-raised (handler has no normal continuation)" if ok else "the ValueError of a detected cycle is swallowed", fn=init, construct="cycle error re-raised")

    # instantiation_order: one edge per (source, target) of every instantiation link, result = topological order
    iof = ctx.func("_link_arguments:ActionLink.instantiation_order")
    ctx.expect_locals(iof, ["actions", "action", "target", "graph", "seen_targets", "targets"])
    edges = [c for c in calls_in(iof) if call_leaf(c) == "add_edge"]
    ctx.need(edges, "instantiation_order: graph.add_edge")
    link_edges = [c for c in edges if c.args and "source" in ast.unparse(c.args[0]) and root_name(c.args[1]) == "target"]
    ok = bool(link_edges)
    if ok:
        loops = [n for n in walk_local(iof) if isinstance(n, ast.For) and contains(n, link_edges[0])]
        ok = len(loops) == 2 and any("action.source" in ast.unparse(l.iter) for l in loops) and any(root_name(l.iter) == "actions" for l in loops) and not any(guard_chain(link_edges[0], stop=[l for l in loops if root_name(l.iter) == "actions"][0]))
    ctx.oblige("C16.a", ok, link_edges[0] if link_edges else iof, "an edge source -> target is added for every source of every instantiation link" if ok else "not every (source, target) pair of the links becomes an edge (direction or coverage changed)", fn=iof, construct="edge per link source")
    rets = [r for r in walk_local(iof) if isinstance(r, ast.Return) and isinstance(r.value, ast.Call)]
    ok = any(call_leaf(r.value) == "get_topological_order" for r in rets)
    ctx.oblige("C16.a", ok, iof, "the order returned is graph.get_topological_order()" if ok else "instantiation_order no longer returns the topological order", fn=iof, construct="returns topological order")

    # ---------------- C16.b ---------------------------------------------------
    ic = ctx.func("_core:ArgumentParser.instantiate_classes")
    ctx.expect_locals(ic, ["components", "order", "component", "cfg"])
    g = ctx.cfg(ic)
    loop = None
    for n in walk_local(ic):
        if isinstance(n, ast.For) and isinstance(n.iter, ast.Name) and n.iter.id == "components" and any(call_leaf(c) == "apply_instantiation_links" for c in calls_in(n)):
            loop = n
    ctx.need(loop, "instantiate_classes: loop over components")
    head = g.node_ids_of(loop)
    ail = [c for c in calls_in(loop) if call_leaf(c) == "apply_instantiation_links"]
    inst = [c for c in calls_in(loop) if call_leaf(c) in ("instantiate_classes", "instantiate_class")]
    ctx.need(len(inst) >= 2, "instantiate_classes: both instantiation calls in the component loop")
    body_starts = [t for h in head for t, lab in g.nodes[h].succ if lab == "loop"]
    ok = g.must_pass(g.cn(ail), body_starts, g.cn(inst))
    ctx.oblige("C16.b", ok, ail[0], "links targeting a component are applied before that component is built, in every iteration" if ok else "a component can be instantiated before its incoming links are applied", fn=ic)
    k = get_kwarg(ail[0], "target")
    ok = k is not None and ast.unparse(k) == f"{loop.target.id}.dest" if isinstance(loop.target, ast.Name) else False
    ctx.oblige("C16.b", ok, ail[0], "links are selected by the dest of the component about to be built" if ok else "apply_instantiation_links is no longer keyed by the current component", fn=ic, construct="target=component.dest")
    reorder = [s for s in walk_local(ic) if isinstance(s, ast.Assign) and isinstance(s.value, ast.Call) and call_leaf(s.value) == "reorder" and any(isinstance(t, ast.Name) and t.id == "components" for t in s.targets)]
    order_def = [s for s in walk_local(ic) if isinstance(s, ast.Assign) and any(isinstance(t, ast.Name) and t.id == "order" for t in s.targets)]
    ok = len(reorder) == 1 and len(order_def) == 1 and isinstance(order_def[0].value, ast.Call) and call_leaf(order_def[0].value) == "instantiation_order"
    if ok:
        r = reorder[0].value
        ok = len(r.args) >= 2 and root_name(r.args[0]) == "order" and root_name(r.args[1]) == "components"
    if ok:
        rn = g.cn(reorder)
        # nothing re-sorts / extends the list between reorder and the loop
        muts = [c for c in calls_in(ic) if call_leaf(c) in ("sort", "extend", "append", "insert", "reverse", "remove", "pop") and root_name(c.func) == "components"]
        reb = [s for s in walk_local(ic) if isinstance(s, ast.Assign) and s is not reorder[0] and any(isinstance(t, ast.Name) and t.id == "components" for t in s.targets)]
        later = g.reachable(rn)
        ok = g.dominates(rn, head) and not (set(g.cn(muts) + g.cn(reb)) & later) and g.dominates(g.cn(order_def), rn)
    ctx.oblige("C16.b", ok, reorder[0] if reorder else ic, "the list iterated is ActionLink.reorder(instantiation_order(self), components), untouched afterwards" if ok else "the component list is not (or no longer only) the reordered one when the loop runs", fn=ic)
    trailing = [c for c in calls_in(ic) if call_leaf(c) == "apply_instantiation_links" and not contains(loop, c)]
    ok = bool(trailing) and get_kwarg(trailing[0], "order") is not None and root_name(get_kwarg(trailing[0], "order")) == "order"
    if ok:
        tn = g.cn(trailing)
        ok = g.dominates(head, tn) and not g.can_reach(tn, head)
        rets = [r for r in walk_local(ic) if isinstance(r, ast.Return)]
        ok = ok and g.dominates(tn, g.cn(rets))
    ctx.oblige("C16.b", ok, trailing[0] if trailing else ic, "links not tied to a component are applied after the loop, in topological order, before returning" if ok else "the trailing apply_instantiation_links(order=order) is missing or misplaced", fn=ic)
    # deepest components first: sort key is -depth
    sorts = [c for c in calls_in(ic) if call_leaf(c) == "sort" and root_name(c.func) == "components"]
    ok = bool(sorts) and get_kwarg(sorts[0], "key") is not None
    if ok:
        lam = get_kwarg(sorts[0], "key")
        body = lam.body if isinstance(lam, ast.Lambda) else None
        neg = isinstance(body, ast.UnaryOp) and isinstance(body.op, ast.USub) and "split_key" in ast.unparse(body)
        rev = get_kwarg(sorts[0], "reverse")
        pos = body is not None and "split_key" in ast.unparse(body) and isinstance(rev, ast.Constant) and rev.value is True
        ok = (neg and rev is None) or (pos and not neg)
        ok = ok and g.dominates(g.cn(sorts), g.cn(reorder))
    ctx.oblige("C16.b", ok, sorts[0] if sorts else ic, "components are sorted deepest-first before reordering (nested objects are built before their parents)" if ok else "the deepest-first sort of components changed", fn=ic)

    # ---------------- C16.c ---------------------------------------------------
    ts = ctx.func("_link_arguments:DirectedGraph.topological_sort")
    g = ctx.cfg(ts)
    params = [a.arg for a in ts.args.args]
    ctx.need(params[:5] == ["self", "source", "exploring", "visited", "order"], "topological_sort(self, source, exploring, visited, order)")

    def flag_store(name: str, value: bool):
        return [
            s
            for s in walk_local(ts)
            if isinstance(s, ast.Assign)
            and isinstance(s.targets[0], ast.Subscript)
            and root_name(s.targets[0].value) == name
            and root_name(s.targets[0].slice) == "source"
            and isinstance(s.value, ast.Constant)
            and s.value.value is value
        ]

    loops = [n for n in walk_local(ts) if isinstance(n, ast.For)]
    ctx.need(len(loops) == 1, "topological_sort: one loop over the targets")
    lp = loops[0]
    lh = g.node_ids_of(lp)
    e_true, e_false, v_true = flag_store("exploring", True), flag_store("exploring", False), flag_store("visited", True)
    ins = [c for c in calls_in(ts) if call_leaf(c) in ("insert", "append", "extend", "appendleft") and root_name(c.func) == "order"]
    rec = [c for c in calls_in(ts) if call_leaf(c) == "topological_sort"]
    raises = [r for r in walk_local(ts) if isinstance(r, ast.Raise)]
    ctx.need(e_true and e_false and v_true and ins and rec and raises, "topological_sort bookkeeping statements")
    ok = g.dominates(g.cn(e_true), lh) and not g.can_reach(lh, g.cn(e_true))
    ctx.oblige("C16.c", ok, e_true[0], "the node is marked as being explored before its successors are visited" if ok else "exploring[source] = True no longer precedes the successor loop", fn=ts)
    ok = "edges_dict" in ast.unparse(lp.iter) and root_name(lp.iter.slice if isinstance(lp.iter, ast.Subscript) else lp.iter) == "source"
    ctx.oblige("C16.c", ok, lp, "the loop visits the successors of `source`" if ok else "the loop no longer iterates edges_dict[source]", fn=ts)
    tgt = lp.target.id if isinstance(lp.target, ast.Name) else None

    def guards(node):
        out = []
        for t, pol in guard_chain(node, stop=lp):
            inner, pos = strip_not(t)
            if isinstance(inner, ast.Subscript) and root_name(inner.slice) == tgt:
                out.append((root_name(inner.value), pol == pos))
        return out

    gr = guards(raises[0])
    ok = ("exploring", True) in gr and len(gr) == 1
    ctx.oblige("C16.c", ok, raises[0], "a cycle is reported exactly when the successor is currently being explored" if ok else f"cycle detection guard changed: {gr}", fn=ts)
    gc_ = guards(rec[0])
    ok = ("visited", False) in gc_ and ("exploring", False) in gc_ and len(gc_) == 2
    ctx.oblige("C16.c", ok, rec[0], "recursion only into successors that are neither being explored nor visited" if ok else f"recursion guard changed: {gc_}", fn=ts)
    ok = len(rec[0].args) == 4 and root_name(rec[0].args[0]) == tgt and [root_name(a) for a in rec[0].args[1:]] == ["exploring", "visited", "order"]
    ctx.oblige("C16.c", ok, rec[0], "the recursive call passes the successor and the shared bookkeeping lists" if ok else "recursive call arguments changed", fn=ts, construct="recursive call args")
    for what, nodes in (("visited[source] = True", v_true), ("exploring[source] = False", e_false), ("order.insert(0, source)", ins)):
        nn = g.cn(nodes)
        ok = g.must_pass(nn, [g.entry], [g.exit], exclude_labels=NX) and not g.can_reach(nn, lh)
        ctx.oblige("C16.c", ok, nodes[0], f"{what} runs after the successor loop on every normal path (post-order)" if ok else f"{what} is skipped on some path or runs before the loop ends", fn=ts)
    c0 = ins[0]
    ok = call_leaf(c0) == "insert" and len(c0.args) == 2 and isinstance(c0.args[0], ast.Constant) and c0.args[0].value == 0 and root_name(c0.args[1]) == "source"
    ctx.oblige("C16.c", ok, c0, "finished nodes are prepended (reverse post-order = topological order)" if ok else "finished nodes are no longer prepended at position 0", fn=ts, construct="prepend source")

    gto = ctx.func("_link_arguments:DirectedGraph.get_topological_order")
    ctx.expect_locals(gto, ["exploring", "visited", "order", "source"])
    g2 = ctx.cfg(gto)
    calls = [c for c in calls_in(gto) if call_leaf(c) == "topological_sort"]
    ctx.need(calls, "get_topological_order: call of topological_sort")
    gch = guard_chain(calls[0])
    ok = len(gch) == 1 and not gch[0][1] is True or (len(gch) == 1 and isinstance(gch[0][0], ast.UnaryOp) and "visited" in ast.unparse(gch[0][0]))
    lps = [n for n in walk_local(gto) if isinstance(n, ast.For) and contains(n, calls[0])]
    ok = ok and len(lps) == 1 and "range(len(self.nodes))" in ast.unparse(lps[0].iter)
    ctx.oblige("C16.c", ok, calls[0], "every not-yet-visited node is used as a DFS root" if ok else "the DFS root loop changed (nodes skipped or revisited)", fn=gto)
    inits = {root_name(s.targets[0]): s for s in walk_local(gto) if isinstance(s, ast.Assign) and isinstance(s.targets[0], ast.Name)}
    ok = all(n in inits for n in ("exploring", "visited", "order")) and all("False" in ast.unparse(inits[n].value) and "len(self.nodes)" in ast.unparse(inits[n].value) for n in ("exploring", "visited"))
    ctx.oblige("C16.c", ok, gto, "bookkeeping lists start all-False / empty for each ordering request (no state carried between calls)" if ok else "bookkeeping initialisation changed", fn=gto, construct="fresh bookkeeping")

    # ---------------- C16.d ---------------------------------------------------
    af = ctx.func("_link_arguments:ActionLink.apply_instantiation_links")
    ctx.expect_locals(af, ["applied_links", "link_actions", "action", "cfg", "applied_key"])
    g = ctx.cfg(af)
    stv = [c for c in calls_in(af) if call_leaf(c) == "set_target_value"]
    add = [c for c in calls_in(af) if call_leaf(c) == "add" and root_name(c.func) == "applied_links"]
    gla = [c for c in calls_in(af) if call_leaf(c) == "get_link_actions"]
    loops = [n for n in walk_local(af) if isinstance(n, ast.For) and any(contains(n, c) for c in stv)]
    ctx.need(stv and gla and loops, "apply_instantiation_links: set_target_value / get_link_actions")
    head = g.node_ids_of(loops[0])
    ok = bool(add) and g.must_pass(g.cn(add), g.cn(stv), head + [g.exit], exclude_labels=NX, strict=True)
    ctx.oblige("C16.d", ok, add[0] if add else stv[0], "every applied link is recorded in applied_links before the next iteration / return" if ok else "a link can be applied without being recorded (it would be applied twice)", fn=af)
    k = get_kwarg(gla[0], "skip")
    ok = k is not None and root_name(k) == "applied_links"
    ctx.oblige("C16.d", ok, gla[0], "already applied links are skipped" if ok else "get_link_actions no longer skips applied links", fn=af)
    store = [s for s in walk_local(af) if isinstance(s, ast.Assign) and isinstance(s.targets[0], ast.Subscript) and root_name(s.targets[0].value) == "cfg" and root_name(s.value) == "applied_links"]
    pop = [c for c in calls_in(af) if call_leaf(c) == "pop" and root_name(c.func) == "cfg"]
    ok = bool(store) and bool(pop)
    ctx.oblige("C16.d", ok, store[0] if store else af, "the applied set is carried in the configuration between per-component calls and removed at the end" if ok else "applied-links bookkeeping is no longer carried between calls", fn=af, construct="applied set carried")

    # dotted-key prefix tests include the separator (`net` must not match `net_head`)
    n_sw = 0
    for fref in ("_link_arguments:ActionLink.apply_instantiation_links", "_link_arguments:ActionLink.reorder", "_link_arguments:ActionLink.instantiation_order", "_link_arguments:is_nested_instantiation_link", "_link_arguments:ActionLink.set_target_value", "_typehints:ActionTypeHint.discard_init_args_on_class_path_change"):
        fn_ = ctx.func(fref)
        for c in calls_in(fn_):
            if call_leaf(c) == "startswith" and isinstance(c.func, ast.Attribute) and c.args:
                a0 = c.args[0]
                n_sw += 1
                def ends_with_dot(e):
                    if isinstance(e, ast.JoinedStr):
                        return bool(e.values) and isinstance(e.values[-1], ast.Constant) and str(e.values[-1].value).endswith(".")
                    if isinstance(e, ast.BinOp) and isinstance(e.op, ast.Add):
                        return ends_with_dot(e.right)
                    if isinstance(e, ast.Constant) and isinstance(e.value, str):
                        return e.value.endswith(".") or True  # literal prefixes are not key prefixes
                    return False
                ok = ends_with_dot(a0)
                ctx.oblige("C16.b", ok, c, "key-prefix test ends with the '.' separator" if ok else f"key-prefix test {src(c, 60)} lacks the '.' separator: a component whose name merely starts with the same characters is treated as nested below the target", fn=fn_)
    ctx.floor("C16.b-prefix-tests", n_sw, 3)
    # shared-prefix bookkeeping: every target is remembered once it was processed
    sl = [n_ for n_ in walk_local(iof) if isinstance(n_, ast.For) and any(call_leaf(c) == "add" and root_name(c.func) == "seen_targets" for c in calls_in(n_))]
    if sl:
        outer = sl[0]
        gi = ctx.cfg(iof)
        adds = [c for c in calls_in(outer) if call_leaf(c) == "add" and root_name(c.func) == "seen_targets"]
        starts_i = [t for h in gi.node_ids_of(outer) for t, lab in gi.nodes[h].succ if lab == "loop"]
        ok = gi.must_pass(gi.cn(adds), starts_i, gi.node_ids_of(outer), exclude_labels=NX)
        ctx.oblige("C16.a", ok, adds[0], "every processed target is added to seen_targets (shared-parent edges depend on it)" if ok else "a target can be processed without being remembered in seen_targets: shared-parent ordering edges are lost for later targets", fn=iof)
    else:
        ctx.oblige("C16.a", False, iof, "seen_targets bookkeeping vanished from instantiation_order", fn=iof, construct="seen_targets bookkeeping")

    # ---------------- C16.e ---------------------------------------------------
    # the group that owns a source key `a.b.c` is the class group whose dest is the key itself or its
    # immediate parent `a.b` (an attribute of the object built for that group) - not the root `a`
    from .shared_rules import key_expr_role, key_helper_roles

    roles = key_helper_roles(ctx.repo)
    fg = ctx.func("_link_arguments:find_subclass_action_or_class_group")
    keyp = fg.args.args[1].arg if len(fg.args.args) > 1 else None
    tests = [n_ for n_ in walk_local(fg) if isinstance(n_, ast.Compare) and len(n_.ops) == 1 and isinstance(n_.ops[0], ast.In) and any(call_leaf(c) == "getattr" and len(c.args) > 1 and const_str(c.args[1]) == "dest" for c in calls_in(n_.left))]
    ctx.need(tests and keyp, "find_subclass_action_or_class_group: `getattr(group, 'dest', None) in <keys>`")
    comp = tests[0].comparators[0]
    if isinstance(comp, ast.Name):
        ds = [s for s in walk_local(fg) if isinstance(s, ast.Assign) and any(isinstance(t, ast.Name) and t.id == comp.id for t in s.targets)]
        ctx.need(len(ds) == 1, f"single definition of `{comp.id}`")
        comp = ds[0].value
    ctx.need(isinstance(comp, (ast.Set, ast.Tuple, ast.List)), "the candidate keys are a literal collection")
    got = []
    for e in comp.elts:
        if isinstance(e, ast.Name) and e.id == keyp:
            got.append("key")
            continue
        r = key_expr_role(roles, e)
        if r is None or r[1] != keyp:
            raise AnalysisError(f"find_subclass_action_or_class_group: cannot read the meaning of candidate key `{ast.unparse(e)}`")
        got.append(r[0])
    ok = sorted(got) == ["key", "parent"]
    ctx.oblige("C16.e", ok, tests[0], "a source key is matched to the class group named by the key or by its immediate parent" if ok else f"a source key is matched against its {sorted(got)} instead of itself and its immediate parent: `outer.inner.attr` resolves to the group `outer` (the value of the wrong object is propagated) or to no group at all", fn=fg)

    # a link is nested when all its sources live under the target's class argument - whose dest may itself be dotted
    # (`grp.model`): the test is a prefix test with the separator, never a comparison of one key component
    from .shared_rules import key_expr_role, key_helper_roles

    inl = ctx.func("_link_arguments:is_nested_instantiation_link")
    roles16 = key_helper_roles(ctx.repo)
    comp_cmp = [n_ for n_ in ast.walk(inl) if isinstance(n_, ast.Compare) and (key_expr_role(roles16, n_.left) or any(key_expr_role(roles16, c_) for c_ in n_.comparators))]
    sw_src = [c for c in calls_in(inl) if call_leaf(c) == "startswith" and isinstance(c.func.value, ast.Name)]
    ok = not comp_cmp and len([c for c in calls_in(inl) if call_leaf(c) == "startswith"]) >= 2
    ctx.oblige("C16.b", ok, comp_cmp[0] if comp_cmp else inl, "is_nested_instantiation_link compares keys with the class argument's dest by separator-terminated prefix" if ok else f"`{ast.unparse(comp_cmp[0])[:60] if comp_cmp else 'prefix tests'}` compares ONE component of a key with the dest: for a class argument with a dotted dest (`grp.model`) the link is no longer classified as nested, is never applied and the nested target is built with its default", fn=inl, construct="nested link by prefix")

    gnl = ctx.func("_link_arguments:ActionLink.get_nested_links")
    from .util import nested_defs as _nd16

    tpk = _nd16(gnl).get("trim_param_keys")
    ctx.need(tpk, "get_nested_links.trim_param_keys")
    trims = [s_ for s_ in walk_local(tpk) if isinstance(s_, ast.Assign) and isinstance(s_.targets[0], ast.Subscript) and const_str(s_.targets[0].slice) in ("source", "target")]
    ctx.need(len(trims) == 2, "trim_param_keys: params['source'] = ...; params['target'] = ...")
    for s_ in trims:
        which = const_str(s_.targets[0].slice)
        slices = [x for x in ast.walk(s_.value) if isinstance(x, ast.Subscript) and isinstance(x.slice, ast.Slice) and x.slice.lower is not None]
        ok = bool(slices) and all(isinstance(x.slice.lower, ast.Call) and call_leaf(x.slice.lower) == "len" and "dest" in ast.unparse(x.slice.lower) for x in slices) and not [c for c in calls_in(s_) if (call_leaf(c) or "").startswith("split_key")]
        ctx.oblige("C16.b", ok, s_, f"the {which} keys of a nested link lose exactly the class argument's dest prefix" if ok else f"the {which} keys of a nested link are cut at a key separator instead of after the class argument's dest: for a class argument with a dotted dest (`sys.model`) the re-declared link names `model.encoder.channels` inside the class parser - instantiate_classes raises and the decoder never gets the encoder's value", fn=tpk, construct=f"nested {which} trimmed by dest prefix")

    # the links handed to a class argument's own parser are THAT argument's nested links: the filter compares the
    # link's target action with the action asked about (identity) besides the nested test
    from .util import guard_atoms as _ga16

    act_p = gnl.args.args[1].arg if len(gnl.args.args) > 1 else None
    apps_ = [c for c in calls_in(gnl) if call_leaf(c) == "append"]
    ctx.need(act_p and len(apps_) == 1, "get_nested_links(parser, action): links.append(...)")
    at16 = _ga16(apps_[0], stop=gnl)
    own = any(pol and isinstance(t, ast.Compare) and len(t.ops) == 1 and isinstance(t.ops[0], (ast.Is, ast.Eq)) and {ast.unparse(t.left).endswith(".target[1]"), ast.unparse(t.comparators[0]) == act_p} == {True} for t, pol in at16) or any(pol and isinstance(t, ast.Compare) and len(t.ops) == 1 and isinstance(t.ops[0], (ast.Is, ast.Eq)) and ast.unparse(t.comparators[0]).endswith(".target[1]") and ast.unparse(t.left) == act_p for t, pol in at16)
    nested_t = any(pol and isinstance(t, ast.Call) and call_leaf(t) == "is_nested_instantiation_link" for t, pol in at16)
    ctx.oblige("C16.b", own and nested_t, apps_[0], "a class argument's parser receives the nested links whose target is that argument" if own and nested_t else "get_nested_links hands every nested link of the parser to every class argument: with two subclass-typed arguments the link declared below one of them is re-declared, with keys trimmed by the wrong prefix, on the other one's class parser - instantiate_classes raises ValueError, or applies a link that was never declared", fn=gnl, construct="nested links of this argument only")

    # a target nested below another target must be built first: the edge <target> -> <prefix> is added for EVERY proper
    # prefix of the target that is itself a target, starting with the first component
    pref_loops = [n_ for n_ in walk_local(iof) if isinstance(n_, ast.For) and isinstance(n_.iter, ast.Call) and call_leaf(n_.iter) == "range" and any(call_leaf(c) == "add_edge" for c in calls_in(n_))]
    ctx.need(len(pref_loops) == 1, "instantiation_order: `for num in range(len(parts) - 1)` loop adding prefix edges")
    rg = pref_loops[0].iter
    parts_txt = None
    okr = False
    if len(rg.args) in (1, 2):
        up = rg.args[-1]
        start_ok = len(rg.args) == 1 or (isinstance(rg.args[0], ast.Constant) and rg.args[0].value == 0)
        okr = start_ok and isinstance(up, ast.BinOp) and isinstance(up.op, ast.Sub) and isinstance(up.right, ast.Constant) and up.right.value == 1 and isinstance(up.left, ast.Call) and call_leaf(up.left) == "len"
        if okr:
            parts_txt = ast.unparse(up.left.args[0])
            nv = pref_loops[0].target.id if isinstance(pref_loops[0].target, ast.Name) else ""
            joins = [x for x in ast.walk(pref_loops[0]) if isinstance(x, ast.Subscript) and ast.unparse(x.value) == parts_txt and isinstance(x.slice, ast.Slice)]
            okr = bool(joins) and all(x.slice.lower is None and isinstance(x.slice.upper, ast.BinOp) and isinstance(x.slice.upper.op, ast.Add) and {ast.unparse(x.slice.upper.left), ast.unparse(x.slice.upper.right)} == {nv, "1"} for x in joins)
    ctx.oblige("C16.a", okr, rg, "every proper prefix of a target key (from its first component on) is tried as a parent target" if okr else f"`{ast.unparse(rg)}` does not enumerate every proper prefix of the target key: the edge from a nested target to its parent target (root.child -> root) is lost, and a class group is built before the component that a link feeds into its nested parameter", fn=iof, construct="all proper prefixes")

    # ---------------- C16.g: a refused link leaves the parser as it was --------------------------------------------------
    # every way ActionLink.__init__ can refuse (explicit raise, the cycle check) lies BEFORE the first lasting change of the
    # parser's tables; a registration that only serves the cycle check is undone in a `finally`
    gi16 = ctx.cfg(init)
    pname = init.args.args[1].arg

    def _is_mutation(n_):
        if isinstance(n_, ast.Assign) and any(isinstance(t, ast.Subscript) and root_name(t) == pname for t in n_.targets):
            return True
        if isinstance(n_, ast.Expr) and isinstance(n_.value, ast.Call) and isinstance(n_.value.func, ast.Attribute) and n_.value.func.attr in ("remove", "clear", "append", "add", "update", "extend", "pop", "insert"):
            recv = ast.unparse(n_.value.func.value)
            return recv.startswith(pname + ".") or "_group_actions" in recv or "sub_add_kwargs" in recv
        return False

    muts = [n_ for n_ in walk_local(init) if _is_mutation(n_)]
    # temporary registrations: append(self) directly followed by a try whose finally removes self from the same list
    temp = set()
    for n_ in muts:
        c_ = n_.value if isinstance(n_, ast.Expr) else None
        if c_ is not None and c_.func.attr == "append":
            recv = ast.unparse(c_.func.value)
            par = getattr(n_, "_jv_parent", None)
            body = next((getattr(par, f) for f in ("body", "orelse", "finalbody") if isinstance(getattr(par, f, None), list) and n_ in getattr(par, f)), None)
            if body is not None and body.index(n_) + 1 < len(body):
                nxt = body[body.index(n_) + 1]
                if isinstance(nxt, ast.Try) and any(isinstance(x, ast.Call) and isinstance(x.func, ast.Attribute) and x.func.attr == "remove" and ast.unparse(x.func.value) == recv for f_ in nxt.finalbody for x in ast.walk(f_)):
                    temp.add(id(n_))
                    for f_ in nxt.finalbody:
                        for x in ast.walk(f_):
                            if isinstance(x, ast.Expr) and _is_mutation(x):
                                temp.add(id(x))
    lasting = [n_ for n_ in muts if id(n_) not in temp]
    ctx.floor("C16.g-lasting-changes", len(lasting), 4)
    refusals = [r for r in walk_local(init) if isinstance(r, ast.Raise)] + [stmt_of16(c) for c in io]
    late = [r for r in refusals if gi16.can_reach(gi16.cn(lasting), gi16.cn(r), exclude_labels=NX)]
    ctx.oblige("C16.g", not late, late[0] if late else init, "every refusal of a link happens before the parser's tables are changed for good" if not late else f"`{src(late[0], 60)}` can refuse the link after the parser was already changed (target action replaced / groups updated / link registered): the ValueError for a cyclic link leaves a half-built link behind - every later link_arguments call reports the same cycle and parse_args raises AttributeError", fn=init)

    # ---------------- C16.f ---------------------------------------------------
    # links between init args of one nested class are re-declared on the per-class parser (get_class_parser),
    # whatever else that parser needs: without them the nested components are built in declaration order
    gcp = ctx.func("_typehints:ActionTypeHint.get_class_parser")
    la = [c for c in calls_in(gcp) if call_leaf(c) == "link_arguments"]
    ctx.need(la, "get_class_parser: parser.link_arguments(**link_kwargs)")
    from .util import guard_atoms

    for c in la:
        atoms = guard_atoms(c, stop=gcp)
        loops = [a for a in _anc16(c) if isinstance(a, ast.For)]
        ok = not atoms and len(loops) == 1 and "nested_links" in ast.unparse(loops[0].iter) and not [x for x in walk_local(loops[0]) if isinstance(x, (ast.Break, ast.Continue))]
        ctx.oblige(
            "C16.f",
            ok,
            c,
            "every nested link is re-declared on the per-class parser, unconditionally" if ok else f"the nested links are only re-declared under {[ast.unparse(t) for t, _ in atoms] or 'a changed loop'}: otherwise the per-class parser has no links, its components are instantiated in declaration order and a link target is built before its source (it keeps its default)",
            fn=gcp,
        )

    ctx.notes.append("C16's exhaustive claim (correct topological order / cycle report for every digraph) is NOT decided by this check; only the wiring and the DFS typestate are.")
    return ctx.finish(
        explanation=(
            "Dominance and guard-structure checks: the cycle check sees the new link and its error propagates; instantiate_classes iterates the reordered component list and "
            "applies a component's links before building it; DFS typestate of topological_sort (mark exploring before the loop, recurse only into unvisited/unexplored successors, "
            "raise iff successor is being explored, post-order prepend); applied links are recorded. Narrow: correctness of the sort over all graphs is not decided."
        ),
        rule_text="one obligation per ordering / guard / bookkeeping statement; non-trivial = the anchored statements exist",
    )
