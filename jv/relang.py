"""E7 - regular-language toolkit.

Regexes are parsed by the standard library's own front end (re._parser.parse),
so verbose mode, classes and repeats are interpreted exactly as `re` does; the
parse tree is compiled to a Thompson NFA and determinised.  Alphabet: the 128
ASCII characters plus one symbol OTHER standing for every non-ASCII character.

Supported: literals, classes (incl. negation, ranges, \\d \\s \\w as their ASCII
sets), `.`, alternation, groups, greedy / lazy repeats, ^ at the beginning, $ / \\Z
at the end (as end-of-input assertions).  Back-references, look-around and
conditional groups raise Unsupported (the caller reports ANALYSIS-ERROR).
"""

from __future__ import annotations

import re
from collections import deque
from typing import Dict, FrozenSet, Iterable, List, Optional, Sequence, Set, Tuple

try:  # Python >= 3.11
    import re._parser as sre_parse  # type: ignore
    import re._constants as sre_c  # type: ignore
except ImportError:  # pragma: no cover
    import sre_parse  # type: ignore
    import sre_constants as sre_c  # type: ignore

OTHER = 128
NSYM = 129
ALL: FrozenSet[int] = frozenset(range(NSYM))
DIGITS = frozenset(range(ord("0"), ord("9") + 1))
SPACES = frozenset(ord(c) for c in " \t\n\r\f\v")
WORD = frozenset(list(range(ord("a"), ord("z") + 1)) + list(range(ord("A"), ord("Z") + 1)) + list(DIGITS) + [ord("_")])


class Unsupported(Exception):
    pass


def _sym(c: int) -> int:
    return c if c < 128 else OTHER


class NFA:
    def __init__(self):
        self.eps: List[List[int]] = []
        self.end: List[List[int]] = []  # edges that may only be taken at end of input
        self.trans: List[List[Tuple[FrozenSet[int], int]]] = []
        self.start = self.new()
        self.final = -1

    def new(self) -> int:
        self.eps.append([])
        self.end.append([])
        self.trans.append([])
        return len(self.eps) - 1


def _class_set(items, flags) -> FrozenSet[int]:
    neg = False
    out: Set[int] = set()
    for op, av in items:
        if op is sre_c.NEGATE:
            neg = True
        elif op is sre_c.LITERAL:
            out |= _lit(av, flags)
        elif op is sre_c.RANGE:
            lo, hi = av
            for c in range(lo, min(hi, 127) + 1):
                out |= _lit(c, flags)
            if hi > 127:
                out.add(OTHER)
        elif op is sre_c.CATEGORY:
            out |= _category(av)
        else:
            raise Unsupported(f"class item {op}")
    return frozenset(ALL - out) if neg else frozenset(out)


def _category(av) -> FrozenSet[int]:
    name = str(av)
    table = {
        "CATEGORY_DIGIT": DIGITS,
        "CATEGORY_NOT_DIGIT": ALL - DIGITS,
        "CATEGORY_SPACE": SPACES,
        "CATEGORY_NOT_SPACE": ALL - SPACES,
        "CATEGORY_WORD": WORD | {OTHER},
        "CATEGORY_NOT_WORD": ALL - WORD - {OTHER},
    }
    if name not in table:
        raise Unsupported(f"category {name}")
    return frozenset(table[name])


def _lit(c: int, flags: int) -> Set[int]:
    if c > 127:
        return {OTHER}
    if flags & re.IGNORECASE:
        ch = chr(c)
        return {ord(ch.lower()), ord(ch.upper())} if ch.isalpha() else {c}
    return {c}


def _build(nfa: NFA, seq, flags: int, s: int) -> int:
    """Compile the parsed sequence starting at state s; returns the end state."""
    cur = s
    for op, av in seq:
        if op is sre_c.LITERAL:
            n = nfa.new()
            nfa.trans[cur].append((frozenset(_lit(av, flags)), n))
            cur = n
        elif op is sre_c.NOT_LITERAL:
            n = nfa.new()
            nfa.trans[cur].append((frozenset(ALL - _lit(av, flags)), n))
            cur = n
        elif op is sre_c.ANY:
            n = nfa.new()
            sset = ALL if flags & re.DOTALL else ALL - {ord("\n")}
            nfa.trans[cur].append((frozenset(sset), n))
            cur = n
        elif op is sre_c.IN:
            n = nfa.new()
            nfa.trans[cur].append((_class_set(av, flags), n))
            cur = n
        elif op is sre_c.BRANCH:
            _, alts = av
            n = nfa.new()
            for alt in alts:
                a = nfa.new()
                nfa.eps[cur].append(a)
                e = _build(nfa, alt, flags, a)
                nfa.eps[e].append(n)
            cur = n
        elif op is sre_c.SUBPATTERN:
            # (group, add_flags, del_flags, pattern)
            sub = av[-1]
            add = av[1] if len(av) == 4 else 0
            dele = av[2] if len(av) == 4 else 0
            cur = _build(nfa, sub, (flags | add) & ~dele, cur)
        elif op in (sre_c.MAX_REPEAT, sre_c.MIN_REPEAT) or str(op) == "POSSESSIVE_REPEAT":
            lo, hi, sub = av
            for _ in range(lo):
                cur = _build(nfa, sub, flags, cur)
            if hi is sre_c.MAXREPEAT or hi == sre_c.MAXREPEAT:
                a = nfa.new()
                nfa.eps[cur].append(a)
                e = _build(nfa, sub, flags, a)
                nfa.eps[e].append(a)
                n = nfa.new()
                nfa.eps[a].append(n)
                cur = n
            else:
                if hi - lo > 64:
                    raise Unsupported("bounded repeat too large")
                n = nfa.new()
                for _ in range(hi - lo):
                    nfa.eps[cur].append(n)
                    cur = _build(nfa, sub, flags, cur)
                nfa.eps[cur].append(n)
                cur = n
        elif op is sre_c.AT:
            name = str(av)
            if name in ("AT_BEGINNING", "AT_BEGINNING_STRING"):
                if cur != s and not _only_eps_from_start(nfa, cur):
                    raise Unsupported("^ not at the beginning")
            elif name in ("AT_END", "AT_END_STRING"):
                n = nfa.new()
                nfa.end[cur].append(n)
                cur = n
            else:
                raise Unsupported(f"assertion {name}")
        elif str(op) == "ATOMIC_GROUP":
            cur = _build(nfa, av, flags, cur)
        else:
            raise Unsupported(f"regex construct {op}")
    return cur


def _only_eps_from_start(nfa: NFA, st: int) -> bool:
    # is `st` reachable from start by epsilon moves only?
    seen = {nfa.start}
    dq = [nfa.start]
    while dq:
        x = dq.pop()
        for y in nfa.eps[x]:
            if y not in seen:
                seen.add(y)
                dq.append(y)
    return st in seen


class DFA:
    """Complete deterministic automaton over NSYM symbols."""

    def __init__(self, trans: List[List[int]], accept: Set[int], start: int = 0):
        self.trans = trans
        self.accept = accept
        self.start = start

    # ------------------------------------------------------------ construction
    @staticmethod
    def from_regex(pattern: str, flags: int = 0, mode: str = "fullmatch") -> "DFA":
        """mode: fullmatch | match (regex must match a prefix: L = R.Sigma*, $ still means end)."""
        try:
            parsed = sre_parse.parse(pattern, flags)
        except re.error as ex:
            raise Unsupported(f"cannot parse regex: {ex}")
        eff_flags = parsed.state.flags if hasattr(parsed, "state") else flags
        nfa = NFA()
        end = _build(nfa, list(parsed), eff_flags, nfa.start)
        final = nfa.new()
        nfa.eps[end].append(final)
        if mode == "match":
            nfa.trans[final].append((ALL, final))
        elif mode != "fullmatch":
            raise Unsupported(f"mode {mode}")
        nfa.final = final
        return DFA._determinise(nfa)

    @staticmethod
    def _determinise(nfa: NFA) -> "DFA":
        def closure(states: Iterable[int], with_end: bool) -> FrozenSet[int]:
            seen = set(states)
            st = list(seen)
            while st:
                x = st.pop()
                for y in nfa.eps[x] + (nfa.end[x] if with_end else []):
                    if y not in seen:
                        seen.add(y)
                        st.append(y)
            return frozenset(seen)

        start = closure([nfa.start], False)
        index: Dict[FrozenSet[int], int] = {start: 0}
        order = [start]
        trans: List[List[int]] = []
        accept: Set[int] = set()
        i = 0
        sink: Optional[int] = None
        while i < len(order):
            S = order[i]
            if nfa.final in closure(S, True):
                accept.add(i)
            row = []
            # group symbols by target set
            targets: Dict[int, Set[int]] = {}
            for x in S:
                for sset, y in nfa.trans[x]:
                    for a in sset:
                        targets.setdefault(a, set()).add(y)
            cache: Dict[FrozenSet[int], int] = {}
            for a in range(NSYM):
                tg = targets.get(a)
                if not tg:
                    T: FrozenSet[int] = frozenset()
                else:
                    key = frozenset(tg)
                    if key in cache:
                        row.append(cache[key])
                        continue
                    T = closure(key, False)
                if T not in index:
                    index[T] = len(order)
                    order.append(T)
                j = index[T]
                if tg:
                    cache[frozenset(tg)] = j
                row.append(j)
            trans.append(row)
            i += 1
        return DFA(trans, accept, 0)

    @staticmethod
    def from_strings(strings: Sequence[str]) -> "DFA":
        if not strings:
            return DFA.empty()
        return DFA.from_regex("|".join("(?:" + re.escape(s) + ")" for s in strings))

    @staticmethod
    def empty() -> "DFA":
        return DFA([[0] * NSYM], set(), 0)

    @staticmethod
    def sigma_star() -> "DFA":
        return DFA([[0] * NSYM], {0}, 0)

    @staticmethod
    def over(chars: str) -> "DFA":
        """All strings over the given (ASCII) characters."""
        ok = {ord(c) for c in chars}
        return DFA([[0 if a in ok else 1 for a in range(NSYM)], [1] * NSYM], {0}, 0)

    @staticmethod
    def first_char_in(chars: Optional[Iterable[str]]) -> "DFA":
        """Strings whose first character is one of chars (''/None entries: see callers)."""
        ok = {ord(c) for c in chars if c}
        return DFA([[1 if a in ok else 2 for a in range(NSYM)], [1] * NSYM, [2] * NSYM], {1}, 0)

    @staticmethod
    def empty_string() -> "DFA":
        return DFA([[1] * NSYM, [1] * NSYM], {0}, 0)

    # -------------------------------------------------------------- operations
    def _product(self, other: "DFA", op) -> "DFA":
        index: Dict[Tuple[int, int], int] = {(self.start, other.start): 0}
        order = [(self.start, other.start)]
        trans: List[List[int]] = []
        accept: Set[int] = set()
        i = 0
        while i < len(order):
            a, b = order[i]
            if op(a in self.accept, b in other.accept):
                accept.add(i)
            row = []
            ra, rb = self.trans[a], other.trans[b]
            for s in range(NSYM):
                k = (ra[s], rb[s])
                j = index.get(k)
                if j is None:
                    j = len(order)
                    index[k] = j
                    order.append(k)
                row.append(j)
            trans.append(row)
            i += 1
        return DFA(trans, accept, 0)

    def __and__(self, o: "DFA") -> "DFA":
        return self._product(o, lambda x, y: x and y)

    def __or__(self, o: "DFA") -> "DFA":
        return self._product(o, lambda x, y: x or y)

    def __sub__(self, o: "DFA") -> "DFA":
        return self._product(o, lambda x, y: x and not y)

    def complement(self) -> "DFA":
        return DFA(self.trans, set(range(len(self.trans))) - self.accept, self.start)

    def witness(self) -> Optional[str]:
        """Shortest accepted string (ASCII, preferring printable characters), or None if empty."""
        prev: Dict[int, Tuple[int, int]] = {}
        seen = {self.start}
        dq = deque([self.start])
        if self.start in self.accept:
            return ""
        pref = [ord(c) for c in "0123456789abcdefghijklmnopqrstuvwxyzABCDEFGHIJKLMNOPQRSTUVWXYZ.+-_:,; "] + [a for a in range(33, 127)] + list(range(0, 33)) + [127, OTHER]
        order = []
        seen_s = set()
        for a in pref:
            if a not in seen_s:
                seen_s.add(a)
                order.append(a)
        while dq:
            x = dq.popleft()
            for a in order:
                y = self.trans[x][a]
                if y in seen:
                    continue
                seen.add(y)
                prev[y] = (x, a)
                if y in self.accept:
                    out = []
                    z = y
                    while z != self.start:
                        px, pa = prev[z]
                        out.append("\u00e9" if pa == OTHER else chr(pa))
                        z = px
                    return "".join(reversed(out))
                dq.append(y)
        return None

    def is_empty(self) -> bool:
        return self.witness() is None

    def includes(self, other: "DFA") -> Tuple[bool, Optional[str]]:
        """other ⊆ self ?  Returns (verdict, shortest counterexample)."""
        w = (other - self).witness()
        return w is None, w

    def accepts(self, s: str) -> bool:
        x = self.start
        for ch in s:
            x = self.trans[x][_sym(ord(ch))]
        return x in self.accept

    def n_states(self) -> int:
        return len(self.trans)
