"""Conversion sites of adapt_typehints / adapt_class_type (shared by C01.e and C10.a).

A site is an assignment to (or return of) the value being adapted whose right-hand
side applies a deserialising (D) or serialising (S) callee to it.
"""

from __future__ import annotations

import ast
from typing import Iterator, List, Tuple

from .srcmodel import call_leaf, calls_in, contains, walk_local
from .util import root_name

D_CALLEES = {"deserializer", "import_object", "tuple", "set", "MappingProxyType", "OrderedDict", "parse_object", "parse_args", "validate_annotated"}
S_CALLEES = {"serializer", "object_path_serializer", "dump", "serialize_class_instance"}


def conversion_sites(fn: ast.AST) -> Iterator[List[Tuple[str, ast.AST]]]:
    for s in walk_local(fn):
        rhs = None
        if isinstance(s, ast.Assign):
            tg = s.targets[0]
            tname = root_name(tg)
            if tname in ("val", "value", "init_args") and not (isinstance(tg, ast.Name) and tg.id == "value"):
                rhs = s.value
        elif isinstance(s, ast.Return) and s.value is not None:
            rhs = s.value
        if rhs is None:
            continue
        cands: List[Tuple[str, ast.AST]] = []
        for c in calls_in(rhs) + ([rhs] if isinstance(rhs, ast.Call) else []):
            leaf = call_leaf(c)
            # the callee must be applied to the value being adapted
            arg_names = {root_name(a) for a in c.args if root_name(a)} | {root_name(k.value) for k in c.keywords if root_name(k.value)}
            if not (arg_names & {"val", "value", "init_args", "path"}):
                continue
            if leaf in D_CALLEES:
                if leaf == "import_object" and not (isinstance(s, ast.Assign) and isinstance(s.targets[0], ast.Name) and s.targets[0].id == "val"):
                    continue  # lookups such as val_class = import_object(...) run in both polarities
                if leaf in ("tuple", "set") and not isinstance(c.func, ast.Name):
                    continue
                if leaf in ("parse_object", "parse_args") and root_name(c.func) != "parser":
                    continue
                cands.append(("D", c))
            elif leaf in S_CALLEES:
                if leaf == "dump" and root_name(c.func) != "parser":
                    continue
                cands.append(("S", c))
            elif leaf == "dict" and isinstance(c.func, ast.Name) and any(isinstance(a, ast.IfExp) and contains(a, c) for a in ast.walk(rhs)):
                cands.append(("S", c))
        for n2 in ast.walk(rhs):
            if isinstance(n2, ast.Subscript) and isinstance(n2.value, ast.Name) and n2.value.id == "typehint" and root_name(n2.slice) == "val":
                cands.append(("D", n2))
            if isinstance(n2, ast.Attribute) and n2.attr == "name" and isinstance(n2.value, ast.Name) and n2.value.id == "val":
                cands.append(("S", n2))
        if cands:
            yield cands
