"""C01 - a dumped configuration re-parses to the same configuration.

Decided clauses:
  C01.a  YAML scalar-resolution agreement between the dumper and the loader
         (regular-language inclusion on the implicit-resolver tables read from
         source): every string the loader would read as a non-string is one the
         dumper quotes; the representer's number / bool / null spellings are read
         back with the same tag
  C01.d  the --print_config flag table only produces keyword arguments that
         ArgumentParser.dump accepts, nulls kept by default
  C01.e  polarity of every conversion in adapt_typehints / adapt_class_type:
         deserialising conversions run only when serialize is false, serialising
         ones only when it is true, and every arm that deserialises to a non-JSON
         type also serialises
Not decided: equality of values for all parsers and inputs; load_basic fast path;
skip_default value logic; save/parse_path text identity (C18).
"""

from __future__ import annotations

import ast
from typing import Dict, List, Optional, Set, Tuple

from . import yamlmodel
from .convsites import D_CALLEES, S_CALLEES, conversion_sites
from .relang import DFA
from .report import Ctx
from .srcmodel import enclosing_function, AnalysisError, call_leaf, call_name, calls_in, const_str, contains, dotted, func_params, get_kwarg, src, walk_local
from .util import guard_chain, root_name  # noqa

# languages written by PyYAML's SafeRepresenter (read from yaml/representer.py; the
# guard below re-checks the source facts these regexes are derived from)
REPR = {
    "tag:yaml.org,2002:float": r"-?[0-9]+\.[0-9]+(?:e[-+][0-9]+)?|-?\.inf|\.nan",
    "tag:yaml.org,2002:int": r"-?(?:0|[1-9][0-9]*)",
    "tag:yaml.org,2002:bool": r"true|false",
    "tag:yaml.org,2002:null": r"null",
}
# characters that never force quoting of a plain scalar by themselves
PLAIN_SAFE = "0123456789abcdefghijklmnopqrstuvwxyzABCDEFGHIJKLMNOPQRSTUVWXYZ._+-"

def _tri(test: ast.AST, name: str, value: bool) -> Optional[bool]:
    """Three-valued evaluation of a test with `name` fixed to value, other atoms unknown."""
    if isinstance(test, ast.Name):
        return value if test.id == name else None
    if isinstance(test, ast.UnaryOp) and isinstance(test.op, ast.Not):
        v = _tri(test.operand, name, value)
        return None if v is None else not v
    if isinstance(test, ast.BoolOp):
        vals = [_tri(v, name, value) for v in test.values]
        if isinstance(test.op, ast.And):
            if any(v is False for v in vals):
                return False
            return True if all(v is True for v in vals) else None
        if any(v is True for v in vals):
            return True
        return False if all(v is False for v in vals) else None
    return None


def polarity(node: ast.AST, fn: ast.AST, name: str = "serialize") -> Tuple[bool, bool]:
    """(reachable when name is True, reachable when name is False) by lexical control dependence."""
    can = {True: True, False: True}
    for test, pol in guard_chain(node, stop=fn):
        for v in (True, False):
            r = _tri(test, name, v)
            if r is not None and r != pol:
                can[v] = False
    return can[True], can[False]


def _check_representer_facts(ctx: Ctx) -> None:
    import os

    p = os.path.join(yamlmodel.yaml_dir(), "representer.py")
    with open(p) as f:
        tree = ast.parse(f.read())
    rf = None
    for n in ast.walk(tree):
        if isinstance(n, ast.FunctionDef) and n.name == "represent_float" and rf is None:
            rf = n
    if rf is None:
        raise AnalysisError("yaml/representer.py: represent_float not found")
    txt = ast.unparse(rf)
    facts = ["'.nan'", "'.inf'", "'-.inf'", "repr(data).lower()", "value.replace('e', '.0e', 1)"]
    missing = [f for f in facts if f not in txt]
    if missing:
        raise AnalysisError(f"PyYAML represent_float differs from the modelled one (missing {missing}); the representer language table must be re-derived")
    ctx.trusted_base.append(f"float/int/bool/null spellings of PyYAML SafeRepresenter (facts re-checked in {p})")


def _check_constructor_facts(ctx: Ctx) -> None:
    import os

    p = os.path.join(yamlmodel.yaml_dir(), "constructor.py")
    with open(p) as f:
        tree = ast.parse(f.read())
    cf = [n for n in ast.walk(tree) if isinstance(n, ast.FunctionDef) and n.name == "construct_yaml_float"]
    if not cf:
        raise AnalysisError("yaml/constructor.py: construct_yaml_float not found")
    txt = ast.unparse(cf[0])
    facts = ["value.replace('_', '').lower()", "value == '.inf'", "value == '.nan'", "value.split(':')", "float(value)"]
    missing = [f for f in facts if f not in txt]
    if missing:
        raise AnalysisError(f"PyYAML construct_yaml_float differs from the modelled one (missing {missing})")
    ctx.trusted_base.append(f"float construction of PyYAML SafeConstructor (facts re-checked in {p}); Python float() literal grammar")


def run(ctx: Ctx) -> int:
    ld = ctx.repo.mod("_loaders_dumpers")

    # ---------------- C01.a ---------------------------------------------------
    stock, stock_path = yamlmodel.stock_table()
    ctx.trusted_base.append(f"stock implicit resolver table read from {stock_path} ({len(stock)} entries)")
    gl = ctx.func("_loaders_dumpers:get_yaml_default_loader")
    led = yamlmodel.extract_table_edits(ld, gl)
    # a class name looked up with getattr(yaml, "<name>", <fallback>) has to be a name PyYAML defines: a misspelt name
    # silently selects the fallback (the pure-Python loader, which reads some documents differently from libyaml's)
    ynames = yamlmodel.yaml_class_names()
    for fname_ in ("get_yaml_default_loader", "get_yaml_default_dumper"):
        fn__ = ctx.func(f"_loaders_dumpers:{fname_}")
        for c_ in [x for x in ast.walk(fn__) if isinstance(x, ast.Call) and isinstance(x.func, ast.Name) and x.func.id == "getattr" and len(x.args) >= 2 and dotted(x.args[0]) == "yaml" and const_str(x.args[1])]:
            nm_ = const_str(c_.args[1])
            ok_ = nm_ in ynames
            ctx.oblige("C01.a", ok_, c_, f"`{nm_}` is a class PyYAML defines" if ok_ else f"getattr(yaml, {nm_!r}, ...) names no PyYAML class: the fallback is used silently (pure-Python scanner instead of libyaml: tab-indented JSON is rejected in yaml mode but read in json mode)", fn=fn__)
    led.bases = [b for b in led.bases if b in ynames]
    for b in led.bases:
        if not yamlmodel.class_uses_stock_resolver(b):
            raise AnalysisError(f"loader base class yaml.{b} does not use the stock Resolver")
    loader_table = yamlmodel.apply_edits(stock, led)
    # the loader really is the customised class
    yl = ctx.func("_loaders_dumpers:yaml_load")
    lc = [c for c in calls_in(yl) if call_name(c) == "yaml.load"]
    ok = bool(lc) and get_kwarg(lc[0], "Loader") is not None and call_leaf(get_kwarg(lc[0], "Loader")) == "get_yaml_default_loader"
    ctx.oblige("C01.a", ok, lc[0] if lc else yl, "yaml_load reads with the customised loader class" if ok else "yaml_load no longer uses get_yaml_default_loader()", fn=yl)

    yd = ctx.func("_loaders_dumpers:yaml_dump")
    dc = [c for c in calls_in(yd) if call_name(c) in ("yaml.safe_dump", "yaml.dump", "yaml.safe_dump_all", "yaml.dump_all")]
    ctx.need(len(dc) == 1, "yaml_dump: one yaml.safe_dump / yaml.dump call")
    dk = get_kwarg(dc[0], "Dumper")
    if call_name(dc[0]).startswith("yaml.safe_dump") and dk is None:
        dumper_table = list(stock)
        dumper_desc = "stock SafeDumper (yaml.safe_dump)"
        ded = None
    elif dk is not None and isinstance(dk, ast.Call) and isinstance(dk.func, ast.Name) and dk.func.id in ld.funcs:
        ded = yamlmodel.extract_table_edits(ld, ld.funcs[dk.func.id])
        for b in ded.bases:
            if not yamlmodel.class_uses_stock_resolver(b):
                raise AnalysisError(f"dumper base class yaml.{b} does not use the stock Resolver")
        dumper_table = yamlmodel.apply_edits(stock, ded)
        dumper_desc = f"{dk.func.id}(): stock - {ded.removed} + {[e[0] for e in ded.added]}"
    elif dk is not None and dotted(dk) in ("yaml.SafeDumper", "yaml.CSafeDumper"):
        dumper_table = list(stock)
        dumper_desc = f"stock {dotted(dk)}"
        ded = None
    else:
        raise AnalysisError(f"cannot determine the dumper class used by yaml_dump: {src(dc[0])}")
    ctx.floor("C01.a-loader-table", len(loader_table), 6)
    ctx.floor("C01.a-dumper-table", len(dumper_table), 6)

    LL, DL = yamlmodel.ResolverLang(loader_table), yamlmodel.ResolverLang(dumper_table)
    ns_loader, ns_dumper = LL.non_str(), DL.non_str()
    diff = ns_loader - ns_dumper
    w_any = diff.witness()
    w_safe = (diff & DFA.over(PLAIN_SAFE)).witness() if w_any is not None else None
    if w_any is not None and w_safe is None:
        raise AnalysisError(f"loader and dumper resolver tables disagree only on strings such as {w_any!r} whose plain-ness depends on PyYAML's scalar analysis; cannot decide")
    more = []
    if w_safe is not None:
        # a few more witnesses of different shape for the report
        d2 = diff & DFA.over(PLAIN_SAFE)
        for extra in (r".*\..*", r"[+-].*", r".*E.*"):
            w = (d2 & DFA.from_regex(extra)).witness()
            if w and w not in more and w != w_safe:
                more.append(w)
    ctx.extra["yaml_tables"] = {
        "loader": [f"{t} first={''.join(f or '<empty>' for f in fs) if fs else '*'}" for t, _, _, fs in loader_table],
        "dumper": dumper_desc,
        "loader_removed": led.removed,
        "dfa_states": {"non_str_loader": ns_loader.n_states(), "non_str_dumper": ns_dumper.n_states()},
    }
    ctx.oblige(
        "C01.a",
        w_safe is None,
        dc[0],
        "NonStr(loader) is included in NonStr(dumper): every string the loader would read as number/bool/null is quoted by the dumper" if w_safe is None else f"the string {w_safe!r} (also {more}) is written unquoted by the dumper (its resolver takes it for a plain str) but the customised loader resolves it as a non-string: a str value {w_safe!r} does not survive dump + parse",
        fn=yd,
        construct="NonStr(loader) <= NonStr(dumper)",
        details={"witness": w_safe, "more": more},
    )
    _check_representer_facts(ctx)
    for tag, rx in REPR.items():
        R = DFA.from_regex(rx)
        target = LL.resolves_to(tag)
        okk, w = target.includes(R)
        ctx.oblige("C01.a", okk, gl, f"every {tag.split(':')[-1]} spelling the representer writes is resolved back to {tag.split(':')[-1]} by the loader" if okk else f"the representer writes {w!r} for a {tag.split(':')[-1]} but the loader does not resolve it to that tag", fn=gl, construct=f"repr {tag.split(':')[-1]} <= loader")
    # every string the loader resolves to float must be convertible by SafeConstructor.construct_yaml_float
    # (yaml/constructor.py: strip '_', lower, optional sign, '.inf' | '.nan' | sexagesimal | float(value))
    _check_constructor_facts(ctx)
    PF = r"(?:[0-9]+\.?[0-9]*|\.[0-9]+)(?:e[-+]?[0-9]+)?"
    C0 = DFA.from_regex(rf"(?i)[-+]?(?:\.inf|\.nan|{PF}(?::{PF})+|{PF})")
    us = ord("_")
    C = DFA([[q if a == us else row[a] for a in range(len(row))] for q, row in enumerate(C0.trans)], set(C0.accept), C0.start)
    okk, w = C.includes(LL.resolves_to("tag:yaml.org,2002:float"))
    ctx.oblige("C01.a", okk, gl, "every string the loader resolves to float can be converted by PyYAML's float constructor" if okk else f"the loader's float resolver accepts {w!r}, which PyYAML's construct_yaml_float cannot convert (float() raises ValueError): a config containing it makes the load fail with a foreign exception", fn=gl, construct="loader float <= constructible", details={"witness": w})
    # json numbers read by the yaml loader (format=json under parser_mode=yaml): finite floats
    Rj = DFA.from_regex(r"-?[0-9]+\.[0-9]+(?:e[-+][0-9]+)?|-?[0-9]+e[-+][0-9]+")
    okk, w = LL.resolves_to("tag:yaml.org,2002:float").includes(Rj)
    ctx.oblige("C01.a", okk, gl, "every finite float spelling of json.dumps (incl. '1e-05') is resolved to float by the loader" if okk else f"json.dumps writes {w!r} for a float but the yaml loader does not read it as float", fn=gl, construct="json float <= loader")
    # json dumpers quote every string: they call json.dumps
    for name in ("json_compact_dump", "json_indented_dump"):
        fn = ctx.func(f"_loaders_dumpers:{name}")
        ok = any(call_name(c) == "json.dumps" for c in calls_in(fn))
        ctx.oblige("C01.a", ok, fn, f"{name} writes with json.dumps (all strings quoted)" if ok else f"{name} no longer uses json.dumps", fn=fn)

    # json text must be readable by the yaml loader too (format=json under parser_mode=yaml): with ensure_ascii
    # on, json.dumps writes characters outside the BMP as surrogate-pair escapes, which a YAML reader rejects
    djk = None
    for s_ in ld.tree.body:
        if isinstance(s_, ast.Assign) and isinstance(s_.targets[0], ast.Name) and s_.targets[0].id == "dump_json_kwargs" and isinstance(s_.value, ast.Dict):
            djk = {const_str(k): v for k, v in zip(s_.value.keys, s_.value.values)}
    for name in ("json_compact_dump", "json_indented_dump"):
        fn = ctx.func(f"_loaders_dumpers:{name}")
        for c in [c for c in calls_in(fn) if call_name(c) == "json.dumps"]:
            ea = get_kwarg(c, "ensure_ascii")
            via_table = any(k.arg is None and dotted(k.value) == "dump_json_kwargs" for k in c.keywords)
            ok = (ea is not None and isinstance(ea, ast.Constant) and ea.value is False) or (via_table and djk is not None and isinstance(djk.get("ensure_ascii"), ast.Constant) and djk["ensure_ascii"].value is False)
            ctx.oblige("C01.a", ok, c, f"{name} writes non-ASCII characters literally (ensure_ascii=False): no surrogate-pair escapes the yaml loader would reject" if ok else f"{name} calls json.dumps with ensure_ascii on: a string with a character outside the BMP is written as a surrogate-pair escape that the yaml loader cannot read back", fn=fn)

    # ... and the NON-finite ones: json.dumps (allow_nan defaults to True) writes Infinity / -Infinity / NaN
    nf_sites = []
    for name in ("json_compact_dump", "json_indented_dump"):
        fn = ctx.func(f"_loaders_dumpers:{name}")
        for c in [c for c in calls_in(fn) if call_name(c) == "json.dumps"]:
            an_ = get_kwarg(c, "allow_nan") or (djk or {}).get("allow_nan")
            if not (isinstance(an_, ast.Constant) and an_.value is False):
                nf_sites.append((name, fn, c))
    okk, w = LL.resolves_to("tag:yaml.org,2002:float").includes(DFA.from_regex(r"-?Infinity|NaN"))
    ok = okk or not nf_sites
    ctx.oblige("C01.a", ok, nf_sites[0][2] if nf_sites else None, "non-finite floats are either refused by the json dumpers (allow_nan=False) or written in a spelling the loader resolves to float" if ok else f"json.dumps writes {w!r} for a non-finite float ({', '.join(n for n, _, _ in nf_sites)}), which the yaml loader reads as a string: the json dump of an accepted float('inf') / float('nan') (--x=.inf) is rejected, or changed to text, by the parser that wrote it", fn=nf_sites[0][1] if nf_sites else None, site=None if nf_sites else "_loaders_dumpers:<module> json dumpers", construct="json non-finite floats", function=None if nf_sites else "_loaders_dumpers:<module>")

    # character level: what the dumpers write RAW must come back unchanged from PyYAML's reader / scanner.
    # (yamlmodel.CharModel: the emitter's `special_characters` test, the scanner's break characters and the reader's
    #  NON_PRINTABLE class are read from the installed PyYAML and interpreted over representative code points)
    cm = yamlmodel.CharModel()
    dyk = None
    for s_ in ld.tree.body:
        if isinstance(s_, ast.Assign) and isinstance(s_.targets[0], ast.Name) and s_.targets[0].id == "dump_yaml_kwargs" and isinstance(s_.value, ast.Dict):
            dyk = {const_str(k): v for k, v in zip(s_.value.keys, s_.value.values)}
    ctx.need(dyk is not None, "_loaders_dumpers: dump_yaml_kwargs = {...}")
    au = dyk.get("allow_unicode")
    allow_unicode = bool(isinstance(au, ast.Constant) and au.value)
    lossy = [ch for ch in cm.points if not cm.special(ch, allow_unicode) and not cm.survives_raw(ch)]
    # strings the library's dumper is told to double-quote: a representer for str on the dumper class
    gyd = ctx.func("_loaders_dumpers:get_yaml_default_dumper")
    forced: Set[str] = set()
    rep_site = None
    reps_ = [c for c in calls_in(gyd) if call_leaf(c) == "add_representer" and len(c.args) == 2 and isinstance(c.args[0], ast.Name) and c.args[0].id == "str" and isinstance(c.args[1], ast.Name)]
    for c in reps_:
        fdef = [f for f in walk_local(gyd, include_nested=True) if isinstance(f, ast.FunctionDef) and f.name == c.args[1].id]
        for f in fdef:
            dparam = f.args.args[1].arg if len(f.args.args) > 1 else None
            for rs in [x for x in ast.walk(f) if isinstance(x, ast.Call) and call_leaf(x) == "represent_scalar"]:
                st = get_kwarg(rs, "style")
                if isinstance(st, ast.Name):
                    ds_ = [s2 for s2 in ast.walk(f) if isinstance(s2, ast.Assign) and isinstance(s2.targets[0], ast.Name) and s2.targets[0].id == st.id]
                    st = ds_[0].value if len(ds_) == 1 else st
                if isinstance(st, ast.IfExp) and isinstance(st.body, ast.Constant) and st.body.value == '"' and isinstance(st.test, ast.Call) and call_leaf(st.test) == "any" and st.test.args and isinstance(st.test.args[0], ast.GeneratorExp):
                    ge = st.test.args[0]
                    g0 = ge.generators[0]
                    if isinstance(g0.iter, ast.Constant) and isinstance(g0.iter.value, str) and isinstance(ge.elt, ast.Compare) and isinstance(ge.elt.ops[0], ast.In) and isinstance(ge.elt.left, ast.Name) and ge.elt.left.id == g0.target.id and isinstance(ge.elt.comparators[0], ast.Name) and ge.elt.comparators[0].id == dparam and not g0.ifs:
                        forced |= set(g0.iter.value)
                        rep_site = rs
    missing = [ch for ch in lossy if ch not in forced]
    not_esc = [ch for ch in forced if not cm.escaped_in_double_quotes(ch, allow_unicode)]
    ok = not missing and not not_esc
    ctx.oblige("C01.a", ok, rep_site or gyd, f"every character PyYAML would write raw but read back changed ({[hex(ord(c)) for c in lossy]} under allow_unicode={allow_unicode}) forces the double-quoted style, where it is escaped" if ok else f"a string containing {[hex(ord(c)) for c in (missing or not_esc)]} is written raw by the yaml dumper (allow_unicode={allow_unicode}) inside single quotes, where the scanner normalises and folds line breaks: the dump of 'a\\x85b' parses back as 'a b'", fn=gyd, construct="raw yaml characters survive reading", details={"lossy": [hex(ord(c)) for c in lossy], "forced_double_quoted": sorted(hex(ord(c)) for c in forced), "breaks": sorted(hex(ord(c)) for c in cm.breaks), "non_printable": cm.non_printable_src})
    # json text (read by the yaml loader under parser_mode=yaml): json.dumps escapes only < 0x20, '"' and '\\' when
    # ensure_ascii is off; every other character the yaml reader rejects or folds must be escaped by the dumper
    ea0 = (djk or {}).get("ensure_ascii")
    raw_all = isinstance(ea0, ast.Constant) and ea0.value is False
    import re as _re

    for name in ("json_compact_dump", "json_indented_dump"):
        fn = ctx.func(f"_loaders_dumpers:{name}")
        jd = [c for c in calls_in(fn) if call_name(c) == "json.dumps"]
        ctx.need(jd, f"{name}: json.dumps")
        wrappers = [c for c in calls_in(fn) if isinstance(c.func, ast.Name) and c.args and any(x is jd[0] for x in ast.walk(c.args[0])) and ctx.repo.has_func(f"_loaders_dumpers:{c.func.id}")]
        cls_src = None
        for w_ in wrappers:
            wf = ctx.func(f"_loaders_dumpers:{w_.func.id}")
            for sc_ in [x for x in calls_in(wf) if call_leaf(x) == "sub" and isinstance(x.func, ast.Attribute) and isinstance(x.func.value, ast.Name)]:
                rv = [s2 for s2 in ld.tree.body if isinstance(s2, ast.Assign) and isinstance(s2.targets[0], ast.Name) and s2.targets[0].id == sc_.func.value.id and isinstance(s2.value, ast.Call) and call_name(s2.value) == "re.compile" and s2.value.args and isinstance(s2.value.args[0], ast.Constant)]
                repl = sc_.args[0] if sc_.args else None
                if rv and isinstance(repl, ast.Lambda) and "\\\\u" in ast.unparse(repl.body) and "ord(" in ast.unparse(repl.body) and isinstance(sc_.args[1], ast.Name) and sc_.args[1].id == wf.args.args[0].arg:
                    cls_src = rv[0].value.args[0].value
                    # the replacement is a JSON \\uXXXX escape: exactly four hex digits, zero padded
                    fvs = [x for x in ast.walk(repl.body) if isinstance(x, ast.FormattedValue)]
                    specs = [ast.unparse(x.format_spec)[2:-1] if x.format_spec is not None else "" for x in fvs]
                    ok_spec = len(fvs) == 1 and specs[0] in ("04x", "04X")
                    ctx.oblige("C01.a", ok_spec, repl, "characters escaped after json.dumps are written as \\\\u + four zero-padded hex digits" if ok_spec else f"the escape written for raw control characters uses the format `{specs}`: `\\\\u` must be followed by exactly four hex digits - with a space-padded or shorter field U+007F is written as `\\\\u  7f`, which neither the json nor the yaml reader accepts", fn=wf, construct="json escape has four hex digits")
        if not raw_all:
            ctx.oblige("C01.a", True, jd[0], f"{name}: ensure_ascii is on, only ASCII is written raw", fn=fn, construct=f"{name} raw characters")
            continue
        rx = _re.compile(cls_src) if cls_src is not None else None
        bad_ch = None
        n_lossy = 0
        for o in list(range(0x20, 0xD800)) + list(range(0xE000, 0x110000)):
            ch = chr(o)
            if ch in '"\\' or cm.survives_raw(ch):
                continue
            n_lossy += 1
            if rx is None or not rx.fullmatch(ch):
                bad_ch = ch
                break
        ok = bad_ch is None
        ctx.oblige("C01.a", ok, jd[0], f"{name}: the {n_lossy} characters json.dumps writes raw and the yaml reader rejects or folds are escaped afterwards" if ok else f"{name} writes U+{ord(bad_ch):04X} raw (ensure_ascii=False) but the yaml loader, which reads json text under parser_mode=yaml, rejects or folds it: the json dump of the accepted string '\\x7f' is answered with 'unacceptable character', '\\x85' comes back as ' '", fn=fn, construct=f"{name} raw characters")

    # the yaml classes are the SAFE ones: an unsafe dumper writes `!!python/...` tags (tuples, enums, arbitrary
    # objects) that the safe loader rejects - a dump / save that succeeds and cannot be read back
    for fname in ("get_yaml_default_dumper", "get_yaml_default_loader"):
        fn_ = ctx.func(f"_loaders_dumpers:{fname}")
        for cd in [n_ for n_ in walk_local(fn_, include_nested=True) if isinstance(n_, ast.ClassDef)]:
            names_ = [x for b in cd.bases for x in ast.walk(b) if (isinstance(x, ast.Attribute) and ("Dumper" in x.attr or "Loader" in x.attr)) or (isinstance(x, ast.Constant) and isinstance(x.value, str) and ("Dumper" in x.value or "Loader" in x.value))]
            labels = [x.attr if isinstance(x, ast.Attribute) else x.value for x in names_]
            ok = bool(labels) and all("Safe" in l for l in labels)
            ctx.oblige("C01.a", ok, cd, f"{cd.name} derives from the safe yaml classes {labels}" if ok else f"{cd.name} derives from {labels}: not a Safe* class - values that are not plain yaml (tuples, enums) are written with python tags the loader rejects, or unsafe tags are accepted on load", fn=fn_)
    # (Namespace objects inside containers: converted at every depth by Namespace.as_dict since fix 3762e69 - decided by
    #  C11.d; the yaml representer for Namespace in _namespace.py is no longer what dumps rely on, so no rule on it)

    # the dump with comments re-reads the dumped yaml with a second yaml library (ruyaml, YAML 1.2) and writes it again:
    # the quotes the library's dumper put around YAML 1.1 spellings ('yes', 'on', '1:30') survive only if the
    # re-writer is told to keep them (fix e2640b7)
    n_rw = 0
    for fq, fn in ctx.repo.all_funcs():
        insts = [s_ for s_ in walk_local(fn) if isinstance(s_, ast.Assign) and isinstance(s_.targets[0], ast.Name) and isinstance(s_.value, ast.Call) and call_leaf(s_.value) == "YAML"]
        for inst in insts:
            v = inst.targets[0].id
            loads_rw = [c for c in calls_in(fn, include_nested=True) if call_leaf(c) == "load" and root_name(c.func) == v]
            dumps_rw = [c for c in calls_in(fn, include_nested=True) if call_leaf(c) == "dump" and root_name(c.func) == v]
            if not (loads_rw and dumps_rw):
                continue
            n_rw += 1
            g_ = ctx.cfg(fn)
            keeps = [s_ for s_ in walk_local(fn) if isinstance(s_, ast.Assign) and isinstance(s_.targets[0], ast.Attribute) and s_.targets[0].attr == "preserve_quotes" and root_name(s_.targets[0]) == v and isinstance(s_.value, ast.Constant) and s_.value.value is True]
            top_loads = [c for c in loads_rw if enclosing_function(c) is fn]
            ok = bool(keeps) and bool(top_loads) and g_.dominates(g_.cn(keeps), g_.cn(top_loads))
            ctx.oblige("C01.a", ok, keeps[0] if keeps else loads_rw[0], f"`{v}` re-writes the dump with the quotes preserved" if ok else f"`{src(loads_rw[0], 40)}` re-reads the dump with a YAML 1.2 library that drops quotes: the strings 'yes', 'on', 'NO', '1:30' are written plain and the parser's own loader reads them back as booleans / numbers - the output of --print_config=comments is rejected or changed by the parser that wrote it", fn=fn, construct="comments re-writer keeps quotes")
    ctx.floor("C01.a-yaml-rewriters", n_rw, 1)

    # whatever is handed to a dumper went through the serialisation step first (_dump_cleanup_actions turns Enum, Path,
    # registered-type ... values into their text): on every path to a dump_using_format call in the parser class -
    # except for values that are not namespaces (plain dicts of json-schema / jsonnet arguments) - a
    # _dump_cleanup_actions call on the namespace the dumped data is taken from comes first (fix 3c12df0: nested files
    # of a multifile save skipped it, save raised RepresenterError for an accepted configuration)
    from .util import strip_not as _sn

    n_duf = 0
    for fq, fn in ctx.repo.all_funcs():
        if not fq.startswith("_core:ArgumentParser."):
            continue
        dufs = [c for c in calls_in(fn) if call_leaf(c) == "dump_using_format" and enclosing_function(c) is fn]
        if not dufs:
            continue
        g_ = ctx.cfg(fn)
        sers = [c for c in calls_in(fn) if call_leaf(c) == "_dump_cleanup_actions" and enclosing_function(c) is fn and c.args and isinstance(c.args[0], ast.Name)]
        exempt = set()
        for i_ in [x for x in walk_local(fn) if isinstance(x, ast.If)]:
            t_, pos_ = _sn(i_.test)
            if isinstance(t_, ast.Call) and call_leaf(t_) == "isinstance" and len(t_.args) == 2 and ast.unparse(t_.args[1]) == "Namespace":
                exempt |= g_.branch_edges(i_.test, "f" if pos_ else "t")
        for c in dufs:
            n_duf += 1
            data = c.args[1] if len(c.args) > 1 else None
            dn = data.id if isinstance(data, ast.Name) else None
            defs_ = [s_ for s_ in walk_local(fn) if isinstance(s_, ast.Assign) and any(isinstance(t, ast.Name) and t.id == dn for t in s_.targets)]
            roots_ = {s_.args[0].id for s_ in sers}
            linked = any(roots_ & {n_.id for n_ in ast.walk(d_.value) if isinstance(n_, ast.Name)} for d_ in defs_)
            ok = bool(sers) and linked and g_.dominates(g_.cn(sers), g_.cn(c), removed_edges=exempt)
            ctx.oblige("C01.f", ok, c, f"`{src(c, 50)}` writes data taken from a namespace that went through _dump_cleanup_actions" if ok else f"`{src(c, 60)}` can be reached with a namespace whose values were never serialised: an Enum, Path or registered-type value inside makes the yaml dumper raise RepresenterError (json: TypeError) - save(multifile=True) fails for a configuration the parser accepted", fn=fn, construct="dumped data is serialised")
    ctx.floor("C01.f-dump-sites", n_duf, 2)

    # JSON text is recognised whatever whitespace surrounds it (files end with a newline)
    llod = ctx.func("_loaders_dumpers:load_list_or_dict")
    lp_ = llod.args.args[0].arg
    stripped = {s_.targets[0].id for s_ in walk_local(llod) if isinstance(s_, ast.Assign) and isinstance(s_.targets[0], ast.Name) and isinstance(s_.value, ast.Call) and call_leaf(s_.value) == "strip" and root_name(s_.value.func) == lp_}
    tests_ = [c for c in calls_in(llod) if call_leaf(c) in ("startswith", "endswith")]
    loads_ = [c for c in calls_in(llod) if call_name(c) == "json.loads"]
    def _is_stripped(e):
        return (isinstance(e, ast.Name) and e.id in stripped) or (isinstance(e, ast.Call) and call_leaf(e) == "strip")
    ok = bool(tests_) and all(_is_stripped(c.func.value) for c in tests_) and bool(loads_)
    ctx.oblige("C01.a", ok, tests_[0] if tests_ else llod, "the JSON fallback of non-JSON-superset modes looks at the stripped text" if ok else "the JSON fallback tests the raw text for [..] / {..}: a *.json sub-file written by save (it ends with a newline) is no longer recognised under parser modes whose loader is not a JSON superset (toml, custom)", fn=llod, construct="json fallback on stripped text")

    # serialising a class spec: the `dict_kwargs` entry that adapt_class_type pops off the spec is put back on every
    # path of the serialising branch (a spec of a class that only takes **kwargs has nothing else)
    act1 = ctx.func("_typehints:adapt_class_type")
    g1 = ctx.cfg(act1)
    pops1 = [s_ for s_ in walk_local(act1) if isinstance(s_, ast.Assign) and isinstance(s_.targets[0], ast.Name) and any(call_leaf(c) == "pop" and c.args and const_str(c.args[0]) == "dict_kwargs" for c in calls_in(s_.value))]
    ctx.need(len(pops1) == 1, "adapt_class_type: <dict_kwargs> = ... value.pop('dict_kwargs', ...)")
    dk = pops1[0].targets[0].id
    spec = root_name(next(c for c in calls_in(pops1[0].value) if call_leaf(c) == "pop").func)
    puts = [s_ for s_ in walk_local(act1) if isinstance(s_, ast.Assign) and any(isinstance(t, ast.Subscript) and root_name(t.value) == spec and const_str(t.slice) == "dict_kwargs" for t in s_.targets)]
    ser_ifs = [n_ for n_ in walk_local(act1) if isinstance(n_, ast.If) and isinstance(n_.test, ast.Name) and n_.test.id == "serialize"]
    ctx.need(puts and ser_ifs, "adapt_class_type: `if serialize:` and value['dict_kwargs'] = ...")
    starts1 = [t for (a_, t, lab) in g1.branch_edges(ser_ifs[0].test, "t")]
    removed1 = set()
    for n_ in walk_local(act1):
        if isinstance(n_, ast.If) and isinstance(n_.test, ast.Name) and n_.test.id == dk:
            removed1 |= g1.branch_edges(n_.test, "f")
    rets1 = [r for r in walk_local(act1) if isinstance(r, ast.Return)]
    ok = g1.must_pass(g1.cn(puts), starts1, g1.cn(rets1) + [g1.exit], exclude_labels={"e"}, removed_edges=removed1)
    path1 = None if ok else g1.find_path(starts1, g1.cn(rets1) + [g1.exit], removed=g1.cn(puts), exclude_labels={"e"})
    ctx.oblige(
        "C01.f",
        ok,
        puts[0],
        f"on the serialising branch the popped `{dk}` is put back into the spec before every return" if ok else f"on the serialising branch a return is reachable without putting `{dk}` back: the dumped spec of a class that only takes **kwargs (empty init_args) loses its dict_kwargs, so the re-parsed configuration builds the object without them",
        fn=act1,
        construct="dict_kwargs restored when serialising",
        details={"path": g1.describe_path(path1)},
    )

    # a dump header is a comment: it is only written for formats whose readers accept that comment syntax, and
    # the prefix is chosen by the FORMAT NAME (json_indented and jsonnet share one dumper function)
    cp = None
    for s_ in ld.tree.body:
        tg_ = s_.targets[0] if isinstance(s_, ast.Assign) else getattr(s_, "target", None)
        if isinstance(s_, (ast.Assign, ast.AnnAssign)) and isinstance(tg_, ast.Name) and tg_.id == "comment_prefix" and isinstance(s_.value, ast.Dict):
            cp = s_.value
    ctx.need(cp is not None, "_loaders_dumpers: comment_prefix table")
    keys_ = [const_str(k) for k in cp.keys]
    duf = ctx.func("_loaders_dumpers:dump_using_format")
    fmt_param = duf.args.args[2].arg if len(duf.args.args) > 2 else None
    lookups = [n_ for n_ in ast.walk(duf) if (isinstance(n_, ast.Subscript) and dotted(n_.value) == "comment_prefix") or (isinstance(n_, ast.Call) and call_leaf(n_) == "get" and isinstance(n_.func, ast.Attribute) and dotted(n_.func.value) == "comment_prefix")]
    by_name = bool(lookups) and all((isinstance(n_, ast.Subscript) and isinstance(n_.slice, ast.Name) and n_.slice.id == fmt_param) or (isinstance(n_, ast.Call) and n_.args and isinstance(n_.args[0], ast.Name) and n_.args[0].id == fmt_param) for n_ in lookups)
    ok = None not in keys_ and not ({"json", "json_indented", "json_compact"} & set(keys_)) and by_name
    ctx.oblige(
        "C01.a",
        ok,
        cp,
        f"header comments are written only for {sorted(k for k in keys_ if k)} and chosen by format name: JSON output never starts with a comment" if ok else "the header comment prefix is not chosen by format name from a table without the JSON formats: JSON output (a *.json sub-file of a multi-file save, format=json_indented) starts with `// ...` lines that no JSON / YAML reader accepts",
        site="_loaders_dumpers:comment_prefix",
        construct="comment prefix by format name",
        function="_loaders_dumpers:<module>",
    )

    # ---------------- C01.f: the caller's dump options reach nested serialisation ----
    dca = ctx.func("_core:ArgumentParser._dump_cleanup_actions")
    sers = [c for c in calls_in(dca) if call_leaf(c) == "serialize" and root_name(c.func) == "action"]
    ctx.floor("C01.f-serialize-sites", len(sers), 2)
    for c in sers:
        k = get_kwarg(c, "dump_kwargs") or (c.args[1] if len(c.args) > 1 else None)
        ok = k is not None and root_name(k) == "dump_kwargs"
        ctx.oblige("C01.f", ok, c, "the per-action serialiser receives the caller's dump options (skip_none ...)" if ok else "action.serialize is called without the caller's dump options: nested values are dumped with the inner defaults (nested nulls dropped although nulls are kept)", fn=dca)
    ser = ctx.func("_typehints:ActionTypeHint.serialize")
    ok = any(isinstance(it.context_expr, ast.Call) and call_leaf(it.context_expr) == "dump_kwargs_context" and it.context_expr.args and root_name(it.context_expr.args[0]) == "dump_kwargs" for w in walk_local(ser) if isinstance(w, ast.With) for it in w.items)
    ctx.oblige("C01.f", ok, ser, "ActionTypeHint.serialize publishes the dump options for nested parsers (dump_kwargs_context(dump_kwargs))" if ok else "ActionTypeHint.serialize no longer publishes the dump options it was given", fn=ser)
    from .util import enclosing_withs

    for c in [c for c in calls_in(ser) if call_leaf(c) == "adapt_typehints"]:
        inside = any(isinstance(it.context_expr, ast.Call) and call_leaf(it.context_expr) == "dump_kwargs_context" for _, it in enclosing_withs(c, stop=ser))
        ctx.oblige(
            "C01.f",
            inside,
            c,
            "this serialising adaptation runs while the caller's dump options are published" if inside else "this serialising adaptation runs OUTSIDE dump_kwargs_context: nested parsers dump with whatever options an earlier dump left behind (nulls inside list-valued class arguments are dropped although nulls are kept)",
            fn=ser,
        )
    n_nd = 0
    for ref in ("_typehints:adapt_typehints", "_typehints:adapt_class_type"):
        fn = ctx.func(ref)
        for c in calls_in(fn):
            if call_leaf(c) == "dump" and root_name(c.func) == "parser":
                n_nd += 1
                ok = any(k.arg is None and "dump_kwargs.get()" in ast.unparse(k.value) for k in c.keywords)
                ctx.oblige("C01.f", ok, c, "nested parser.dump uses the published dump options" if ok else "nested parser.dump ignores the caller's dump options", fn=fn)
    ctx.floor("C01.f-nested-dumps", n_nd, 2)

    # ---------------- C01.g: skip_default removes only what parsing the dump puts back ---------------------------------
    # (fixes dc6c9c4 / 7150d40)  In _dump_delete_default_entries(subcfg, subdefaults, ...):
    #  (1) `del subcfg[key]` happens only under `<subcfg[key]> == <subdefaults[key]>` (whole values compared);
    #  (2) entries INSIDE a dict value are removed (recursive call on self) only when the key is not a leaf argument -
    #      the guard consults the action found for the key: a Dict-typed value is replaced as a whole when the dump is
    #      parsed, so it has to be written as a whole;
    #  (3) inside the init_args of a class spec the recursion runs on the parser of that class (its arguments decide
    #      what a leaf is), and the spec's own entry is never deleted there (the class_path must survive);
    #  (4) `.get` on the default happens only where the default is known to be a dict (a class given where the default
    #      is None).
    from .util import guard_atoms as _ga1

    dd = ctx.func("_core:ArgumentParser._dump_delete_default_entries")
    dpar = [a_.arg for a_ in dd.args.args]
    ctx.need(len(dpar) >= 3, "_dump_delete_default_entries(self, subcfg, subdefaults, ...)")
    p_cfg, p_def = dpar[1], dpar[2]

    def _reads(par):
        return {s_.targets[0].id for s_ in walk_local(dd) if isinstance(s_, ast.Assign) and isinstance(s_.targets[0], ast.Name) and isinstance(s_.value, ast.Subscript) and root_name(s_.value) == par and not isinstance(s_.value.value, ast.Subscript)}

    v_vals, v_defs = _reads(p_cfg), _reads(p_def)
    ctx.need(len(v_vals) == 1 and len(v_defs) == 1, "_dump_delete_default_entries: val = subcfg[key]; default = subdefaults[key]")
    v_val, v_def = next(iter(v_vals)), next(iter(v_defs))
    acts_v = {s_.targets[0].id for s_ in walk_local(dd) if isinstance(s_, ast.Assign) and isinstance(s_.targets[0], ast.Name) and isinstance(s_.value, ast.Call) and call_leaf(s_.value) in ("_find_action", "_find_action_and_subcommand", "_find_parent_action")}
    cls_parsers = {s_.targets[0].id for s_ in walk_local(dd) if isinstance(s_, ast.Assign) and isinstance(s_.targets[0], ast.Name) and isinstance(s_.value, ast.Call) and call_leaf(s_.value) == "get_class_parser"}

    def _is_whole_eq(t):
        return isinstance(t, ast.Compare) and len(t.ops) == 1 and isinstance(t.ops[0], ast.Eq) and {ast.unparse(t.left), ast.unparse(t.comparators[0])} == {v_val, v_def}

    def _in_spec_arm(node):
        return any(pol and isinstance(t, ast.Call) and call_leaf(t) == "is_subclass_spec" for t, pol in _ga1(node, stop=dd))

    n_del = 0
    for s_ in [x for x in walk_local(dd) if isinstance(x, ast.Delete)]:
        n_del += 1
        tgt = s_.targets[0]
        at = _ga1(s_, stop=dd)
        if root_name(tgt) == p_cfg:
            ok = any(pol and _is_whole_eq(t) for t, pol in at) and not _in_spec_arm(s_)
            ctx.oblige("C01.g", ok, s_, "an entry is dropped by skip_default only when its whole value equals the default" if ok else f"`{src(s_, 40)}` drops an entry that is not equal to the default as a whole (or drops the entry of a class spec from inside its arm): a class whose class_path differs from the default but whose init_args equal that class's own defaults vanishes from the dump - it parses back to the default class", fn=dd)
        else:
            ok = any(pol and isinstance(t, ast.Compare) and isinstance(t.ops[0], ast.Eq) and isinstance(t.comparators[0], ast.Dict) and not t.comparators[0].keys for t, pol in at)
            ctx.oblige("C01.g", ok, s_, "an emptied init_args entry is removed only when it is empty" if ok else "init_args removed from a class spec although not empty", fn=dd)
    ctx.floor("C01.g", n_del, 2)
    # whether the value names the same class as the default is a comparison of two import-path STRINGS: by equality
    cp_cmp = [n_ for n_ in ast.walk(dd) if isinstance(n_, ast.Compare) and len(n_.ops) == 1 and "class_path" in ast.unparse(n_.left) and "class_path" in ast.unparse(n_.comparators[0])]
    ctx.floor("C01.g-class-path-comparison", len(cp_cmp), 1)
    for n_ in cp_cmp:
        ok = isinstance(n_.ops[0], (ast.Eq, ast.NotEq))
        ctx.oblige("C01.g", ok, n_, "class paths are compared by equality" if ok else f"`{ast.unparse(n_)}` compares two class-path strings by identity: equal paths that are different string objects count as a changed class, the reference defaults are recomputed from the class signature, and an init arg that equals the CLASS default but differs from the argument's own default is dropped from the skip_default dump - it parses back to the argument's default", fn=dd)
    recs = [c for c in calls_in(dd) if call_leaf(c) == "_dump_delete_default_entries"]
    ctx.floor("C01.g-recursions", len(recs), 1)
    for c in recs:
        recv = root_name(c.func)
        at = _ga1(c, stop=dd)
        if _in_spec_arm(c):
            ok = recv in cls_parsers
            ctx.oblige("C01.g", ok, c, "the init_args of a class are reduced by the parser of that class" if ok else f"`{src(c, 60)}` reduces the init_args of a class with `{recv}`, which does not know the arguments of that class: entries of a Dict-typed init arg are removed one by one (opts={{'a': 1, 'b': 5}} is dumped as {{b: 5}}) and the dump parses back to a different value", fn=dd)
        else:
            consults = any(acts_v & {n_.id for n_ in ast.walk(t) if isinstance(n_, ast.Name)} for t, pol in at)
            # the key looked up by _find_action and the prefix handed down are the FULL dotted key so far:
            # <prefix parameter> + <loop key> [+ "."]
            pre_p = dpar[3] if len(dpar) > 3 else None
            if pre_p is not None:
                passed = c.args[2] if len(c.args) > 2 else next((k.value for k in c.keywords if k.arg == pre_p), None)
                nm_p = {n_.id for n_ in ast.walk(passed) if isinstance(n_, ast.Name)} if passed is not None else set()
                okp = pre_p in nm_p and len(nm_p) >= 2
                ctx.oblige("C01.g", okp, c, "the recursion into a group hands down the accumulated dotted prefix" if okp else f"the recursion into a group passes `{ast.unparse(passed) if passed is not None else 'no prefix'}` instead of `{pre_p} + <key> + '.'`: from the third nesting level on, leaf arguments are looked up under a truncated key, are not found, and a Dict-typed value there is reduced entry by entry ({{'train': 100, 'val': 20}} is dumped as {{val: 20}})", fn=dd, construct="accumulated prefix handed down")
                for fa_ in [c2 for c2 in calls_in(dd) if call_leaf(c2) == "_find_action" and len(c2.args) >= 2]:
                    okf = pre_p in {n_.id for n_ in ast.walk(fa_.args[1]) if isinstance(n_, ast.Name)}
                    ctx.oblige("C01.g", okf, fa_, "the action is looked up under the full dotted key" if okf else f"`{src(fa_, 60)}` looks the action up without the accumulated prefix", fn=dd, construct="lookup under the full key")
            ok = recv == "self" and consults
            ctx.oblige("C01.g", ok, c, "entries inside a dict value are removed only for keys that are not leaf arguments (groups, subcommands, nested parsers)" if ok else f"`{src(c, 60)}` removes entries inside ANY dict value: for a Dict[str, int] argument with default {{'a': 1, 'b': 2}} the value {{'a': 1, 'b': 3}} is dumped as `b: 3`, which parses back to {{'b': 3}} - the skip_default dump is not lossless", fn=dd)
    for g_ in [c for c in calls_in(dd) if call_leaf(c) == "get" and root_name(c.func) == v_def]:
        at = _ga1(g_, stop=dd)
        par_ = getattr(g_, "_jv_parent", None)
        while par_ is not None and not isinstance(par_, (ast.BoolOp, ast.stmt)):
            par_ = getattr(par_, "_jv_parent", None)
        in_or = isinstance(par_, ast.BoolOp) and isinstance(par_.op, ast.Or) and any(isinstance(v_, ast.UnaryOp) and isinstance(v_.operand, ast.Call) and call_leaf(v_.operand) == "isinstance" and ast.unparse(v_.operand.args[0]) == v_def for v_ in par_.values[:1])
        in_and = isinstance(par_, ast.BoolOp) and isinstance(par_.op, ast.And) and any(isinstance(v_, ast.Call) and call_leaf(v_) == "isinstance" and ast.unparse(v_.args[0]) == v_def for v_ in par_.values[:-1])
        redefs = [s_ for s_ in walk_local(dd) if isinstance(s_, ast.Assign) and isinstance(s_.targets[0], ast.Name) and s_.targets[0].id == v_def and isinstance(s_.value, ast.Dict)]
        gd = ctx.cfg(dd)
        after_dict = False
        if redefs:
            # the default was replaced by a dict literal on every path on which it was not a dict
            tests_ = [i_ for i_ in walk_local(dd) if isinstance(i_, ast.If) and any(x is redefs[0] for x in i_.body) and f"isinstance({v_def}, dict)" in ast.unparse(i_.test)]
            after_dict = bool(tests_) and gd.dominates(gd.cn(tests_[0].test), gd.cn(g_)) and not any(x is g_ for x in ast.walk(tests_[0].test))
        guarded = any(pol and isinstance(t, ast.Call) and call_leaf(t) == "isinstance" and ast.unparse(t.args[0]) == v_def for t, pol in at)
        ok = in_or or in_and or guarded or after_dict
        ctx.oblige("C01.g", ok, g_, f"`{src(g_, 40)}` runs only where the default is a dict" if ok else f"`{src(g_, 40)}` is evaluated for a default that may be None: dump(skip_default=True, skip_none=False) of a class given for an Optional[...] argument whose default is None raises AttributeError", fn=dd)

    # the steps dump applies to the parser's DEFAULTS (no subcommand is chosen in them) must not insist on a chosen
    # subcommand: every get_subcommand(s) call inside a function that dump calls with the defaults passes
    # fail_no_subcommand=False (fix 7150d40: every skip_default dump of a parser with a required subcommand raised)
    dump_fn0 = ctx.func("_core:ArgumentParser.dump")
    def_vars = {s_.targets[0].id for s_ in walk_local(dump_fn0) if isinstance(s_, ast.Assign) and isinstance(s_.targets[0], ast.Name) and isinstance(s_.value, ast.Call) and call_leaf(s_.value) == "get_defaults"}
    ctx.need(def_vars, "dump: defaults = self.get_defaults(...)")
    n_on_def = 0
    for c in calls_in(dump_fn0):
        if not any(isinstance(a_, ast.Name) and a_.id in def_vars for a_ in c.args):
            continue
        leaf = call_leaf(c)
        for fq2, fn2 in ctx.repo.all_funcs():
            if fq2.split(".")[-1].split(":")[-1] != leaf or fq2.startswith("_deprecated:"):
                continue
            for c2 in calls_in(fn2):
                if call_leaf(c2) not in ("get_subcommands", "get_subcommand", "handle_subcommands"):
                    continue
                n_on_def += 1
                kw_ = get_kwarg(c2, "fail_no_subcommand")
                ok = isinstance(kw_, ast.Constant) and kw_.value is False
                ctx.oblige("C01.g", ok, c2, f"{leaf} (applied to the defaults by dump) does not insist on a chosen subcommand" if ok else f"`{src(c2, 60)}` in {fq2} insists on a chosen subcommand, but dump(skip_default=True) applies {leaf} to the parser's defaults, where none is chosen: every skip_default dump of a parser with a required subcommand raises NSKeyError", fn=fn2)
    ctx.floor("C01.g-steps-on-defaults", n_on_def, 1)

    # the defaults compared against went through the same clean-up as the dumped configuration
    dump_fn = ctx.func("_core:ArgumentParser.dump")
    gdump = ctx.cfg(dump_fn)
    cl_def = [c for c in calls_in(dump_fn) if call_leaf(c) == "_dump_cleanup_actions" and c.args and root_name(c.args[0]) == "defaults"]
    dde = [c for c in calls_in(dump_fn) if call_leaf(c) == "_dump_delete_default_entries"]
    ok = bool(cl_def) and bool(dde) and gdump.dominates(gdump.cn(cl_def), gdump.cn(dde))
    ctx.oblige("C01.g", ok, dde[0] if dde else dump_fn, "defaults are serialised with the same per-action clean-up before they are compared" if ok else "skip_default compares serialised values with unserialised defaults", fn=dump_fn)

    # ---------------- C01.d ---------------------------------------------------
    pcall = ctx.func("_actions:_ActionPrintConfig.__call__")
    dicts = {root_name(s.targets[0]): s.value for s in walk_local(pcall) if isinstance(s, ast.Assign) and isinstance(s.value, ast.Dict) and isinstance(s.targets[0], ast.Name)}
    ctx.need("kwargs" in dicts and "valid_flags" in dicts, "_ActionPrintConfig.__call__: kwargs / valid_flags dict literals")
    keys = {const_str(k) for k in dicts["kwargs"].keys}
    flag_vals = {const_str(v) for v in dicts["valid_flags"].values if const_str(v)}
    pir = ctx.func("_actions:_ActionPrintConfig.print_config_if_requested")
    popped = {const_str(c.args[0]) for c in calls_in(pir) if call_leaf(c) == "pop" and "print_config" in ast.unparse(c.func) and c.args}
    dump = ctx.func("_core:ArgumentParser.dump")
    params = set(func_params(dump))
    passed = (keys | flag_vals) - popped
    extra = sorted(passed - params)
    ctx.oblige("C01.d", not extra, dicts["kwargs"], f"print_config passes {sorted(passed)} to dump, all accepted" if not extra else f"print_config passes {extra} which ArgumentParser.dump does not accept", fn=pcall)
    sn = [v for k, v in zip(dicts["kwargs"].keys, dicts["kwargs"].values) if const_str(k) == "skip_none"]
    ok = bool(sn) and isinstance(sn[0], ast.Constant) and sn[0].value is False
    ctx.oblige("C01.d", ok, dicts["kwargs"], "--print_config keeps nulls by default (skip_none=False), the variant that round-trips" if ok else "--print_config drops nulls by default", fn=pcall, construct="skip_none False")
    dcalls = [c for c in calls_in(pir) if call_leaf(c) == "dump"]
    # the mapping splatted into dump is the stored request - read directly or through a local bound to it
    req_locals = {s_.targets[0].id for s_ in walk_local(pir) if isinstance(s_, ast.Assign) and len(s_.targets) == 1 and isinstance(s_.targets[0], ast.Name) and isinstance(s_.value, ast.Attribute) and s_.value.attr == "print_config"}
    ok = len(dcalls) == 1 and any(k.arg is None and ("print_config" in ast.unparse(k.value) or (isinstance(k.value, ast.Name) and k.value.id in req_locals)) for k in dcalls[0].keywords) and any(call_name(c) == "sys.stdout.write" for c in calls_in(pir))
    ctx.oblige("C01.d", ok, dcalls[0] if dcalls else pir, "the printed text is subparser.dump(cfg, **flags) written to stdout" if ok else "print_config no longer prints dump(cfg, **flags)", fn=pir)

    # ---------------- C01.e ---------------------------------------------------
    n_sites = 0
    arms_D: Dict[int, int] = {}
    arms_S: Dict[int, int] = {}
    ad = ctx.func("_typehints:adapt_typehints")
    # top-level if/elif chain of adapt_typehints
    chain: List[ast.If] = []
    top = [s for s in ad.body if isinstance(s, ast.If) and s.orelse]
    top = max(top, key=lambda s: len(ast.unparse(s))) if top else None
    n = top
    while n is not None:
        chain.append(n)
        n = n.orelse[0] if len(n.orelse) == 1 and isinstance(n.orelse[0], ast.If) else None
    ctx.floor("C01.e-arms", len(chain), 12)

    def arm_of(node: ast.AST) -> Optional[int]:
        for i, a in enumerate(chain):
            if any(contains(s, node) for s in a.body):
                return i
        return None

    for ref in ("_typehints:adapt_typehints", "_typehints:adapt_class_type"):
        fn = ctx.func(ref)
        for cands in conversion_sites(fn):
            for kind, node in cands:
                ct, cf = polarity(node, fn)
                n_sites += 1
                if kind == "D":
                    ok = cf and not ct
                    if cf and ct:
                        # a normalisation: only for values not yet of the target class, whatever the direction
                        # (when serialising, the serialising conversion of the arm follows)
                        from .util import guard_atoms as _ga

                        if any(isinstance(t, ast.Call) and call_leaf(t) == "is_value_of_type" and pol is False for t, pol in _ga(node, stop=fn)):
                            ok = True
                    ctx.oblige("C01.e", ok, node, ("deserialising conversion runs only when serialize is false" if not ct else "normalising conversion: runs in both directions, only for values not yet of the registered class") if ok else f"deserialising conversion {src(node, 50)} can run while serialising (serialize=True reachable: {ct}, serialize=False reachable: {cf})", fn=fn)
                else:
                    ok = ct and not cf
                    ctx.oblige("C01.e", ok, node, "serialising conversion runs only when serialize is true" if ok else f"serialising conversion {src(node, 50)} can run while parsing (serialize=True reachable: {ct}, serialize=False reachable: {cf})", fn=fn)
                if ref.endswith("adapt_typehints"):
                    ai = arm_of(node)
                    # validate_annotated returns a value of the (JSON) base type: no serialising counterpart needed
                    if ai is not None and not (isinstance(node, ast.Call) and call_leaf(node) == "validate_annotated"):
                        (arms_D if kind == "D" else arms_S)[ai] = (arms_D if kind == "D" else arms_S).get(ai, 0) + 1
    ctx.floor("C01.e", n_sites, 14)
    # inside a Union the members are tried in order when serialising too: a member's serializer that accepts values
    # of ANOTHER member (int(0.5) == 0) wins silently.  The registered-type arm has to serialise only values that are
    # of the registered class (and fail otherwise, so that the Union moves on to the member the value belongs to).
    from .util import guard_atoms

    ser_calls = [c for c in calls_in(ad) if isinstance(c.func, ast.Attribute) and c.func.attr == "serializer" and c.args]
    ctx.need(ser_calls, "adapt_typehints: registered_type.serializer(val)")
    for c in ser_calls:
        atoms = guard_atoms(c, stop=ad)
        typed = any(isinstance(t, ast.Call) and call_leaf(t) in ("is_value_of_type", "isinstance") and pol for t, pol in atoms)
        if not typed:
            # or: the value was normalised to the registered class first (`if not is_value_of_type(v): v = deserializer(v)`)
            vname = c.args[0].id if isinstance(c.args[0], ast.Name) else None
            gad_ = ctx.cfg(ad)
            for n_ in walk_local(ad):
                if isinstance(n_, ast.If) and not n_.orelse and isinstance(n_.test, ast.UnaryOp) and isinstance(n_.test.op, ast.Not) and isinstance(n_.test.operand, ast.Call) and call_leaf(n_.test.operand) == "is_value_of_type":
                    asg = [s_ for s_ in n_.body if isinstance(s_, ast.Assign) and isinstance(s_.targets[0], ast.Name) and s_.targets[0].id == vname and isinstance(s_.value, ast.Call) and isinstance(s_.value.func, ast.Attribute) and s_.value.func.attr == "deserializer"]
                    if asg and gad_.dominates(gad_.node_ids_of(n_), gad_.cn(c)):
                        typed = True
        ctx.oblige(
            "C01.e",
            typed,
            c,
            "the registered serializer only sees values of the registered class" if typed else "the registered serializer is applied to whatever value arrives: in Union[PositiveInt, OpenUnitInterval] the value 0.5 is written by the first member's serializer as int(0.5) = 0, and the dump no longer re-parses to the configuration it came from",
            fn=ad,
            construct="registered serializer sees its own class only",
        )
    # key cast of Dict[int, ...]
    casts = [s for s in walk_local(ad) if isinstance(s, ast.Assign) and root_name(s.targets[0]) == "cast" and isinstance(s.value, ast.IfExp)]
    ok = len(casts) == 1 and isinstance(casts[0].value.test, ast.Name) and casts[0].value.test.id == "serialize" and dotted(casts[0].value.body) == "str" and dotted(casts[0].value.orelse) == "int"
    ctx.oblige("C01.e", ok, casts[0] if casts else ad, "int dict keys are written as str when serialising and read back as int" if ok else "the key cast of Dict[int, ...] has the wrong polarity", fn=ad, construct="dict key cast")
    if casts:
        ai = arm_of(casts[0])
        arms_D[ai] = arms_D.get(ai, 0) + 1
        arms_S[ai] = arms_S.get(ai, 0) + 1
    # unconditional conversions to a JSON container count as serialising side of their arm
    for s in walk_local(ad):
        if isinstance(s, ast.Assign) and isinstance(s.targets[0], ast.Name) and s.targets[0].id == "val" and isinstance(s.value, ast.Call) and isinstance(s.value.func, ast.Name) and s.value.func.id in ("list", "dict") and root_name(s.value.args[0] if s.value.args else s.value) == "val":
            ct, cf = polarity(s, ad)
            if ct:
                ai = arm_of(s)
                if ai is not None:
                    arms_S[ai] = arms_S.get(ai, 0) + 1
    # calls that adapt recursively with the same polarity count for both sides
    for i, a in enumerate(chain):
        if arms_D.get(i):
            has_s = arms_S.get(i, 0) > 0 or any(call_leaf(c) == "adapt_class_type" for s in a.body for c in calls_in(s))
            ctx.oblige("C01.e", has_s, a, f"arm `{src(a.test, 50)}` deserialises to a non-JSON type and has a serialising counterpart" if has_s else f"arm `{src(a.test, 50)}` converts on parse but has no serialising branch: its values cannot be dumped back", fn=ad)

    # ---------------- C01.f: the sub-files of a multi-file save are serialised with the caller's options -----------------------
    sv1 = ctx.func("_core:ArgumentParser.save")
    sk = [s_ for s_ in walk_local(sv1) if isinstance(s_, ast.Assign) and isinstance(s_.value, ast.Dict) and any(const_str(k) == "skip_none" for k in s_.value.keys)]
    ctx.floor("C01.f-save-serialize-kwargs", len(sk), 1)
    for s_ in sk:
        dv = dict(zip([const_str(k) for k in s_.value.keys], s_.value.values))
        ok = isinstance(dv["skip_none"], ast.Name) and dv["skip_none"].id == "skip_none" and "skip_none" in [a.arg for a in sv1.args.args + sv1.args.kwonlyargs]
        ctx.oblige("C01.f", ok, s_, "sub-files are serialised with the skip_none the caller asked for" if ok else f"sub-files are serialised with skip_none={ast.unparse(dv['skip_none'])} whatever the caller passed: with save(..., skip_none=False, multifile=True) a None that overrides a non-None default is dropped from the sub-file only, and parse_path of the saved main file returns the default", fn=sv1)

    return ctx.finish(
        explanation=(
            "(a) PyYAML's implicit-resolver tables of the customised loader and of the dumper are read from source (stock table from yaml/resolver.py, edits from "
            "get_yaml_default_loader / the dumper class used by yaml_dump), compiled with the stdlib regex front end to DFAs with first-character dispatch, and compared: "
            "NonStr(loader) must be included in NonStr(dumper) (else the shortest plain-safe witness string is reported); the representer's float/int/bool/null spellings and "
            "json.dumps' finite float spellings must resolve back to the same tag. (d) print_config flag table vs dump's signature. (e) three-valued polarity of every "
            "conversion site in adapt_typehints/adapt_class_type w.r.t. `serialize`. Decides the scalar-resolution agreement exactly (a proof of that clause) and the polarity "
            "wiring; equality of values for all parsers and inputs is not decided."
        ),
        rule_text="language inclusions are decided exactly on product DFAs (129-symbol alphabet); one obligation per inclusion / conversion site / arm",
    )
