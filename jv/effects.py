"""E5 - alias and mutation summaries ("does this call write to an object it did not create?").

Abstract value of a local: set of (origin, level).
  origin  a parameter name of the current function, or "g:<name>" for a shared
          mutable object (mutable ContextVar default, mutable default parameter,
          class-level mutable attribute)
  level   TOP        the origin object itself
          INTERIOR   an object reachable inside it through list / dict / namespace levels
          HELD       a fresh container whose elements alias the origin's interior (shallow copy)
          DEEP0      a fresh copy down to (not through) tuples / sets  (clone, recreate_branches, strip_meta)
          UT         low-confidence alias: an object read out of such a copy (fresh unless it sits below a
                     tuple / set), or a value bound through a ** splat of a mapping with unknown keys
The empty set is a fresh / unrelated value.

A *mutation* is a subscript / attribute store, del, augmented assignment, or a call
of a mutating method on a value.  Function summaries (strongest level at which each
parameter may be mutated, and how the return value aliases each parameter) are
computed to a fixpoint over the call graph.  External callees are assumed not to
mutate their arguments except through the mutating-method vocabulary.
"""

from __future__ import annotations

import ast
from typing import Dict, FrozenSet, Iterable, List, Optional, Set, Tuple

from .callgraph import CallGraph
from .cfg import CFG
from .dataflow import forward
from .srcmodel import FuncNode, ScopeNode, call_leaf, call_name, dotted, func_params, loc, qualname, src, walk_local

TOP, INTERIOR, HELD, DEEP0, UT = "TOP", "INTERIOR", "HELD", "DEEP0", "UT"
MUT_RANK = {None: 0, UT: 1, INTERIOR: 2, TOP: 3}

MUTATING_METHODS = {
    "append", "extend", "insert", "pop", "remove", "clear", "update", "setdefault", "sort", "reverse", "add", "discard",
    "popitem", "difference_update", "intersection_update", "symmetric_difference_update", "__setitem__", "__delitem__",
    "appendleft", "popleft",
}  # fmt: skip
SHALLOW_COPIES = {"list", "dict", "set", "tuple", "sorted", "frozenset", "OrderedDict", "Namespace", "copy"}
# copy primitives (their bodies are verified by rule C08.a); strip_meta / namespace_to_dict / dict_to_namespace
# are analysed like any other function, so a conditional copy shows up as a possible alias of the argument
DEEP_EXCEPT_TUPLE = {"clone", "recreate_branches"}
DEEP_COPIES = {"deepcopy"}
READ_THROUGH = {"setdefault", "pop", "popitem", "get", "items", "values", "keys", "get_value_and_parent", "getattr", "next", "iter", "enumerate", "zip", "reversed", "filter", "vars", "get_sorted_keys", "as_dict", "as_flat"}
FRESH_RESULT_BUILTINS = {"len", "str", "int", "float", "bool", "repr", "isinstance", "hasattr", "type", "id", "range", "any", "all", "min", "max", "sum", "callable", "format", "print", "join"}

TYPE_U = frozenset({"dict", "Namespace", "list", "str", "NestedArg", "tuple", "set", "None", "other"})
TYPE_ALIASES = {"argparse.Namespace": "Namespace", "OrderedDict": "dict", "MappingProxyType": "other"}
SUBSCRIPT_STORE_TYPES = frozenset({"dict", "Namespace", "list", "other"})
STRKEY_STORE_TYPES = frozenset({"dict", "Namespace", "other"})

DECLARED_DEFAULT = "g:declared default of an action (action.default)"
# fields of a class spec / namespace that hold an immutable value by construction
IMMUTABLE_FIELDS = {"class_path"}

Val = FrozenSet[Tuple[str, str]]
EMPTY: Val = frozenset()


def lower(v: Val) -> Val:
    out = set()
    for o, l in v:
        if l in (TOP, INTERIOR, HELD):
            out.add((o, INTERIOR))
        else:  # DEEP0, UT
            out.add((o, UT))
    return frozenset(out)


def shallow(v: Val) -> Val:
    out = set()
    for o, l in v:
        if l in (TOP, INTERIOR, HELD):
            out.add((o, HELD))
        else:
            out.add((o, DEEP0 if l == DEEP0 else UT))
    return frozenset(out)


def deep_except_tuple(v: Val) -> Val:
    return frozenset((o, DEEP0) for o, l in v)


def wrap(v: Val) -> Val:
    """A fresh container that holds the value itself."""
    out = set()
    for o, l in v:
        out.add((o, HELD if l in (TOP, INTERIOR, HELD) else UT))
    return frozenset(out)


def mutation_level(l: str, m: str = TOP) -> Optional[str]:
    """Level at which the origin is mutated when a value at level l is mutated at level m."""
    if l == TOP:
        return m
    if l == INTERIOR:
        return INTERIOR if m in (TOP, INTERIOR) else UT
    if l == HELD:
        return None if m == TOP else (INTERIOR if m == INTERIOR else UT)
    if l == DEEP0:
        return None if m == TOP else UT
    return UT  # UT


class Mutation:
    __slots__ = ("fref", "origin", "level", "node", "what", "via")

    def __init__(self, fref, origin, level, node, what, via=None):
        self.fref, self.origin, self.level, self.node, self.what, self.via = fref, origin, level, node, what, via


class Effects:
    def __init__(self, repo, cg: Optional[CallGraph] = None, cfg_of=None, globals_tracked: bool = True):
        self.repo = repo
        self.cg = cg or CallGraph(repo)
        self._cfg_of = cfg_of or (lambda fn: CFG(fn))
        self.mut: Dict[str, Dict[str, str]] = {}  # fref -> origin -> (highest) level
        self.mutset: Dict[str, Dict[str, Set[str]]] = {}  # fref -> origin -> every level written
        self.ret: Dict[str, Dict[str, Set[str]]] = {}  # fref -> param -> levels of the returned value
        self.ret_elems: Dict[str, Dict[int, Dict[str, Set[str]]]] = {}  # tuple returns: element index -> param -> levels
        self.witness: Dict[Tuple[str, str], Mutation] = {}  # (fref, origin) -> strongest mutation found
        self.shared_globals = self._find_shared_globals() if globals_tracked else {}
        self.iterations = 0
        self.analysed: Set[str] = set()

    # ---------------------------------------------------------------- globals
    def _find_shared_globals(self) -> Dict[str, str]:
        """ContextVars whose declared default is a mutable literal -> description."""
        out = {}
        for m in self.repo.modules.values():
            for s in m.tree.body:
                tg, v = None, None
                if isinstance(s, ast.Assign) and len(s.targets) == 1:
                    tg, v = s.targets[0], s.value
                elif isinstance(s, ast.AnnAssign):
                    tg, v = s.target, s.value
                if isinstance(tg, ast.Name) and isinstance(v, ast.Call) and call_leaf(v) == "ContextVar":
                    for k in v.keywords:
                        if k.arg == "default" and isinstance(k.value, (ast.List, ast.Dict, ast.Set)):
                            out[tg.id] = f"mutable default of ContextVar {m.name}.{tg.id}"
        return out

    # ----------------------------------------------------------------- engine
    def analyse(self, roots: Iterable[str], max_iter: int = 12) -> None:
        todo = sorted(self.cg.reachable_from(roots))
        self.analysed = set(todo)
        for f in todo:
            self.mut.setdefault(f, {})
            self.ret.setdefault(f, {})
        callers: Dict[str, Set[str]] = {}
        for f in todo:
            for t in self.cg.callees(f):
                callers.setdefault(t, set()).add(f)
        dirty = set(todo)
        for it in range(max_iter):
            self.iterations = it + 1
            if not dirty:
                break
            cur, dirty = dirty, set()
            for f in todo:
                if f not in cur:
                    continue
                if self._analyse_function(f):
                    dirty.add(f)  # its own summary feeds recursion
                    dirty |= callers.get(f, set()) & self.analysed

    def _origins_of(self, fn: ast.AST) -> Dict[str, Val]:
        st = {}
        a0 = fn.args
        fresh = {a0.vararg.arg if a0.vararg else None, a0.kwarg.arg if a0.kwarg else None}
        ann = {x.arg: x.annotation for x in a0.posonlyargs + a0.args + a0.kwonlyargs}
        for p in func_params(fn):
            if p in fresh:
                # *args / **kwargs are containers created by the call itself; their elements are the caller's
                st[p] = frozenset({(p, HELD)})
            elif _immutable_annotation(ann.get(p)) == "scalar":
                st[p] = EMPTY
            else:
                st[p] = frozenset({(p, TOP)})
        self._leaf_immutable = {p for p in func_params(fn) if _immutable_annotation(ann.get(p)) == "container-of-scalars"}
        for p in func_params(fn):
            st[("?", p)] = TYPE_U
        # mutable default parameters are shared between calls
        a = fn.args
        pos = a.posonlyargs + a.args
        for p, d in zip(pos[len(pos) - len(a.defaults):], a.defaults):
            if isinstance(d, (ast.List, ast.Dict, ast.Set)) or (isinstance(d, ast.Call) and call_leaf(d) in ("set", "list", "dict") and not d.args):
                st[p.arg] = st[p.arg] | frozenset({(f"g:default of parameter {p.arg}", TOP)})
        return st

    def _analyse_function(self, fref: str) -> bool:
        fn = self.cg.funcs[fref]
        g = self._cfg_of(fn)
        cls = self.cg.class_of.get(fref)
        class_mut_attrs = self._class_mutable_attrs(cls) if cls else {}
        changed = [False]
        mut = self.mut[fref]
        ret = self.ret[fref]
        me = self

        def record(origin: str, level: Optional[str], node: ast.AST, what: str, via=None):
            if level is None or origin == "<fresh>":
                return
            # all levels at which the origin is written (a caller that passes a shallow copy is hit by the INTERIOR
            # write even when there is also a TOP write, which only touches the copy)
            lset = me.mutset.setdefault(fref, {}).setdefault(origin, set())
            if level not in lset:
                lset.add(level)
                changed[0] = True
            if MUT_RANK[level] > MUT_RANK.get(mut.get(origin), 0):
                mut[origin] = level
                changed[0] = True
                me.witness[(fref, origin)] = Mutation(fref, origin, level, node, what, via)
            elif (fref, origin) not in me.witness:
                me.witness[(fref, origin)] = Mutation(fref, origin, level, node, what, via)

        def mutate(v: Val, node: ast.AST, what: str, m: str = TOP, via=None):
            for o, l in v:
                record(o, mutation_level(l, m), node, what, via)

        leaf_immutable = set()

        def low(v: Val) -> Val:
            """lower(), except that the elements of a container annotated as holding only str are immutable."""
            return lower(frozenset((o, l) for o, l in v if not (o in leaf_immutable and l in (TOP, HELD))))

        def ev(e: Optional[ast.AST], st) -> Val:
            if e is None:
                return EMPTY
            if isinstance(e, ast.Name):
                return st.get(e.id, EMPTY)
            if isinstance(e, ast.Attribute):
                base = ev(e.value, st)
                out = low(base)
                # class-level mutable attribute read through self
                if isinstance(e.value, ast.Name) and e.value.id in ("self", "cls") and e.attr in class_mut_attrs:
                    out = out | frozenset({(f"g:{class_mut_attrs[e.attr]}", TOP)})
                if e.attr == "default" and isinstance(e.ctx, ast.Load):
                    # the declared default of an action is shared by every later parse
                    out = out | frozenset({(DECLARED_DEFAULT, TOP)})
                return out
            if isinstance(e, ast.Subscript):
                if isinstance(e.slice, ast.Slice):
                    return shallow(ev(e.value, st))
                if isinstance(e.slice, ast.Constant) and e.slice.value in IMMUTABLE_FIELDS:
                    return EMPTY  # a string by construction (is_subclass_spec / import paths): nothing to alias
                if isinstance(e.value, ast.Name) and isinstance(e.slice, ast.Constant) and isinstance(e.slice.value, str):
                    fk = ("f", e.value.id, e.slice.value)
                    if fk in st:
                        return st[fk]  # field assigned in this function on this path
                return low(ev(e.value, st))
            if isinstance(e, ast.Starred):
                return ev(e.value, st)
            if isinstance(e, (ast.List, ast.Tuple, ast.Set)):
                out: Val = EMPTY
                for x in e.elts:
                    out = out | wrap(ev(x, st))
                return out
            if isinstance(e, ast.Dict):
                out = EMPTY
                for k, v in zip(e.keys, e.values):
                    out = out | (shallow(ev(v, st)) if k is None else wrap(ev(v, st)))
                return out
            if isinstance(e, ast.IfExp):
                return ev(e.body, st) | ev(e.orelse, st)
            if isinstance(e, ast.BoolOp):
                out = EMPTY
                for x in e.values:
                    out = out | ev(x, st)
                return out
            if isinstance(e, ast.NamedExpr):
                return ev(e.value, st)
            if isinstance(e, ast.BinOp):
                # list + list builds a fresh list holding the elements of both
                return shallow(ev(e.left, st)) | shallow(ev(e.right, st)) if isinstance(e.op, ast.Add) else EMPTY
            if isinstance(e, (ast.ListComp, ast.SetComp, ast.GeneratorExp, ast.DictComp)):
                st2 = dict(st)
                for gen in e.generators:
                    bind(gen.target, low(ev(gen.iter, st2)), st2)
                if isinstance(e, ast.DictComp):
                    return wrap(ev(e.value, st2))
                return wrap(ev(e.elt, st2))
            if isinstance(e, ast.Call):
                return ev_call(e, st)
            if isinstance(e, ast.Await):
                return ev(e.value, st)
            return EMPTY

        def bind(target: ast.AST, v: Val, st) -> None:
            if isinstance(target, ast.Name):
                st[target.id] = v
                st[("?", target.id)] = TYPE_U
            elif isinstance(target, (ast.Tuple, ast.List)):
                for el in target.elts:
                    bind(el, low(v) if v else v, st)
            elif isinstance(target, ast.Starred):
                bind(target.value, v, st)

        def ev_call(c: ast.Call, st) -> Val:
            leaf = call_leaf(c)
            f = c.func
            recv = f.value if isinstance(f, ast.Attribute) else None
            # shared mutable ContextVar default
            if leaf == "get" and isinstance(recv, ast.Name) and recv.id in me.shared_globals and not c.args:
                return frozenset({(f"g:{me.shared_globals[recv.id]}", TOP)})
            targets, how = me.cg.resolve(fref, c)
            targets = [t for t in targets if t in me.cg.funcs]
            # --- known copy / read vocabulary (applies whoever the receiver is) ---
            if leaf in DEEP_COPIES:
                return EMPTY
            if leaf in DEEP_EXCEPT_TUPLE:
                src_e = recv if (leaf == "clone" and recv is not None) else (c.args[0] if c.args else None)
                v = ev(src_e, st)
                if leaf == "strip_meta":
                    # `if cfg: cfg = recreate_branches(...)`: an empty configuration is returned as is
                    return deep_except_tuple(v)
                return deep_except_tuple(v)
            if leaf in SHALLOW_COPIES and (isinstance(f, ast.Name) or leaf == "copy"):
                src_e = recv if (leaf == "copy" and isinstance(f, ast.Attribute)) else (c.args[0] if c.args else None)  # x.copy() / copy(x)
                out = shallow(ev(src_e, st))
                for k in c.keywords:
                    out = out | (shallow(ev(k.value, st)) if k.arg is None else wrap(ev(k.value, st)))
                return out
            if leaf in READ_THROUGH and not targets:
                out = EMPTY
                if recv is not None:
                    out = out | low(ev(recv, st))
                for a in c.args:
                    out = out | low(ev(a, st))
                return out
            if leaf in FRESH_RESULT_BUILTINS and isinstance(f, ast.Name):
                return EMPTY
            # --- package callees: apply summaries ---
            out = EMPTY
            if targets:
                for t in targets:
                    tfn = me.cg.funcs[t]
                    params = func_params(tfn)
                    amap = map_args(c, tfn, params, recv, t)
                    tmut = me.mut.get(t)
                    if tmut is None:
                        continue  # not analysed (outside the reachable set)
                    for q, m0 in list(tmut.items()):
                        for m in sorted(me.mutset.get(t, {}).get(q, {m0}), key=lambda x: -MUT_RANK[x]):
                            if q.startswith("g:"):
                                record(q, m, c, f"call of {t.split(':')[1]}", via=(t, q))
                            elif q in amap:
                                mutate(amap[q](st), c, f"argument `{q}` of {t.split(':')[1]}", m, via=(t, q))
                    for q, levels in me.ret.get(t, {}).items():
                        if q in amap:
                            v = amap[q](st)
                            for rl in levels:
                                out = out | relate(v, rl)
                return out
            # --- external callee: mutating-method vocabulary ---
            return EMPTY

        def bind_elems(target: ast.Tuple, c: ast.Call, st, out) -> bool:
            """a, b, c = f(...) where f returns tuples: bind element by element through f's element summaries."""
            targets, how = me.cg.resolve(fref, c)
            targets = [t for t in targets if t in me.cg.funcs and t in me.ret_elems]
            if not targets:
                return False
            recv = c.func.value if isinstance(c.func, ast.Attribute) else None
            for i, el in enumerate(target.elts):
                v: Val = EMPTY
                for t in targets:
                    tfn = me.cg.funcs[t]
                    amap = map_args(c, tfn, func_params(tfn), recv, t)
                    for q, levels in me.ret_elems[t].get(i, {}).items():
                        if q in amap:
                            av = amap[q](st)
                            for rl in levels:
                                v = v | relate(av, rl)
                bind(el, v, out) if not isinstance(el, ast.Name) else out.__setitem__(el.id, v)
                if isinstance(el, ast.Name):
                    out[("?", el.id)] = TYPE_U
            return True

        def relate(v: Val, rl: str) -> Val:
            """value returned = f(param at level rl), param bound to v."""
            if rl == TOP:
                return v
            if rl == INTERIOR:
                return lower(v)
            if rl == HELD:
                return shallow(v)
            if rl == DEEP0:
                return deep_except_tuple(v)
            return frozenset((o, UT) for o, _ in v)

        def map_args(c: ast.Call, tfn, params, recv, tref):
            """param name -> thunk(state) giving the abstract value bound to it."""
            amap = {}
            is_method = tref in me.cg.class_of
            decos = {dotted(d) for d in getattr(tfn, "decorator_list", [])}
            static = "staticmethod" in decos
            plist = list(params)
            ctor = tfn.name in ("__init__", "__new__") and isinstance(c.func, ast.Name)
            if is_method and not static and plist:
                first = plist.pop(0)
                if ctor:
                    pass  # fresh object
                elif recv is not None and not (isinstance(recv, ast.Name) and recv.id in me.cg.class_by_name):
                    amap[first] = (lambda r: (lambda st: ev(r, st)))(recv)
                elif recv is not None and c.args:
                    # Class.method(obj, ...) explicit self
                    a0 = c.args[0]
                    amap[first] = (lambda r: (lambda st: ev(r, st)))(a0)
                    rest = c.args[1:]
                    for p, a in zip(plist, rest):
                        amap[p] = (lambda r: (lambda st: ev(r, st)))(a)
                    for k in c.keywords:
                        if k.arg:
                            amap[k.arg] = (lambda r: (lambda st: ev(r, st)))(k.value)
                    return amap
            pos = [a for a in c.args]
            a = tfn.args
            vararg = a.vararg.arg if a.vararg else None
            kwarg = a.kwarg.arg if a.kwarg else None
            named = [p for p in plist if p not in (vararg, kwarg)]
            for i, arg in enumerate(pos):
                if isinstance(arg, ast.Starred):
                    for p in named[i:]:
                        amap.setdefault(p, (lambda r: (lambda st: lower(ev(r, st))))(arg.value))
                    break
                if i < len(named) and named[i] not in [x.arg for x in a.kwonlyargs]:
                    amap[named[i]] = (lambda r: (lambda st: ev(r, st)))(arg)
                elif vararg:
                    prev = amap.get(vararg)
                    amap[vararg] = (lambda r, pv: (lambda st: wrap(ev(r, st)) | (pv(st) if pv else EMPTY)))(arg, prev)
            for k in c.keywords:
                if k.arg is None:
                    lit = dict_literal(k.value)
                    if lit is not None:
                        # **name where name is a dict literal with constant keys: bind key by key
                        for key, vexpr in lit.items():
                            if key in params and key not in amap:
                                amap[key] = (lambda r: (lambda st: ev(r, st)))(vexpr)
                            elif kwarg and key not in params:
                                prev = amap.get(kwarg)
                                amap[kwarg] = (lambda r, pv: (lambda st: wrap(ev(r, st)) | (pv(st) if pv else EMPTY)))(vexpr, prev)
                        continue
                    # ** splat of a mapping with unknown keys: any not yet bound parameter *may* receive any of its
                    # values - bound at the low-confidence level UT (reported as observation, not as violation)
                    for p in named:
                        if p not in amap:
                            amap[p] = (lambda r: (lambda st: frozenset((o, UT) for o, _ in ev(r, st))))(k.value)
                    if kwarg:
                        amap[kwarg] = (lambda r: (lambda st: shallow(ev(r, st))))(k.value)
                elif k.arg in params:
                    amap[k.arg] = (lambda r: (lambda st: ev(r, st)))(k.value)
                elif kwarg:
                    prev = amap.get(kwarg)
                    amap[kwarg] = (lambda r, pv: (lambda st: wrap(ev(r, st)) | (pv(st) if pv else EMPTY)))(k.value, prev)
            return amap

        dl_cache: Dict[str, Optional[Dict[str, ast.AST]]] = {}

        def dict_literal(e: ast.AST) -> Optional[Dict[str, ast.AST]]:
            """Name bound (only) to dict literals / dict(...) with constant keys in this function -> key -> value expr
            (later `name[key] = v` stores and .pop(key) are folded in / ignored: over-approximate per key)."""
            if isinstance(e, ast.Dict) and all(k is not None and isinstance(k, ast.Constant) and isinstance(k.value, str) for k in e.keys):
                return {k.value: v for k, v in zip(e.keys, e.values)}
            if isinstance(e, ast.Call) and isinstance(e.func, ast.Name) and e.func.id == "deepcopy" and e.args:
                inner = dict_literal(e.args[0])
                return None if inner is None else {k: ast.Constant(value=None) for k in inner}
            if isinstance(e, ast.Dict) and any(k is None for k in e.keys):
                out: Dict[str, ast.AST] = {}
                for k, v in zip(e.keys, e.values):
                    if k is None:
                        inner = dict_literal(v)
                        if inner is None:
                            return None
                        out.update(inner)
                    elif isinstance(k, ast.Constant) and isinstance(k.value, str):
                        out[k.value] = v
                    else:
                        return None
                return out
            if not isinstance(e, ast.Name):
                return None
            if e.id in dl_cache:
                return dl_cache[e.id]
            dl_cache[e.id] = None
            defs = [s for s in walk_local(fn) if isinstance(s, ast.Assign) and any(isinstance(t, ast.Name) and t.id == e.id for t in s.targets)]
            if not defs:
                return None
            merged: Dict[str, ast.AST] = {}
            for d in defs:
                v = d.value
                if isinstance(v, ast.Call) and isinstance(v.func, ast.Name) and v.func.id == "dict" and not v.args:
                    lit = {k.arg: k.value for k in v.keywords if k.arg}
                elif isinstance(v, ast.Call) and call_leaf(v) == "copy" and isinstance(v.func, ast.Attribute):
                    lit = dict_literal(v.func.value)
                else:
                    lit = dict_literal(v)
                if lit is None:
                    return None
                for k, x in lit.items():
                    merged.setdefault(k, x)
            # later stores name["k"] = v add keys
            for s2 in walk_local(fn):
                if isinstance(s2, ast.Assign) and isinstance(s2.targets[0], ast.Subscript) and isinstance(s2.targets[0].value, ast.Name) and s2.targets[0].value.id == e.id:
                    ks = s2.targets[0].slice
                    if isinstance(ks, ast.Constant) and isinstance(ks.value, str):
                        merged.setdefault(ks.value, s2.value)
                    else:
                        return None
            dl_cache[e.id] = merged
            return merged

        def can_store(t: ast.AST, st) -> bool:
            """A subscript store on a local whose possible types (from isinstance tests on this path)
            exclude every subscriptable mutable container cannot succeed, hence cannot mutate."""
            if isinstance(t, ast.Subscript) and isinstance(t.value, ast.Name):
                may = st.get(("?", t.value.id), TYPE_U)
                need = STRKEY_STORE_TYPES if (isinstance(t.slice, ast.Constant) and isinstance(t.slice.value, str)) else SUBSCRIPT_STORE_TYPES
                return bool(may & need)
            return True

        def types_of_value(e: ast.AST) -> FrozenSet[str]:
            if isinstance(e, ast.Call) and isinstance(e.func, ast.Name):
                if e.func.id in ("Namespace", "dict", "list", "str", "tuple", "set"):
                    return frozenset({e.func.id})
                if e.func.id == "NestedArg":
                    return frozenset({"NestedArg"})
            if isinstance(e, ast.Dict) or isinstance(e, ast.DictComp):
                return frozenset({"dict"})
            if isinstance(e, (ast.List, ast.ListComp)):
                return frozenset({"list"})
            if isinstance(e, ast.Constant):
                return frozenset({"None"}) if e.value is None else frozenset({"str"}) if isinstance(e.value, str) else frozenset({"other"})
            if isinstance(e, ast.JoinedStr):
                return frozenset({"str"})
            if isinstance(e, ast.BinOp) and isinstance(e.op, (ast.Add, ast.Mod)) and ("str" in (types_of_value(e.left) | types_of_value(e.right)) and (types_of_value(e.left) == {"str"} or types_of_value(e.right) == {"str"})):
                return frozenset({"str"})
            return TYPE_U

        def refine(st, test: ast.AST, truth: bool):
            """Sharpen the type facts of `st` knowing that `test` evaluated to `truth`;
            None if that is impossible under the facts already known."""
            if isinstance(test, ast.UnaryOp) and isinstance(test.op, ast.Not):
                return refine(st, test.operand, not truth)
            if isinstance(test, ast.BoolOp):
                if (isinstance(test.op, ast.And) and truth) or (isinstance(test.op, ast.Or) and not truth):
                    cur = st
                    for v in test.values:
                        cur = refine(cur, v, truth)
                        if cur is None:
                            return None
                    return cur
                return st
            name, new = None, None
            if isinstance(test, ast.Call) and isinstance(test.func, ast.Name) and test.func.id == "isinstance" and len(test.args) == 2 and isinstance(test.args[0], ast.Name):
                telts = test.args[1].elts if isinstance(test.args[1], ast.Tuple) else [test.args[1]]
                names = set()
                for te in telts:
                    d = dotted(te)
                    if d is None:
                        return st
                    d = TYPE_ALIASES.get(d, d.split(".")[-1])
                    names.add(d if d in TYPE_U else "other")
                name = test.args[0].id
                cur = st.get(("?", name), TYPE_U)
                if truth:
                    new = cur & frozenset(names) if "other" not in names else cur - {"None"}
                else:
                    new = cur - (frozenset(names) - {"other"})
            elif isinstance(test, ast.Compare) and len(test.ops) == 1 and isinstance(test.left, ast.Name) and isinstance(test.comparators[0], ast.Constant) and test.comparators[0].value is None and isinstance(test.ops[0], (ast.Is, ast.IsNot)):
                name = test.left.id
                cur = st.get(("?", name), TYPE_U)
                is_none = isinstance(test.ops[0], ast.Is) == truth
                new = cur & {"None"} if is_none else cur - {"None"}
            elif isinstance(test, ast.Name) and truth:
                name = test.id
                cur = st.get(("?", name), TYPE_U)
                new = cur - {"None"}
            if name is None:
                return st
            if not new:
                return None
            if new == cur:
                return st
            out = dict(st)
            out[("?", name)] = new
            return out

        def edge_refine(node, st, lab):
            if node.kind != "test" or node.ast is None:
                return st
            return refine(st, node.ast, lab == "t")

        def effects_of_expr(e: ast.AST, st) -> None:
            """Record mutations caused by evaluating expression e (calls inside it)."""
            for n in _calls_in_order(e):
                leaf = call_leaf(n)
                f = n.func
                if isinstance(f, ast.Attribute) and leaf in MUTATING_METHODS and isinstance(f.value, ast.Name):
                    for fk in [k for k in st if isinstance(k, tuple) and k[0] == "f" and k[1] == f.value.id]:
                        st.pop(fk, None)
                if isinstance(f, ast.Attribute) and leaf in MUTATING_METHODS:
                    targets, how = me.cg.resolve(fref, n)
                    targets = [t for t in targets if t in me.cg.funcs and t in me.mut]
                    if not targets:
                        # container vocabulary on an arbitrary receiver
                        rv = ev(f.value, st)
                        # x.__dict__.update(...)
                        mutate(rv, n, f"{src(f.value, 40)}.{leaf}(...)")
                        continue
                if isinstance(f, ast.Name) and f.id in ("setattr", "delattr") and n.args:
                    mutate(ev(n.args[0], st), n, f"{f.id}({src(n.args[0], 30)}, ...)")
                    continue
                ev_call(n, st)  # applies callee summaries (records mutations through arguments)

        def transfer(node, st):
            s = node.ast
            if s is None:
                return st
            out = st
            if node.kind in ("test", "iter"):
                effects_of_expr(s, st)
                return st
            if node.kind == "with_enter":
                effects_of_expr(s.context_expr, st)
                if s.optional_vars is not None:
                    out = dict(st)
                    bind(s.optional_vars, ev(s.context_expr, st), out)
                return out
            if node.kind == "loop" and isinstance(s, (ast.For, ast.AsyncFor)):
                out = dict(st)
                bind(s.target, low(ev(s.iter, st)), out)
                return out
            if node.kind == "handler":
                if s.name:
                    out = dict(st)
                    out[s.name] = EMPTY
                return out
            if node.kind != "stmt":
                return st
            if isinstance(s, ast.Assign):
                effects_of_expr(s.value, st)
                v = ev(s.value, st)
                out = dict(st)
                for t in s.targets:
                    if isinstance(t, (ast.Name, ast.Tuple, ast.List)):
                        if isinstance(t, ast.Name):
                            out[t.id] = v
                            out[("?", t.id)] = types_of_value(s.value)
                            for fk in [k for k in out if isinstance(k, tuple) and k[0] == "f" and k[1] == t.id]:
                                del out[fk]
                        elif isinstance(t, ast.Tuple) and isinstance(s.value, ast.Call) and bind_elems(t, s.value, st, out):
                            pass
                        else:
                            bind(t, v, out)
                    elif isinstance(t, (ast.Subscript, ast.Attribute)):
                        base = t.value
                        effects_of_expr(base, st)
                        bv = ev(base, st)
                        if isinstance(t, ast.Subscript) and isinstance(base, ast.Name) and isinstance(t.slice, ast.Constant) and isinstance(t.slice.value, str):
                            out[("f", base.id, t.slice.value)] = v if v else frozenset({("<fresh>", HELD)})
                        # constructors initialising their own object are not mutations of a caller's object
                        if not (isinstance(base, ast.Name) and base.id == "self" and fn.name in ("__init__", "__new__")) and can_store(t, st):
                            mutate(bv, s, f"store into {src(t, 40)}")
                return out
            if isinstance(s, ast.AnnAssign):
                if s.value is not None:
                    effects_of_expr(s.value, st)
                    if isinstance(s.target, ast.Name):
                        out = dict(st)
                        out[s.target.id] = ev(s.value, st)
                return out
            if isinstance(s, ast.AugAssign):
                effects_of_expr(s.value, st)
                t = s.target
                if isinstance(t, ast.Name):
                    # x += [..] mutates a list in place
                    rhs_t = types_of_value(s.value)
                    if isinstance(s.op, ast.Add) and ("list" in rhs_t) and st.get(("?", t.id), TYPE_U) != {"str"}:
                        mutate(st.get(t.id, EMPTY), s, f"in-place {src(s, 40)}")
                    out = dict(st)
                    out[t.id] = st.get(t.id, EMPTY) | shallow(ev(s.value, st))
                elif isinstance(t, (ast.Subscript, ast.Attribute)):
                    mutate(ev(t.value, st), s, f"store into {src(t, 40)}")
                return out
            if isinstance(s, ast.Delete):
                for t in s.targets:
                    if isinstance(t, (ast.Subscript, ast.Attribute)) and can_store(t, st):
                        mutate(ev(t.value, st), s, f"del {src(t, 40)}")
                    elif isinstance(t, ast.Name):
                        out = dict(out)
                        out[t.id] = EMPTY
                return out
            if isinstance(s, ast.Return):
                if s.value is not None:
                    effects_of_expr(s.value, st)
                    if isinstance(s.value, ast.Tuple):
                        re_ = me.ret_elems.setdefault(fref, {})
                        for i, el in enumerate(s.value.elts):
                            for o, l in ev(el, st):
                                if not o.startswith("g:"):
                                    cur = re_.setdefault(i, {}).setdefault(o, set())
                                    if l not in cur:
                                        cur.add(l)
                                        changed[0] = True
                    v = ev(s.value, st)
                    for o, l in v:
                        if not o.startswith("g:"):
                            cur = ret.setdefault(o, set())
                            if l not in cur:
                                cur.add(l)
                                changed[0] = True
                return st
            if isinstance(s, ast.Expr):
                effects_of_expr(s.value, st)
                if isinstance(s.value, (ast.Yield, ast.YieldFrom)) and s.value.value is not None:
                    pass
                return st
            if isinstance(s, (ast.Raise, ast.Assert)):
                for ch in ast.iter_child_nodes(s):
                    if isinstance(ch, ast.expr):
                        effects_of_expr(ch, st)
                return st
            if isinstance(s, FuncNode) or isinstance(s, ast.ClassDef):
                return st
            return st

        # nested functions see the enclosing function's locals as free variables: analysed with their
        # own parameters only (closure captures are treated as unrelated) - stated in `assumptions`
        init = self._origins_of(fn)
        leaf_immutable |= self._leaf_immutable
        flagvars = _flag_vars(fn)

        def keyfn(st):
            k = []
            for v in flagvars:
                t = st.get(("?", v), TYPE_U)
                k.append("N" if t == {"None"} else ("V" if "None" not in t else "?"))
            return tuple(k)

        _pforward(g, init, transfer, edge_refine, keyfn)
        return changed[0]

    def _class_mutable_attrs(self, cref: str) -> Dict[str, str]:
        out = {}
        for c in [cref] + self.cg._all_bases(cref):
            node = self.cg.classes.get(c)
            if node is None:
                continue
            for s in node.body:
                tg, v = None, None
                if isinstance(s, ast.Assign) and len(s.targets) == 1:
                    tg, v = s.targets[0], s.value
                elif isinstance(s, ast.AnnAssign):
                    tg, v = s.target, s.value
                if isinstance(tg, ast.Name) and isinstance(v, (ast.List, ast.Dict, ast.Set)):
                    out.setdefault(tg.id, f"class-level mutable attribute {c.split(':')[1]}.{tg.id}")
        return out

    # ----------------------------------------------------------------- queries
    def chain(self, fref: str, origin: str, limit: int = 12) -> List[str]:
        """Human-readable chain from fref down to the primitive store."""
        out = []
        seen = set()
        cur = (fref, origin)
        while cur in self.witness and cur not in seen and len(out) < limit:
            seen.add(cur)
            w = self.witness[cur]
            fn = self.cg.funcs[w.fref]
            out.append(f"{w.fref} [{w.level} of `{w.origin}`] {loc(w.node, fn)}: {w.what}")
            if w.via is None:
                break
            cur = w.via
        return out

    def primitive(self, fref: str, origin: str) -> Optional[Mutation]:
        seen = set()
        cur = (fref, origin)
        w = None
        while cur in self.witness and cur not in seen:
            seen.add(cur)
            w = self.witness[cur]
            if w.via is None:
                return w
            cur = w.via
        return w


SCALAR_ANN = {"str", "int", "bool", "float", "Optional[str]", "Optional[bool]", "Optional[int]", "Union[str, os.PathLike]", "Union[bool, str]", "bytes"}
SCALAR_CONTAINER_ANN = {"Dict[str, str]", "Optional[Dict[str, str]]", "Union[Dict[str, str], os._Environ]", "Optional[Union[Dict[str, str], os._Environ]]", "Sequence[str]", "Optional[Sequence[str]]", "List[str]", "Optional[List[str]]"}


def _immutable_annotation(ann: Optional[ast.AST]) -> Optional[str]:
    if ann is None:
        return None
    txt = ast.unparse(ann).replace("typing.", "")
    if txt in SCALAR_ANN:
        return "scalar"
    if txt in SCALAR_CONTAINER_ANN:
        return "container-of-scalars"
    return None


def _flag_vars(fn: ast.AST, cap: int = 3) -> List[str]:
    """Locals assigned the constant None somewhere and tested for None-ness / truthiness: the
    dataflow keeps one abstract state per combination of their None-ness (trace partitioning),
    because the repository often guards a store by `x is not None` where x was set together
    with a fresh value."""
    assigned = []
    for s in walk_local(fn):
        if isinstance(s, (ast.Assign, ast.AnnAssign)) and isinstance(getattr(s, "value", None), ast.Constant) and s.value.value is None:
            tgs = s.targets if isinstance(s, ast.Assign) else [s.target]
            for t in tgs:
                if isinstance(t, ast.Name) and t.id not in assigned:
                    assigned.append(t.id)
    # parameters defaulting to None count as well
    a = fn.args
    pos = a.posonlyargs + a.args
    for p, d in zip(pos[len(pos) - len(a.defaults):], a.defaults):
        if isinstance(d, ast.Constant) and d.value is None and p.arg not in assigned:
            assigned.append(p.arg)
    tested = set()
    for n in walk_local(fn):
        test = getattr(n, "test", None) if isinstance(n, (ast.If, ast.While, ast.IfExp)) else None
        if test is None:
            continue
        for sub in ast.walk(test):
            if isinstance(sub, ast.Compare) and isinstance(sub.left, ast.Name) and len(sub.comparators) == 1 and isinstance(sub.comparators[0], ast.Constant) and sub.comparators[0].value is None:
                tested.add(sub.left.id)
    return [v for v in assigned if v in tested][:cap]


def _pforward(g, init, transfer, edge_refine, keyfn, max_iter: int = 60000):
    """Forward dataflow with trace partitioning: per node a dict  partition key -> state."""
    from .dataflow import join

    ins = {g.entry: {keyfn(init): dict(init)}}
    work = [g.entry]
    it = 0
    while work:
        it += 1
        if it > max_iter:  # pragma: no cover
            raise RuntimeError("partitioned dataflow did not converge")
        nid = work.pop()
        node = g.nodes[nid]
        parts = ins[nid]
        for key, sub in list(parts.items()):
            out = transfer(node, sub)
            for t, lab in node.succ:
                st = sub if lab == "e" else out
                if lab in ("t", "f"):
                    st = edge_refine(node, st, lab)
                    if st is None:
                        continue
                k2 = keyfn(st)
                tgt = ins.setdefault(t, {})
                old = tgt.get(k2)
                new = dict(st) if old is None else join(old, st)
                if old is None or new != old:
                    tgt[k2] = new
                    if t not in work:
                        work.append(t)
    return ins


def _calls_in_order(e: ast.AST) -> List[ast.Call]:
    out = []
    stack = [e]
    while stack:
        n = stack.pop()
        if isinstance(n, ast.Lambda):
            continue
        if isinstance(n, ast.Call):
            out.append(n)
        stack.extend(ast.iter_child_nodes(n))
    # innermost calls are evaluated first; order is irrelevant for may-mutate summaries
    return out


# --------------------------------------------------------------------------
# rule helpers
# --------------------------------------------------------------------------

_SHARED: Dict[int, Effects] = {}

PUBLIC_ROOTS = [
    "_core:ArgumentParser.parse_args",
    "_core:ArgumentParser.parse_object",
    "_core:ArgumentParser.parse_env",
    "_core:ArgumentParser.parse_string",
    "_core:ArgumentParser.parse_path",
    "_core:ArgumentParser.validate",
    "_core:ArgumentParser.dump",
    "_core:ArgumentParser.save",
    "_core:ArgumentParser.merge_config",
    "_core:ArgumentParser.strip_unknown",
    "_core:ArgumentParser.instantiate_classes",
    "_core:ArgumentParser.get_defaults",
    "_core:ArgumentParser.get_default",
    "_core:ArgumentParser.format_help",
    "_typehints:adapt_typehints",
    "_namespace:dict_to_namespace",
    "_jsonnet:ActionJsonnet.parse",
    "_jsonnet:ActionJsonnet.split_ext_vars",
    "_namespace:namespace_to_dict",
    "_completions:ShtabAction.__call__",
    "_actions:_ActionHelpClassPath.__call__",
    "_actions:_ActionPrintConfig.__call__",
    "_actions:ActionConfigFile.__call__",
    "_actions:_ActionConfigLoad.__call__",
    "_actions:_ActionSubCommands.__call__",
    "_actions:ActionYesNo.__call__",
    "_typehints:ActionTypeHint.__call__",
    "_jsonschema:ActionJsonSchema.__call__",
    "_jsonnet:ActionJsonnet.__call__",
    "_link_arguments:ActionLink.__call__",
]


def get_effects(ctx) -> Effects:
    key = id(ctx.repo)
    if key not in _SHARED:
        eff = Effects(ctx.repo, cfg_of=ctx.cfg)
        roots = [r for r in PUBLIC_ROOTS if r in eff.cg.funcs]
        eff.analyse(roots)
        _SHARED[key] = eff
    return _SHARED[key]


def check_param_not_mutated(ctx, rule: str, fref: str, param: str, why_ok: str, why_bad: str, levels=(TOP, INTERIOR), ut_rule: Optional[str] = None) -> None:
    eff = get_effects(ctx)
    if fref not in eff.cg.funcs:
        from .srcmodel import AnalysisError

        raise AnalysisError(f"anchor vanished: {fref}")
    fn = eff.cg.funcs[fref]
    if param not in func_params(fn):
        from .srcmodel import AnalysisError

        raise AnalysisError(f"anchor vanished: parameter {param} of {fref}")
    lvl = eff.mut.get(fref, {}).get(param)
    bad = lvl in levels
    prim = eff.primitive(fref, param) if lvl else None
    chain = eff.chain(fref, param) if lvl else []
    construct = f"{param} mutated via {prim.fref}::{_norm_what(prim)}" if (bad and prim) else f"{param} not mutated"
    ctx.oblige(
        rule,
        not bad,
        None,
        why_ok if not bad else f"{why_bad}; chain: " + " -> ".join(chain[:6]),
        site=f"{fref}({param})",
        construct=construct,
        function=fref,
        details={"level": lvl, "chain": chain},
    )
    if ut_rule is not None:
        badu = lvl == UT
        construct = f"{param} under-tuple mutation via {prim.fref}::{_norm_what(prim)}" if (badu and prim) else f"{param} not mutated below tuples"
        ctx.oblige(
            ut_rule,
            not badu,
            None,
            f"no write reaches objects below a tuple/set inside `{param}`" if not badu else f"`{param}` is only copied down to tuples/sets and an object read out of the copy is written in place; chain: " + " -> ".join(chain[:6]),
            site=f"{fref}({param}) below tuples",
            construct=construct,
            function=fref,
            details={"level": lvl, "chain": chain},
        )


def _norm_what(m: Mutation) -> str:
    from .srcmodel import construct_key

    try:
        return construct_key(m.node, None)
    except Exception:  # pragma: no cover
        return m.what
