"""C03 - every parse failure surfaces as ArgumentError or exit status 2.

Decided clauses (the library's own error discipline):
  C03.R1  every parse entry converts (TypeError, KeyError) through self.error
  C03.R2  argparse's ArgumentError is converted in parse_known_args
  C03.R3  ArgumentParser.error never falls through; exit status 2 after usage on
          stderr; the non-error exits (--print_config, class help) use exit() = 0
  C03.R4  the _check_type siblings agree: each wraps its work and converts what
          its body can raise into TypeError
  C03.R5  loader failures are anticipated: every loader mode has its exceptions,
          every load call site is inside a handler for them (directly or through
          all callers of its function)
Not decided: absence of implicit exceptions (AttributeError / RecursionError on
unanticipated values) - out of reach of a sound static argument without types.
"""

from __future__ import annotations

import ast
from typing import Dict, List, Optional, Set, Tuple

from .report import Ctx
from .srcmodel import AnalysisError, FuncNode, call_leaf, call_name, calls_in, const_str, contains, dotted, enclosing_function, get_kwarg, loc, qualname, src, walk_local
from .util import body_raises as _body_raises, branch_when as _branch_when, strip_not as _strip
from .util import enclosing_trys, enclosing_withs, exc_expr_names, guard_chain, handler_type_names, root_name

PARSE_ENTRIES = ["parse_args", "parse_object", "parse_env", "parse_string", "parse_path"]
# argument-checking prelude / reporting: not part of the conversion obligation
PRELUDE = {
    "get_private_kwargs",  # pops private keyword arguments given by the library itself
    "return_parser_if_captured",  # raises CaptureParserException by design (capture_parser API)
    "handle_completions",  # shell completion entry, exits the process
    "error",
    "debug",
    "get_config_read_mode",  # returns a module constant
}
LOAD_LEAVES = {"load_value", "yaml_load", "json_or_yaml_load", "parse_value_or_config"}
LOADER_EXC_NAMES = {"get_loader_exceptions()", "json_or_yaml_loader_exceptions", "Exception", "BaseException"}


def _handlers_cover(t: ast.Try, need: Set[str]) -> bool:
    have: Set[str] = set()
    for h in t.handlers:
        have |= set(handler_type_names(h))
    if "Exception" in have or "BaseException" in have:
        return True
    return need <= have


def _handler_calls_error(h: ast.ExceptHandler) -> bool:
    for s in h.body:
        if isinstance(s, ast.Expr) and isinstance(s.value, ast.Call) and call_leaf(s.value) == "error" and root_name(s.value.func) in ("self", "parser"):
            return True
    return False


# functions the leak search does not enter, with the reason
R6_STOP: Dict[str, str] = {
    "_core:ArgumentParser.dump": "--print_config dumps the configuration that was just parsed and validated: serialisation (serialize=True below it), not parsing",
    "_typehints:ActionTypeHint.normalize_default": "normalises the default DECLARED for an argument (signature defaults, set_defaults; inside per-class parsers: values that were validated before) - program data, not the input being parsed",
}
# reviewed call sites (function, callee) that the call graph reaches but values rule out
R6_REVIEWED = {
    ("_typehints:ActionTypeHint.get_class_parser", "import_object"): "only given a class_path string by discard_init_args_on_class_path_change, whose value comes out of a configuration that already passed adapt_class_type (the path was imported then)",
}


def _yaml_constructor_foreign_raises() -> List[Tuple[str, str]]:
    """(constructor method, callee) pairs of the installed PyYAML SafeConstructor: calls of int()/float()/datetime
    constructors on document text that are not inside a handler for ValueError.  With an explicit tag
    (`!!int abc`, `!!timestamp 2001-99-99`) the implicit resolver's regular expression does not protect them:
    the ValueError leaves yaml.load as it is, outside the YAMLError hierarchy."""
    import os

    from .yamlmodel import yaml_dir

    with open(os.path.join(yaml_dir(), "constructor.py")) as f:
        tree = ast.parse(f.read())
    cls = [n for n in tree.body if isinstance(n, ast.ClassDef) and n.name == "SafeConstructor"]
    if not cls:
        raise AnalysisError("PyYAML SafeConstructor not found in the installed source")
    registered = set()
    for n in tree.body:
        if isinstance(n, ast.Expr) and isinstance(n.value, ast.Call) and dotted(n.value.func) == "SafeConstructor.add_constructor" and len(n.value.args) == 2:
            d = dotted(n.value.args[1])
            if d and d.startswith("SafeConstructor."):
                registered.add(d.split(".")[1])
    if len(registered) < 8:
        raise AnalysisError("PyYAML SafeConstructor registrations not found (expected >= 8 add_constructor calls)")
    raisers = {"int", "float", "complex", "datetime.date", "datetime.datetime", "datetime.timedelta", "datetime.timezone", "datetime.time"}
    out = []
    for m in cls[0].body:
        if not isinstance(m, ast.FunctionDef) or m.name not in registered:
            continue
        for c in [x for x in ast.walk(m) if isinstance(x, ast.Call)]:
            d = dotted(c.func)
            if d not in raisers or not c.args or all(isinstance(a, ast.Constant) for a in c.args):
                continue
            protected = False
            p = getattr(c, "_jv_parent", None)
            # constructor.py is parsed without parent links: search enclosing try statements by containment
            for t in [x for x in ast.walk(m) if isinstance(x, ast.Try)]:
                if any(c is y for b in t.body for y in ast.walk(b)):
                    for h in t.handlers:
                        names = exc_expr_names(h.type) if h.type is not None else ["BaseException"]
                        if any(nm.split(".")[-1] in ("ValueError", "Exception", "BaseException") for nm in names):
                            protected = True
            if not protected:
                out.append((m.name, d))
        # `match = <regexp>.match(text)` used as `match.groupdict()` / `match.group(..)` without a None test:
        # AttributeError for text the (explicit) tag does not fit
        for s in [x for x in ast.walk(m) if isinstance(x, ast.Assign) and isinstance(x.value, ast.Call) and isinstance(x.value.func, ast.Attribute) and x.value.func.attr in ("match", "fullmatch", "search") and isinstance(x.targets[0], ast.Name)]:
            mv = s.targets[0].id
            tested = any(isinstance(t, (ast.If, ast.IfExp, ast.While)) and any(isinstance(n, ast.Name) and n.id == mv for n in ast.walk(t.test)) for t in ast.walk(m))
            used = any(isinstance(a, ast.Attribute) and isinstance(a.value, ast.Name) and a.value.id == mv for a in ast.walk(m))
            if used and not tested:
                out.append((m.name, f"{mv}.<attr> on a failed {s.value.func.attr}() [AttributeError]"))
    return sorted(set(out))


def _yaml_exception_classes() -> Dict[str, List[str]]:
    """class name -> base names, for every class of the installed PyYAML that derives from YAMLError (read from source)."""
    import os

    from .yamlmodel import yaml_dir

    classes: Dict[str, List[str]] = {}
    d = yaml_dir()
    for fn in sorted(os.listdir(d)):
        if fn.endswith(".py"):
            with open(os.path.join(d, fn)) as f:
                try:
                    tree = ast.parse(f.read())
                except SyntaxError:
                    continue
            for n in tree.body:
                if isinstance(n, ast.ClassDef):
                    classes[n.name] = [dotted(b).split(".")[-1] for b in n.bases if dotted(b)]
    out = {}
    for name in classes:
        seen, st = set(), [name]
        while st:
            x = st.pop()
            if x in seen:
                continue
            seen.add(x)
            st += classes.get(x, [])
        if "YAMLError" in seen:
            out[name] = classes[name]
    if "YAMLError" not in out or "ReaderError" not in out:
        raise AnalysisError("PyYAML exception hierarchy (YAMLError, ReaderError) not found in the installed source")
    return out


def _subclasses_of(name: str, classes: Dict[str, List[str]]) -> Set[str]:
    out = {name}
    changed = True
    while changed:
        changed = False
        for k, bases in classes.items():
            if k not in out and any(b in out for b in bases):
                out.add(k)
                changed = True
    return out


def run(ctx: Ctx) -> int:
    repo = ctx.repo
    pkg_callables: Set[str] = set()
    for m in repo.modules.values():
        for q in m.funcs:
            pkg_callables.add(q.split(".")[-1])
        for q in m.classes:
            pkg_callables.add(q.split(".")[-1])

    # ---------------- R1 ------------------------------------------------------
    n_r1 = 0
    for name in PARSE_ENTRIES:
        fn = ctx.func(f"_core:ArgumentParser.{name}")
        unconverted: List[ast.Call] = []
        n_calls = 0
        for c in calls_in(fn):
            leaf = call_leaf(c)
            if leaf is None or leaf in PRELUDE or leaf not in pkg_callables:
                continue
            if leaf in PARSE_ENTRIES and root_name(c.func) == "self":
                continue  # another parse entry: converts by itself
            # external receivers sharing a method name with the package (logger.debug, list.get ...)
            if isinstance(c.func, ast.Attribute) and root_name(c.func) not in ("self", "fpath") and leaf in ("get", "pop", "update", "items", "keys", "values", "join", "basename"):
                continue
            if dotted(c.func) and dotted(c.func).startswith(("os.", "sys.", "self._logger.")):
                continue
            n_calls += 1
            good = False
            for t, part in enclosing_trys(c):
                if part in ("body", "orelse") and _handlers_cover(t, {"TypeError", "KeyError"}) and all(_handler_calls_error(h) or "Exception" not in handler_type_names(h) and _handler_calls_error(h) for h in t.handlers):
                    good = True
                    break
            if not good:
                unconverted.append(c)
        ctx.analysed["call_sites"] += n_calls
        n_r1 += 1
        leaves = sorted({call_leaf(c) for c in unconverted})
        ctx.oblige(
            "C03.R1",
            not unconverted,
            fn,
            f"all {n_calls} calls into the package are inside try/except (TypeError, KeyError) -> self.error" if not unconverted else "calls into the package outside any conversion to ArgumentError: " + ", ".join(src(c, 60) for c in unconverted),
            fn=fn,
            construct=("unconverted: " + ",".join(leaves)) if unconverted else "all converted",
            details={"unconverted": [src(c) for c in unconverted]},
        )
        # the value returned is the one produced inside the try
        rets = [r for r in walk_local(fn) if isinstance(r, ast.Return)]
        ctx.need(rets, f"{name}: return statement")
    ctx.floor("C03.R1", n_r1, 5)

    # ---------------- R2 ------------------------------------------------------
    pka = ctx.func("_core:ArgumentParser.parse_known_args")
    inner = [c for c in calls_in(pka) if call_leaf(c) == "_parse_known_args"]
    ctx.need(inner, "parse_known_args: _parse_known_args call")
    good = False
    for t, part in enclosing_trys(inner[0]):
        if part == "body":
            for h in t.handlers:
                names = handler_type_names(h)
                if any(n.endswith("ArgumentError") or n in ("Exception",) for n in names) and _handler_calls_error(h):
                    good = True
    ctx.oblige("C03.R2", good, inner[0], "argparse.ArgumentError raised while parsing argv is converted by self.error" if good else "argparse.ArgumentError from _parse_known_args is not converted through self.error", fn=pka)

    # ---------------- R3 ------------------------------------------------------
    err = ctx.func("_core:ArgumentParser.error")
    g = ctx.cfg(err)
    ok = g.exit not in g.reachable([g.entry])
    ctx.oblige("C03.R3", ok, err, "ArgumentParser.error has no normal exit" if ok else "ArgumentParser.error can return normally: callers continue after a reported error", fn=err, construct="error() never returns")
    raises = [r for r in walk_local(err) if isinstance(r, ast.Raise)]
    ok = bool(raises) and all(isinstance(r.exc, ast.Call) and call_leaf(r.exc) == "argument_error" for r in raises)
    ctx.oblige("C03.R3", ok, raises[0] if raises else err, "error() raises only argument_error(...) (ArgumentError)" if ok else "error() raises something other than ArgumentError", fn=err, construct="error() raise type")
    ae = ctx.func("_util:argument_error")
    rs = [r for r in walk_local(ae) if isinstance(r, ast.Return)]
    ok = len(rs) == 1 and isinstance(rs[0].value, ast.Call) and call_leaf(rs[0].value) == "ArgumentError"
    ctx.oblige("C03.R3", ok, ae, "argument_error builds an argparse.ArgumentError" if ok else "argument_error no longer returns an ArgumentError", fn=ae, construct="argument_error type")
    exits = [c for c in calls_in(err) if call_leaf(c) == "exit" and root_name(c.func) == "self"]
    ok = bool(exits) and all(len(c.args) == 1 and isinstance(c.args[0], ast.Constant) and c.args[0].value == 2 for c in exits)
    ctx.oblige("C03.R3", ok, exits[0] if exits else err, "the process exit status on a parse error is 2" if ok else "error() exits with a status other than 2", fn=err, construct="exit status 2")
    pu = [c for c in calls_in(err) if call_leaf(c) == "print_usage" and c.args and dotted(c.args[0]) == "sys.stderr"]
    wr = [c for c in calls_in(err) if call_name(c) == "sys.stderr.write"]
    ok = bool(pu) and bool(wr) and bool(exits) and g.dominates(g.cn(pu), g.cn(exits)) and g.dominates(g.cn(wr), g.cn(exits))
    ctx.oblige("C03.R3", ok, pu[0] if pu else err, "usage and the error line are written to stderr before exiting" if ok else "exit(2) is reachable without usage + error line on stderr", fn=err, construct="usage+error on stderr")
    # the raise branch is taken exactly when exit_on_error is off (or debug mode)
    for r in raises:
        gch = guard_chain(r)
        txt = " ".join(ast.unparse(t) for t, _ in gch)
        ok = "exit_on_error" in txt or "debug_mode_active" in txt
        ctx.oblige("C03.R3", ok, r, "raising instead of exiting depends only on exit_on_error / debug mode" if ok else "the raise branch of error() is guarded by something else", fn=err)
    for ref, what in (("_actions:_ActionPrintConfig.print_config_if_requested", "--print_config"), ("_actions:_ActionHelpClassPath.print_help", "class help")):
        fn = ctx.func(ref)
        ctx.expect_locals(fn, ["parser"])
        ex = [c for c in calls_in(fn) if call_leaf(c) == "exit" and root_name(c.func) == "parser"]
        ok = bool(ex) and all(not c.args and not c.keywords for c in ex)
        ctx.oblige("C03.R3", ok, ex[0] if ex else fn, f"{what} exits with status 0 (parser.exit() without status)" if ok else f"{what} no longer exits with status 0", fn=fn)

    # the state that decides the channel (self.<attr> read by the tests of error()) is inherited by every
    # subcommand parser from the parser the user configured: a failure found by the subcommand's parser is
    # reported by *its* error()
    chan = sorted({n.attr for t in walk_local(err) if isinstance(t, ast.If) for n in ast.walk(t.test) if isinstance(n, ast.Attribute) and isinstance(n.value, ast.Name) and n.value.id == "self"})
    ctx.need("exit_on_error" in chan, "error(): a test on self.exit_on_error")
    asub = ctx.func("_actions:_ActionSubCommands.add_subcommand")
    sub_param = asub.args.args[2].arg if len(asub.args.args) > 2 else None
    ctx.need(sub_param, "add_subcommand(self, name, parser, ...)")
    for attr in chan:
        cp = [
            s
            for s in asub.body
            if isinstance(s, ast.Assign) and len(s.targets) == 1 and isinstance(s.targets[0], ast.Attribute) and s.targets[0].attr == attr and root_name(s.targets[0]) == sub_param and dotted(s.value) in (f"self.parent_parser.{attr}",)
        ]
        ok = bool(cp)
        ctx.oblige(
            "C03.R3",
            ok,
            cp[0] if cp else asub,
            f"a subcommand parser inherits `{attr}` from its parent unconditionally: its own failures take the channel the user configured" if ok else f"add_subcommand does not copy `{attr}` from the parent parser: a failure detected by the subcommand's parser takes that parser's own channel (exit instead of ArgumentError or the reverse)",
            fn=asub,
            construct=f"subcommand inherits {attr}",
        )

    # ---------------- R4 ------------------------------------------------------
    siblings = {
        "_typehints:ActionTypeHint._check_type": None,
        "_jsonschema:ActionJsonSchema._check_type": None,
        "_jsonnet:ActionJsonnet._check_type": None,
        "_deprecated:ActionPathList._check_type": None,
        "_actions:_ActionConfigLoad._load_config": None,
    }
    n_r4 = 0
    for ref in siblings:
        fn = ctx.func(ref)
        # the outermost try whose body does the work
        tries = [t for t in walk_local(fn) if isinstance(t, ast.Try) and t.handlers]
        ctx.need(tries, f"{ref}: try/except")
        work_calls = [c for c in calls_in(fn) if call_leaf(c) in ("adapt_typehints", "parse_value_or_config", "validate", "parse", "_apply_actions", "_type", "load_value", "open")]
        ctx.need(work_calls, f"{ref}: working calls")
        for c in work_calls:
            n_r4 += 1
            leaf = call_leaf(c)
            need = {"TypeError"}
            if leaf in ("adapt_typehints",):
                need |= {"ValueError"}
            if leaf in ("parse_value_or_config", "load_value", "parse"):
                need |= {"get_loader_exceptions()"}
            if leaf == "validate" or (leaf == "parse" and ref.startswith("_jsonnet")):
                need |= {"get_jsonschema_exceptions()"}
            if leaf == "parse" and ref.startswith("_jsonnet"):
                need |= {"RuntimeError"}
            if leaf == "open":
                need = {"FileNotFoundError"}
            have: Set[str] = set()
            conv = True
            for t, part in enclosing_trys(c):
                if part != "body":
                    continue
                for h in t.handlers:
                    names = set(handler_type_names(h))
                    # a handler counts if every path through it raises TypeError or re-stores a valid string
                    # a handler absorbs its exception types if it swallows them or converts them to TypeError;
                    # re-raising (`raise ex`, `raise type(ex)(...)`) hands the same type to the next enclosing try
                    rz = [r for r in walk_local(h) if isinstance(r, ast.Raise)]
                    if all(isinstance(r.exc, ast.Call) and call_leaf(r.exc) == "TypeError" for r in rz):
                        have |= names
            if "FileNotFoundError" in need and ("OSError" in have or "IOError" in have):
                have.add("FileNotFoundError")
            missing = need - have
            if "Exception" in have:
                missing = set()
            ctx.oblige(
                "C03.R4",
                not missing,
                c,
                f"{leaf}(...) is wrapped: {sorted(need)} are converted to TypeError naming the key" if not missing else f"{leaf}(...) can raise {sorted(missing)} which this _check_type does not convert (its siblings do)",
                fn=fn,
                details={"need": sorted(need), "have": sorted(have)},
            )
    ctx.floor("C03.R4", n_r4, 8)
    # the per-class / per-dataclass parsers are built with exit_on_error=False: their ArgumentError must be converted
    # by every arm that calls them (the parse entries convert only TypeError/KeyError; _check_type only TypeError/ValueError)
    def _covers_argerr(c: ast.Call) -> bool:
        for t, part in enclosing_trys(c):
            if part == "body":
                names = set()
                for h in t.handlers:
                    names |= set(handler_type_names(h))
                if names & {"ArgumentError", "argparse.ArgumentError", "Exception", "BaseException"}:
                    return True
        return False

    n_inner = 0
    adt = ctx.func("_typehints:adapt_typehints")
    for c in calls_in(adt):
        if call_leaf(c) in ("parse_object", "parse_args") and root_name(c.func) == "parser":
            n_inner += 1
            ok = _covers_argerr(c)
            ctx.oblige("C03.R4", ok, c, "the inner parser's ArgumentError is converted by this arm" if ok else f"{src(c, 60)} runs a parser built with exit_on_error=False outside any handler for ArgumentError: its ArgumentError propagates through _check_type (TypeError/ValueError only) and the parse entries (TypeError/KeyError only), so with exit_on_error=True the caller gets an exception instead of exit status 2", fn=adt)
    for c in calls_in(adt):
        if call_leaf(c) == "adapt_class_type":
            if len(c.args) > 1 and isinstance(c.args[1], ast.Constant) and c.args[1].value is True:
                continue  # serialising call: runs parser.dump, which reports through TypeError, never through error()
            n_inner += 1
            ok = _covers_argerr(c)
            ctx.oblige("C03.R4", ok, c, "adapt_class_type (runs the per-class parser) is called inside a handler for ArgumentError" if ok else "adapt_class_type is called outside any handler for ArgumentError", fn=adt)
    ctx.floor("C03.R4-inner-parser-calls", n_inner, 4)

    # _check_value_key: the plain `type=` arm converts (TypeError, ValueError)
    cvk = ctx.func("_core:ArgumentParser._check_value_key")
    tcalls = [c for c in calls_in(cvk) if ast.unparse(c.func) == "action.type"]
    ctx.need(len(tcalls) >= 2, "_check_value_key: action.type(...) calls")
    for c in tcalls:
        good = False
        for t, part in enclosing_trys(c):
            if part == "body" and _handlers_cover(t, {"TypeError", "ValueError"}) and all(any(isinstance(r.exc, ast.Call) and call_leaf(r.exc) == "TypeError" for r in walk_local(h) if isinstance(r, ast.Raise)) for h in t.handlers):
                good = True
        ctx.oblige("C03.R4", good, c, "a failing `type=` callable (TypeError/ValueError) is converted to TypeError naming the key" if good else "`type=` callable failures are not converted", fn=cvk)
    # ActionYesNo: _boolean_type raises only TypeError
    bt = ctx.func("_actions:ActionYesNo._boolean_type")
    rz = [r for r in walk_local(bt) if isinstance(r, ast.Raise)]
    ok = bool(rz) and all(isinstance(r.exc, ast.Call) and call_leaf(r.exc) == "TypeError" for r in rz)
    ctx.oblige("C03.R4", ok, bt, "ActionYesNo's checker raises TypeError only" if ok else "ActionYesNo._boolean_type raises something other than TypeError", fn=bt, construct="_boolean_type raises TypeError")
    # ActionLink._check_type delegates to the shared checker
    lk = ctx.func("_link_arguments:ActionLink._check_type")
    ok = any(call_leaf(c) == "_check_value_key" for c in calls_in(lk))
    ctx.oblige("C03.R4", ok, lk, "ActionLink._check_type delegates to _check_value_key of the target" if ok else "ActionLink._check_type no longer delegates to the shared checker", fn=lk, construct="link delegates")

    # ---------------- R5 ------------------------------------------------------
    ld = repo.mod("_loaders_dumpers")
    modes: Dict[str, str] = {}
    for n in ast.walk(ld.tree):
        if isinstance(n, (ast.Assign, ast.AnnAssign)):
            tg = n.targets[0] if isinstance(n, ast.Assign) else n.target
            if isinstance(tg, ast.Name) and tg.id == "loaders" and isinstance(n.value, ast.Dict):
                for k in n.value.keys:
                    if const_str(k):
                        modes[const_str(k)] = "literal"
    supplied: Set[str] = set()
    for fq, fn in list(repo.all_funcs()) + [("_loaders_dumpers:<module>", ld.tree)]:
        body = fn if not isinstance(fn, ast.Module) else fn
        for c in (calls_in(fn) if not isinstance(fn, ast.Module) else [x for x in ast.walk(fn) if isinstance(x, ast.Call) and enclosing_function(x) is None]):
            if call_leaf(c) == "set_loader" and c.args and const_str(c.args[0]):
                m = const_str(c.args[0])
                modes.setdefault(m, "set_loader")
                exc = c.args[2] if len(c.args) > 2 else get_kwarg(c, "exceptions")
                if exc is not None and not (isinstance(exc, ast.Call) and call_leaf(exc) == "tuple" and not exc.args):
                    supplied.add(m)
    gle = ctx.func("_loaders_dumpers:get_loader_exceptions")
    arms = {const_str(c.comparators[0]) for c in ast.walk(gle) if isinstance(c, ast.Compare) and root_name(c.left) == "mode" and len(c.comparators) == 1 and const_str(c.comparators[0])}
    ctx.floor("C03.R5-modes", len(modes), 5)
    for m in sorted(modes):
        ok = m in arms or m in supplied
        ctx.oblige("C03.R5", ok, gle, f"loader mode '{m}' has anticipated exceptions ({'arm in get_loader_exceptions' if m in arms else 'supplied to set_loader'})" if ok else f"loader mode '{m}' has no anticipated exceptions: its failures would escape as foreign exception types", fn=gle, construct=f"mode {m}")

    # the exceptions anticipated for the built-in modes cover the whole exception hierarchy of the loader library
    yaml_classes = _yaml_exception_classes()
    for c in ast.walk(gle):
        if isinstance(c, ast.If) and isinstance(c.test, ast.Compare) and root_name(c.test.left) == "mode" and const_str(c.test.comparators[0]) in ("yaml", "json"):
            m = const_str(c.test.comparators[0])
            named = {n.attr for b in c.body for n in ast.walk(b) if isinstance(n, ast.Attribute)} | {n.id for b in c.body for n in ast.walk(b) if isinstance(n, ast.Name)}
            if m == "yaml":
                covered = set()
                for nm in named:
                    if nm in yaml_classes:
                        covered |= _subclasses_of(nm, yaml_classes)
                raised_by_load = {k for k in yaml_classes if k in ("ReaderError", "ScannerError", "ParserError", "ComposerError", "ConstructorError", "MarkedYAMLError", "YAMLError")}
                missing = sorted(raised_by_load - covered)
                ctx.oblige("C03.R5", not missing, c, f"yaml mode anticipates the root of PyYAML's exception hierarchy ({sorted(named & set(yaml_classes))} covers {len(covered)} classes)" if not missing else f"yaml mode anticipates only {sorted(named & set(yaml_classes))}: yaml.load can also raise {missing}, which would escape every handler built on get_loader_exceptions()", fn=gle, construct="yaml exception root")
                # ... and what PyYAML's constructors raise outside that hierarchy is anticipated or converted
                foreign = _yaml_constructor_foreign_raises()
                yl = ctx.func("_loaders_dumpers:yaml_load")
                ylc = [x for x in calls_in(yl) if call_name(x) == "yaml.load"]
                ctx.need(ylc, "yaml_load: yaml.load(...)")
                converted = False
                for t, part in enclosing_trys(ylc[0]):
                    if part != "body":
                        continue
                    for h in t.handlers:
                        hn = handler_type_names(h)
                        if any(x.split(".")[-1] in ("ValueError", "Exception") for x in hn):
                            rz_ = [r for r in ast.walk(h) if isinstance(r, ast.Raise) and isinstance(r.exc, ast.Call)]
                            if rz_ and all(call_leaf(r.exc) in covered for r in rz_):
                                converted = True
                kinds = {"AttributeError" if "[AttributeError]" in d_ else "ValueError" for _, d_ in foreign}
                conv_kinds = set()
                for t, part in enclosing_trys(ylc[0]):
                    if part != "body":
                        continue
                    for h in t.handlers:
                        rz_ = [r for r in ast.walk(h) if isinstance(r, ast.Raise) and isinstance(r.exc, ast.Call)]
                        if rz_ and all(call_leaf(r.exc) in covered for r in rz_):
                            conv_kinds |= {x.split(".")[-1] for x in handler_type_names(h)}
                if "Exception" in conv_kinds:
                    conv_kinds |= kinds
                converted = converted and kinds <= (conv_kinds | named)
                ok = not foreign or converted or bool({"Exception"} & named) or kinds <= named
                ctx.oblige(
                    "C03.R5",
                    ok,
                    ylc[0],
                    f"{sorted(kinds)} raised by PyYAML's constructors for explicitly tagged scalars ({', '.join(f'{m_}:{d_}' for m_, d_ in foreign[:4])}) is {'converted to a YAMLError inside yaml_load' if converted else 'anticipated by the yaml mode'}" if ok else f"yaml.load can raise {sorted(kinds - conv_kinds - named)} outside the YAMLError hierarchy ({', '.join(f'{m_} calls {d_}()' for m_, d_ in foreign[:6])} on explicitly tagged text such as `!!int abc` / `!!timestamp abc`): neither anticipated by the yaml mode nor converted in yaml_load, it escapes the parse methods as a foreign exception",
                    fn=yl,
                    construct="yaml constructor ValueError",
                    details={"foreign": foreign},
                )
            else:
                ok = "JSONDecodeError" in named or "ValueError" in named
                ctx.oblige("C03.R5", ok, c, "json mode anticipates JSONDecodeError" if ok else f"json mode anticipates {sorted(named)}, not JSONDecodeError", fn=gle, construct="json exception root")

    # coverage of load call sites
    def covered(c: ast.Call) -> bool:
        for t, part in enclosing_trys(c):
            if part == "body":
                have = set()
                for h in t.handlers:
                    have |= set(handler_type_names(h))
                if have & LOADER_EXC_NAMES:
                    return True
        for w, item in enclosing_withs(c):
            ce = item.context_expr
            if isinstance(ce, ast.Call) and call_leaf(ce) == "suppress":
                names = set()
                for a in ce.args:
                    names |= set(exc_expr_names(a))
                if names & LOADER_EXC_NAMES:
                    return True
        return False

    callers_by_leaf: Dict[str, List[Tuple[str, ast.AST, ast.Call]]] = {}
    for fq, fn in repo.all_funcs():
        for c in calls_in(fn):
            l = call_leaf(c)
            if l:
                callers_by_leaf.setdefault(l, []).append((fq, fn, c))

    def fn_covered(fn: ast.AST, depth: int, seen: Set[int]) -> Tuple[bool, str]:
        """All call sites of function fn are inside loader-exception handlers (<= 2 levels up)."""
        name = fn.name
        sites = []
        for fq, f, c in callers_by_leaf.get(name, []):
            if f is fn:
                continue
            rn = root_name(c.func) if isinstance(c.func, ast.Attribute) else None
            mod = getattr(f, "_jv_module", None)
            if rn is not None and mod is not None and rn in mod.imports and not mod.imports[rn][0].startswith("."):
                continue  # receiver is an external module (e.g. docstring_parser.parse)
            if rn is not None and any(isinstance(i, (ast.Import, ast.ImportFrom)) and any((a.asname or a.name.split(".")[0]) == rn for a in i.names) for i in walk_local(f)):
                continue  # receiver imported locally
            if rn is not None and any(
                isinstance(a, ast.Assign) and isinstance(a.value, ast.Call) and (call_leaf(a.value) or "").startswith(("import_", "__import__"))
                and any(isinstance(t, ast.Name) and t.id == rn for t in a.targets)
                for a in walk_local(f)
            ):
                continue  # receiver is a module object obtained from an import helper (dp = import_docstring_parser(...))
            sites.append((fq, f, c))
        if not sites:
            return False, f"{name} has no in-package caller that wraps it"
        for fq, f, c in sites:
            if covered(c):
                continue
            if depth <= 0 or id(f) in seen:
                return False, f"caller {fq} does not wrap {name}(...)"
            ok, why = fn_covered(f, depth - 1, seen | {id(f)})
            if not ok:
                return False, f"{fq} -> {why}"
        return True, f"every caller of {name} wraps it"

    OUT_OF_SCOPE_FUNCS = {
        "_loaders_dumpers:load_value": "the loader dispatcher itself",
        "_loaders_dumpers:jsonnet_load": "loader implementation (converts to ValueError itself)",
        "_loaders_dumpers:json_or_yaml_load": "loader implementation",
        "_optionals:get_omegaconf_loader.omegaconf_load": "loader implementation",
        "_jsonschema:ActionJsonSchema.__init__": "parser construction time, not a parse method",
        "_jsonnet:ActionJsonnet.__init__": "parser construction time, not a parse method",
    }
    n_r5 = 0
    for fq, fn in repo.all_funcs():
        if fq in OUT_OF_SCOPE_FUNCS:
            continue
        for c in calls_in(fn):
            leaf = call_leaf(c)
            is_load = leaf in LOAD_LEAVES or (isinstance(c.func, ast.Subscript) and root_name(c.func) == "loaders")
            if not is_load:
                continue
            if c.args and any(call_leaf(x) == "dump" for x in calls_in(c.args[0]) + ([c.args[0]] if isinstance(c.args[0], ast.Call) else [])):
                ctx.notes.append(f"{fq}: {src(c, 70)} re-reads the library's own dump output; belongs to dump, out of scope of C03.R5")
                continue
            n_r5 += 1
            if covered(c):
                ctx.oblige("C03.R5", True, c, "load call is inside a handler / suppress for the loader exceptions", fn=fn)
                continue
            ok, why = fn_covered(fn, 2, {id(fn)})
            ctx.oblige("C03.R5", ok, c, why if ok else f"a loader failure here is not anticipated: {why}", fn=fn)
    ctx.floor("C03.R5-sites", n_r5, 10)

    # ---------------- R7: text from the user is data, never a %-format string ---------------------------------------
    # `f"...{message}..." % args` / `("..." + message) % args` interpret whatever `message` contains: a failure message
    # with a `%` in it (--rate=50%) raises TypeError / ValueError inside the error reporting itself
    n_fmt = 0
    for fq, fn in list(repo.all_funcs()):
        for n_ in walk_local(fn):
            if isinstance(n_, ast.BinOp) and isinstance(n_.op, ast.Mod) and isinstance(n_.left, (ast.JoinedStr, ast.BinOp, ast.Constant)):
                if isinstance(n_.left, ast.Constant) and not isinstance(n_.left.value, str):
                    continue
                n_fmt += 1
                dyn = [x for x in ast.walk(n_.left) if isinstance(x, ast.FormattedValue)] if isinstance(n_.left, ast.JoinedStr) else ([x for x in ast.walk(n_.left) if isinstance(x, (ast.Name, ast.Attribute, ast.Call))] if isinstance(n_.left, ast.BinOp) and isinstance(n_.left.op, ast.Add) else [])
                ok = not dyn
                ctx.oblige("C03.R7", ok, n_, "the %-format template is a literal" if ok else f"`{src(n_, 70)}` builds its %-format template from run-time text ({ast.unparse(dyn[0])[:30]}): a `%` in that text (a value like 50%) makes the formatting itself raise TypeError / ValueError - the error report turns into a foreign exception", fn=fn)
    ctx.floor("C03.R7-percent-formats", n_fmt, 1)

    # ---------------- R8: evaluators of annotation / source text run under a catch-all --------------------------------
    # get_type_hints / exec evaluate text written by whoever wrote the class or function an import path names: the
    # failure can be of ANY type (NameError, SyntaxError for a free-text annotation, TypeError, a failing import ...).
    # Every call is inside `try ... except Exception` / `with suppress(Exception)`, or its function is one of the two
    # reviewed propagators whose callers are themselves checked as evaluators.
    from .util import guard_atoms

    EVALUATORS = {"get_type_hints", "exec", "eval"}
    PROPAGATORS = {
        "_postponed_annotations:get_arg_type": "re-raises NameError with the alias failure as cause; every caller evaluates it under except Exception",
        "_postponed_annotations:get_types": "collects failures per name and raises when nothing could be evaluated; evaluate_postponed_annotations and the stub resolver call it under except Exception",
    }
    eval_leaves = set(EVALUATORS) | {q.split(":")[1] for q in PROPAGATORS}

    def _catch_all(call: ast.Call, fn) -> bool:
        for t, part in enclosing_trys(call):
            if part == "body" and any(set(handler_type_names(h)) & {"Exception", "BaseException"} for h in t.handlers):
                return True
        for _w, it in enclosing_withs(call, fn):
            ce = it.context_expr
            if isinstance(ce, ast.Call) and call_leaf(ce) == "suppress" and any(isinstance(a, ast.Name) and a.id in ("Exception", "BaseException") for a in ce.args):
                return True
        return False

    n_eval = 0
    for fq, fn in list(repo.all_funcs()):
        if fq.startswith(("_deprecated:",)):
            continue
        for c in calls_in(fn):
            if not (isinstance(c.func, ast.Name) and c.func.id in eval_leaves):
                continue
            if enclosing_function(c) is not fn:
                continue
            n_eval += 1
            if fq in PROPAGATORS:
                ctx.oblige("C03.R8", True, c, f"reviewed propagator: {PROPAGATORS[fq]}", fn=fn)
                continue
            ok = _catch_all(c, fn)
            ctx.oblige("C03.R8", ok, c, "evaluation of annotation / source text runs under a catch-all handler" if ok else f"`{src(c, 60)}` evaluates annotation or source text of a user-named component without a catch-all handler: a free-text annotation (-> \"a Calendar instance\") raises SyntaxError, which no parse method converts", fn=fn)
    ctx.floor("C03.R8-evaluator-sites", n_eval, 8)

    # ---------------- R9: what a config file delivers is a dict before it is applied ----------------------------------
    # (1) _load_config_parser_mode: between the LAST assignment of the loaded object and _apply_actions lies the
    #     `not isinstance(.., dict) -> raise` check (selecting the `key` section counts as an assignment)
    lcp = ctx.func("_core:ArgumentParser._load_config_parser_mode")
    glc = ctx.cfg(lcp)
    appl = [c for c in calls_in(lcp) if call_leaf(c) == "_apply_actions"]
    ctx.need(len(appl) == 1 and appl[0].args and isinstance(appl[0].args[0], ast.Name), "_load_config_parser_mode: return self._apply_actions(<loaded>, ...)")
    lv = appl[0].args[0].id
    checks_ = [
        i for i in walk_local(lcp)
        if isinstance(i, ast.If) and (lambda t: isinstance(t[0], ast.Call) and call_leaf(t[0]) == "isinstance" and isinstance(t[0].args[0], ast.Name) and t[0].args[0].id == lv and ast.unparse(t[0].args[1]) == "dict")(_strip(i.test)) and _body_raises(_branch_when(i, False), ctx.noreturn)
    ]
    ctx.need(checks_, f"_load_config_parser_mode: if not isinstance({lv}, dict): raise")
    defs_ = [s for s in walk_local(lcp) if isinstance(s, ast.Assign) and any(isinstance(t, ast.Name) and t.id == lv for t in s.targets)]
    via_ = glc.cn([i.test for i in checks_])
    for d in defs_:
        ok = glc.must_pass(via_, glc.cn(d), glc.cn(appl), strict=True)
        ctx.oblige("C03.R9", ok, d, f"`{src(d, 50)}` is followed by the dict check before the config is applied" if ok else f"after `{src(d, 60)}` the object reaches _apply_actions without the `isinstance(.., dict)` check: a default config file whose sub-command section is a scalar or a list (fit: 3) leaks AttributeError from every parse method", fn=lcp)
    # (2) _apply_actions: a sub-command's settings are stored only if they are a Namespace (F39: `{"fit": 3}` was kept
    #     as is and the first .clone() on it raised AttributeError)
    apa = ctx.func("_core:ArgumentParser._apply_actions")
    arms = [i for i in walk_local(apa) if isinstance(i, ast.If) and "_ActionSubCommands" in ast.unparse(i.test) and "None" in ast.unparse(i.test)]
    ctx.need(len(arms) == 1, "_apply_actions: `if action is None or isinstance(action, _ActionSubCommands):` arm")
    arm = arms[0]
    raises_ = [r for s in arm.body for r in ast.walk(s) if isinstance(r, ast.Raise)]
    # the local that holds the action, by role: the one tested with isinstance(.., _ActionSubCommands) in the arm's test
    act_names = {c.args[0].id for c in ast.walk(arm.test) if isinstance(c, ast.Call) and call_leaf(c) == "isinstance" and len(c.args) == 2 and isinstance(c.args[0], ast.Name) and "_ActionSubCommands" in ast.unparse(c.args[1])}
    good = []
    for r in raises_:
        at = guard_atoms(r, stop=arm)
        at = [(t, p) for t, p in at if t is not arm.test]
        neg_ns = [1 for t, p in at if not p and isinstance(t, ast.Call) and call_leaf(t) == "isinstance" and ast.unparse(t.args[1]) == "Namespace"]
        other = [ast.unparse(t) for t, p in at if not (isinstance(t, ast.Call) and call_leaf(t) == "isinstance") and not (isinstance(t, ast.Compare) and ("dest" in ast.unparse(t) or (isinstance(t.left, ast.Name) and t.left.id in act_names and len(t.ops) == 1 and isinstance(t.ops[0], (ast.Is, ast.IsNot)) and isinstance(t.comparators[0], ast.Constant) and t.comparators[0].value is None)))]
        if neg_ns and not other:
            good.append(r)
    ok = bool(good)
    ctx.oblige("C03.R9", ok, good[0] if good else arm, "settings of a sub-command that are not a Namespace are rejected where configs are applied" if ok else "the pass-through arm of _apply_actions stores whatever value a config gives under a sub-command's name: {\"fit\": 3} is kept and the first .clone() on it (sub-command action, merge_config, validate) raises AttributeError out of every parse method", fn=apa, construct="sub-command settings are a Namespace")

    # ---------------- R11: foreign ValueErrors of the path probes and of the jsonnet binding --------------------------
    # (1) os.access / os.stat / os.path.realpath raise ValueError('embedded null byte') for a string with a NUL; callers
    #     of Path(...) that try a value as a path first only expect PathError (a TypeError).  In Path.__init__ every
    #     such probe is preceded - on every path except the copy-constructor arm, which takes an already checked Path -
    #     by a test for the NUL character that raises PathError (fix ea13886).
    pin = ctx.func("_util:Path.__init__")
    gpi = ctx.cfg(pin)
    PROBES = {"access", "stat", "realpath", "lstat"}
    probes = [c for c in calls_in(pin) if call_leaf(c) in PROBES and (dotted(c.func) or "").startswith("os.")]
    ctx.floor("C03.R11-path-probes", len(probes), 10)
    nul_tests = []
    for i_ in [x for x in walk_local(pin) if isinstance(x, ast.If)]:
        has_nul = any(isinstance(cmp_, ast.Compare) and isinstance(cmp_.ops[0], ast.In) and const_str(cmp_.left) == "\0" for cmp_ in ast.walk(i_.test))
        rz = _body_raises(_branch_when(i_, True), ctx.noreturn)
        if has_nul and rz is not None and isinstance(rz, ast.Raise) and isinstance(rz.exc, ast.Call) and call_leaf(rz.exc) == "PathError":
            nul_tests.append(i_)
    copy_arm = set()
    for i_ in [x for x in walk_local(pin) if isinstance(x, ast.If)]:
        t_, pos_ = _strip(i_.test)
        if isinstance(t_, ast.Call) and call_leaf(t_) == "isinstance" and len(t_.args) == 2 and ast.unparse(t_.args[1]) == "Path":
            copy_arm |= gpi.branch_edges(i_.test, "t" if pos_ else "f")
    ok = bool(nul_tests) and gpi.dominates(gpi.cn([i_.test for i_ in nul_tests]), gpi.cn(probes), removed_edges=copy_arm)
    ctx.oblige("C03.R11", ok, nul_tests[0] if nul_tests else probes[0], f"the {len(probes)} os probes of Path.__init__ run only on text without a NUL character (otherwise PathError)" if ok else "Path.__init__ hands text with a NUL character to os.access / os.stat: they raise ValueError('embedded null byte'), which the callers that try a value as a path first (ActionConfigFile, ActionParser sections) do not expect - parse_string('inner: \"a\\0b\"') raises a bare ValueError", fn=pin, construct="NUL rejected before the probes")
    # (2) the jsonnet binding raises RuntimeError for jsonnet errors and ValueError for text it cannot take (NUL): both
    #     are converted where the snippet is evaluated (fix 34a6256)
    for fq, fn in list(repo.all_funcs()):
        for c in [c for c in calls_in(fn) if call_leaf(c) == "evaluate_snippet" and enclosing_function(c) is fn]:
            have_ = set()
            for t, part in enclosing_trys(c):
                if part == "body":
                    for h in t.handlers:
                        have_ |= set(handler_type_names(h))
            ok = {"RuntimeError", "ValueError"} <= have_ or bool(have_ & {"Exception", "BaseException"})
            if not ok and fq == "_loaders_dumpers:jsonnet_load":
                # the loader of the jsonnet parser mode: ValueError is one of the exceptions that mode declares
                # (get_loader_exceptions), so every load site already anticipates it (R5)
                gle = ctx.func("_loaders_dumpers:get_loader_exceptions")
                decl = [r for r in walk_local(gle) if isinstance(r, ast.Return) and any(pol and "jsonnet" in ast.unparse(t) for t, pol in guard_atoms(r, stop=gle)) and any(isinstance(n_, ast.Name) and n_.id == "ValueError" for n_ in ast.walk(r.value))]
                if decl and "RuntimeError" in have_:
                    ctx.oblige("C03.R11", True, c, "jsonnet_load: ValueError of the binding is a declared loader exception of the jsonnet mode", fn=fn, construct="jsonnet loader declares ValueError")
                    continue
            ctx.oblige("C03.R11", ok, c, "failures of the jsonnet binding (RuntimeError, ValueError) are converted" if ok else f"`evaluate_snippet` runs under handlers for {sorted(have_)} only: a jsonnet file with a NUL byte makes the binding raise ValueError, which leaves parse_args as it is", fn=fn, construct="jsonnet binding failures converted")

    # (3) the key of the config-file option holds the LIST of loaded files (apply_config appends to it,
    #     get_config_files iterates over it): _check_value_key lets only None or a list through for that action
    #     (F49: --cfg 'cfg: 3' made apply_config call .append on an int)
    cvk = ctx.func("_core:ArgumentParser._check_value_key")
    vpar = cvk.args.args[2].arg
    good_cf = []
    for r in [x for x in walk_local(cvk) if isinstance(x, ast.Raise)]:
        at = guard_atoms(r, stop=cvk)
        is_cf = any(pol and isinstance(t, ast.Call) and call_leaf(t) == "isinstance" and ast.unparse(t.args[1]) == "ActionConfigFile" for t, pol in at)
        not_list = any(not pol and isinstance(t, ast.Call) and call_leaf(t) == "isinstance" and ast.unparse(t.args[0]) == vpar and ast.unparse(t.args[1]) == "list" for t, pol in at)
        if is_cf and not_list and isinstance(r.exc, ast.Call) and call_leaf(r.exc) == "TypeError":
            good_cf.append(r)
    ok = bool(good_cf)
    ctx.oblige("C03.R9", ok, good_cf[0] if good_cf else cvk, "a value for the config-file key that is not a list is rejected with TypeError" if ok else "_check_value_key stores any value under the key of the config-file option: a config that contains that key with a scalar (--cfg 'cfg: 3') makes apply_config call .append on it - AttributeError out of parse_args", fn=cvk, construct="config-file key holds a list")

    # ---------------- R12: implicit ValueErrors of the library's own making ------------------------------------------
    # (1) split_key returns ALL components of a key: unpacking its result into a fixed number of names raises
    #     ValueError('too many values to unpack') for a deeper key; two-way splits use split_key_root / split_key_leaf
    n_unpack = 0
    for fq, fn in list(repo.all_funcs()):
        for s_ in walk_local(fn):
            if isinstance(s_, ast.Assign) and isinstance(s_.targets[0], ast.Tuple) and isinstance(s_.value, ast.Call) and call_leaf(s_.value) in ("split_key", "split_key_root", "split_key_leaf"):
                n_unpack += 1
                ok = call_leaf(s_.value) != "split_key"
                ctx.oblige("C03.R12", ok, s_, f"`{src(s_, 50)}` unpacks a two-way split" if ok else f"`{src(s_, 60)}` unpacks ALL components of the key into {len(s_.targets[0].elts)} names: an unknown key nested two levels below a sub-command (fit: {{modle: {{lr: 1}}}}) raises ValueError('too many values to unpack') instead of the unknown-key error", fn=fn)
    ctx.floor("C03.R12-key-unpackings", n_unpack, 3)
    # (2) the config read mode is a string of UNIQUE flags (Path rejects a flag that occurs twice with ValueError):
    #     a flag is added only if it is not in the mode yet
    scm = ctx.func("_optionals:set_config_read_mode")
    adds = [s_ for s_ in walk_local(scm, include_nested=True) if isinstance(s_, ast.Assign) and isinstance(s_.value, ast.Call) and call_leaf(s_.value) == "replace" and len(s_.value.args) == 2 and isinstance(s_.value.args[1], ast.BinOp)]
    ctx.need(adds, "set_config_read_mode: mode = mode.replace('f', 'f' + flag)")
    for s_ in adds:
        fnode = enclosing_function(s_)
        at = guard_atoms(s_, stop=fnode)
        ok = any(isinstance(t, ast.Compare) and ((not pol and isinstance(t.ops[0], ast.In)) or (pol and isinstance(t.ops[0], ast.NotIn))) and ast.unparse(t.comparators[0]) == ast.unparse(s_.targets[0]) for t, pol in at)
        ctx.oblige("C03.R12", ok, s_, "a read-mode flag is added only when the mode does not have it" if ok else "set_config_read_mode adds a flag that the mode already has: after enabling an enabled mode twice the mode is 'fuur' and EVERY later --cfg value (a good file, a missing file, a string) raises ValueError('Too many occurrences (2) for flag \"u\"') out of parse_args", fn=fnode, construct="read-mode flags unique")

    # ---------------- R10: switches read from the environment are compared case-insensitively -------------------------
    n_envsw = 0
    for fq, fn in list(repo.all_funcs()):
        for n_ in walk_local(fn):
            if not (isinstance(n_, ast.Compare) and len(n_.ops) == 1 and isinstance(n_.ops[0], (ast.In, ast.NotIn)) and isinstance(n_.comparators[0], (ast.Set, ast.Tuple, ast.List))):
                continue
            lits = [const_str(e) for e in n_.comparators[0].elts]
            if not lits or any(l is None for l in lits) or not any(l.isalpha() for l in lits) or any(l != l.lower() for l in lits):
                continue
            left = n_.left
            if not any(isinstance(c, ast.Call) and (call_leaf(c) == "getenv" or "environ" in ast.unparse(c.func)) for c in ast.walk(left)):
                continue
            n_envsw += 1
            ok = isinstance(left, ast.Call) and call_leaf(left) in ("lower", "casefold")
            ctx.oblige("C03.R10", ok, n_, "environment switch is lower-cased before it is compared with the lower-case table" if ok else f"`{src(n_, 70)}` compares the raw environment text with a lower-case table: JSONARGPARSE_DEBUG=False counts as debug-on - every failure raises instead of printing usage and exiting with status 2", fn=fn)
    ctx.floor("C03.R10-env-switches", n_envsw, 1)

    # ---------------- R6: exception flow for two families of user-data failures --------------------------
    # (E6, path-precise: a leak is an origin reachable from a parse entry along call sites none of which lies
    #  under a handler for the exception; every report carries the witness chain)
    from .callgraph import CallGraph
    from .excflow import ExcFlow
    from .rules_C01 import polarity

    cg = CallGraph(repo)
    acts = [q for q in cg.funcs if q.endswith(".__call__") and not q.startswith(("_deprecated:", "_common:", "_util:"))]
    dispatch = {"_core:ArgumentParser.parse_known_args": acts + ["_core:ArgumentParser._parse_optional"]}
    ef = ExcFlow(repo, cg)
    roots6 = [f"_core:ArgumentParser.{n}" for n in PARSE_ENTRIES]

    def _serialize_only(f: str, node: ast.AST) -> bool:
        fn_ = cg.funcs[f]
        if isinstance(node, ast.Call) and call_leaf(node) in PRELUDE and f.split(".")[-1] in PARSE_ENTRIES:
            return True  # prelude of a parse entry: deliberately outside the conversion (see assumptions)
        if f.endswith(".__call__") and any(pol and ast.unparse(t).replace(" ", "") == "len(args)==0" for t, pol in guard_chain(node, stop=fn_)):
            return True  # declaration form of an action (`action=ActionX(...)` called back by add_argument without positional arguments)
        if "serialize" not in [a.arg for a in fn_.args.args + fn_.args.kwonlyargs]:
            return False
        can_t, can_f = polarity(node, fn_)
        return can_t and not can_f

    ef.skip_site = _serialize_only  # the parse entries never run serialising sites (serialize is False below them)
    FAMILIES = [
        # (origin function, what raises inside it, exception, meaning)
        ("_util:import_object", lambda c: isinstance(c, ast.Call) and (call_leaf(c) == "__import__" or (call_leaf(c) == "getattr" and len(c.args) == 2)), ["ModuleNotFoundError", "AttributeError"], "an import path given by the user cannot be imported"),
        ("_util:Path.get_content", lambda c: isinstance(c, ast.Call) and call_leaf(c) == "read" and not c.args, ["UnicodeDecodeError"], "a file given by the user is not valid text"),
        ("_loaders_dumpers:load_basic", lambda c: isinstance(c, ast.Call) and isinstance(c.func, ast.Name) and c.func.id in ("int", "float") and c.args and not isinstance(c.args[0], ast.Constant), ["ValueError"], "text that looks like a number cannot be converted (str.isdigit accepts characters int() rejects)"),
    ]
    n_orig = 0
    for ofn, is_raiser, excs, meaning in FAMILIES:
        of = ctx.func(ofn)
        raisers = [c for c in ast.walk(of) if is_raiser(c)]
        ctx.need(raisers, f"{ofn}: intrinsic raisers")
        for exc in excs:
            escapes = [c for c in raisers if not ef._caught(exc, ef._enclosing_handlers(c, of))]
            call_sites: Dict[str, List[ast.AST]] = {}
            for f, lst in cg.edges.items():
                for c, ts, how in lst:
                    if ofn in ts and not _serialize_only(f, c):
                        call_sites.setdefault(f, []).append(c)
            n_orig += sum(len(v) for v in call_sites.values())
            if not escapes:
                ctx.oblige("C03.R6", True, of, f"{exc} ({meaning}) is converted inside {ofn.split(':')[1]} itself", fn=of, construct=f"{exc} converted at origin")
                continue
            found = ef.leaks(roots6, exc, call_sites, dispatch, stop_at=R6_STOP)
            for lk in found:
                key = (lk["function"], call_leaf(lk["site"]))
                if key in R6_REVIEWED:
                    ctx.notes.append(f"R6: {exc} at {src(lk['site'], 50)} in {lk['function']}: {R6_REVIEWED[key]}")
                    continue
                chain = [f"{f_.split(':')[1]}" + (f" (called at {loc(c_)})" if c_ is not None else "") for f_, c_ in lk["chain"]]
                ctx.oblige(
                    "C03.R6",
                    False,
                    lk["site"],
                    f"{exc} ({meaning}) raised below this call reaches {lk['chain'][0][0].split('.')[-1]} without passing a handler that catches it: it escapes as a foreign exception instead of ArgumentError / exit 2; chain: " + " -> ".join(chain),
                    fn=cg.funcs[lk["function"]],
                    details={"chain": chain},
                )
            if not found or all((lk["function"], call_leaf(lk["site"])) in R6_REVIEWED for lk in found):
                ctx.oblige("C03.R6", True, of, f"every call of {ofn.split(':')[1]} below the parse entries lies under a handler for {exc}", fn=of, construct=f"{exc} handled on all paths")
    ctx.floor("C03.R6-origin-call-sites", n_orig, 8)

    # ---------------- E6 (thorough tier, informational) ---------------------------
    if ctx.tier == "thorough":
        roots = [f"_core:ArgumentParser.{n}" for n in PARSE_ENTRIES]
        ef.analyse(roots, dispatch)
        summary = {}
        for r in roots:
            by: Dict[str, int] = {}
            for t, o in ef.esc.get(r, ()):  # type: ignore[arg-type]
                by[t] = by.get(t, 0) + 1
            summary[r.split(".")[-1]] = dict(sorted(by.items()))
        ctx.extra["escape_candidates_E6"] = {
            "status": "informational only - not an obligation",
            "why": "explicit raise sites (typed) that no handler written on a call-graph path to the parse entry catches. The call graph cannot separate parser-construction-time raises "
            "(add_class_arguments, link set-up, Path._check_mode ...) reached through get_class_parser from parse-time ones, so the residue (dozens of ValueError sites) is dominated by "
            "infeasible paths; as DESIGN.md section 3/C03 foresaw, E6 is therefore not armed and C03 rests on R1-R5.",
            "functions_analysed": len(ef.esc),
            "fixpoint_iterations": ef.iterations,
            "by_entry_and_type": summary,
        }

    ctx.assumptions += [
        "KeyError/TypeError raised below a parse entry are converted by its handler; implicit exceptions of other types (AttributeError, RecursionError, ...) are not modelled",
        "PRELUDE calls (get_private_kwargs, return_parser_if_captured, handle_completions) are deliberately outside the conversion",
    ]
    # ---------------- C03.R5 (json decoder used outside json mode) ----------------------------------------------------
    # json.loads raises JSONDecodeError; only the json / jsonnet modes list it among their loader exceptions.  A json.loads
    # call that is not THE json-mode loader runs in whatever mode is active (load_list_or_dict: the toml mode's fast path
    # for list / dict looking text) - its failure has to be absorbed where it happens.
    ld = repo.mod("_loaders_dumpers")
    json_mode_loader = None
    for st in ld.tree.body:
        if isinstance(st, (ast.Assign, ast.AnnAssign)) and isinstance(getattr(st, "value", None), ast.Dict) and any(isinstance(t, ast.Name) and t.id == "loaders" for t in (st.targets if isinstance(st, ast.Assign) else [st.target])):
            for k, v in zip(st.value.keys, st.value.values):
                if const_str(k) == "json" and isinstance(v, ast.Name):
                    json_mode_loader = v.id
    ctx.need(json_mode_loader, "loaders['json'] in _loaders_dumpers")
    n_jl = 0
    for fq_, fn_ in repo.all_funcs():
        for c in calls_in(fn_):
            if call_name(c) != "json.loads":
                continue
            n_jl += 1
            if fq_ == f"_loaders_dumpers:{json_mode_loader}":
                ctx.oblige("C03.R5", True, c, "the json-mode loader: JSONDecodeError is among that mode's anticipated exceptions", fn=fn_)
                continue
            names = set()
            for t_, part in enclosing_trys(c):
                if part == "body":
                    for h in t_.handlers:
                        names |= set(handler_type_names(h))
            for w_, it in enclosing_withs(c, stop=fn_):
                if isinstance(it.context_expr, ast.Call) and call_leaf(it.context_expr) == "suppress":
                    for a_ in it.context_expr.args:
                        names |= set(exc_expr_names(a_))
            ok = bool({n.split(".")[-1] for n in names} & {"JSONDecodeError", "ValueError", "Exception", "BaseException"})
            ctx.oblige("C03.R5", ok, c, "a failure of this auxiliary json.loads is absorbed on the spot" if ok else f"`{src(c, 50)}` in {fq_} runs outside json mode with nothing absorbing JSONDecodeError: under parser_mode='toml', text that looks like a JSON list / dict but is not JSON (`[a, b]`, `{{\"n\": 2,}}`, the valid TOML `[table]`) makes a raw json.JSONDecodeError leave parse_string / parse_path / --cfg FILE", fn=fn_)
    ctx.floor("C03.R5-json-decoders", n_jl, 2)

    # set_loader REPLACES what a mode had: its loader and the exceptions that loader raises travel together.  If the
    # exceptions of a mode that already has an entry (yaml, json, or a mode set earlier) were kept, the new loader's
    # failures would not be among the anticipated ones
    fsl = ctx.func("_loaders_dumpers:set_loader")
    slp = [a.arg for a in fsl.args.args]
    ctx.need(len(slp) >= 3, "set_loader(mode, loader_fn, exceptions, ...)")
    for table, par in (("loaders", slp[1]), ("loader_exceptions", slp[2])):
        st_ = [s_ for s_ in walk_local(fsl) if isinstance(s_, ast.Assign) and isinstance(s_.targets[0], ast.Subscript) and isinstance(s_.targets[0].value, ast.Name) and s_.targets[0].value.id == table and isinstance(s_.targets[0].slice, ast.Name) and s_.targets[0].slice.id == slp[0] and isinstance(s_.value, ast.Name) and s_.value.id == par]
        ok = len(st_) == 1 and not guard_chain(st_[0], stop=fsl)
        ctx.oblige("C03.R5", ok, st_[0] if st_ else fsl, f"set_loader overwrites {table}[{slp[0]}] with `{par}`" if ok else f"set_loader does not (unconditionally) overwrite {table}[{slp[0]}] with `{par}`: after set_loader('yaml', json.loads, exceptions=(JSONDecodeError,)) the mode keeps the exception tuple it had, and the new loader's JSONDecodeError leaves parse_string", fn=fsl, construct=f"set_loader overwrites {table}")

    # help text is the user's text: expanding it must tolerate placeholders it does not know (`%(unit)s`, a stray `%(`) -
    # string.Template.substitute raises KeyError / ValueError for them, safe_substitute leaves them alone.  --help must
    # exit 0, and the usage printed with a parse error must not fail itself
    eh3 = ctx.func("_formatters:DefaultHelpFormatter._expand_help")
    subs3 = [c for c in calls_in(eh3) if call_leaf(c) in ("substitute", "safe_substitute")]
    ctx.floor("C03.R7-help-expansion", len(subs3), 1)
    for c in subs3:
        ok = call_leaf(c) == "safe_substitute"
        ctx.oblige("C03.R7", ok, c, "help text is expanded with safe_substitute" if ok else "help text is expanded with Template.substitute: a help string with an unknown placeholder (`%(unit)s`) or a stray `%(` makes --help raise ValueError / KeyError (or exit 2) instead of printing the help and exiting 0", fn=eh3)

    # ---------------- C03.R13 (an index guarded by a too weak length test) --------------------------------------------
    # `len(x) > n and ... x[k]`: the author checked the length, so the index is meant to be safe - it is only if k <= n
    # (k < n for `>=` / `==`).  A guard that is too weak turns a rejected value into an IndexError out of every parse method.
    n_lg = 0
    for fq_, fn_ in repo.all_funcs():
        for bo in [n_ for n_ in ast.walk(fn_) if isinstance(n_, ast.BoolOp) and isinstance(n_.op, ast.And)]:
            for i_, v in enumerate(bo.values):
                if not (isinstance(v, ast.Compare) and len(v.ops) == 1 and isinstance(v.left, ast.Call) and call_leaf(v.left) == "len" and len(v.left.args) == 1 and isinstance(v.comparators[0], ast.Constant) and isinstance(v.comparators[0].value, int)):
                    continue
                subj = ast.unparse(v.left.args[0])
                n_c = v.comparators[0].value
                op = type(v.ops[0]).__name__
                if op not in ("Gt", "GtE", "Eq"):
                    continue
                max_ok = n_c if op == "Gt" else n_c - 1
                for later in bo.values[i_ + 1 :]:
                    for sub in [x for x in ast.walk(later) if isinstance(x, ast.Subscript) and ast.unparse(x.value) == subj and isinstance(x.slice, ast.Constant) and isinstance(x.slice.value, int) and x.slice.value >= 0]:
                        n_lg += 1
                        ok = sub.slice.value <= max_ok
                        ctx.oblige("C03.R13", ok, sub, f"`{ast.unparse(sub)}` is within the length guaranteed by `{ast.unparse(v)}`" if ok else f"`{ast.unparse(sub)}` is evaluated under `{ast.unparse(v)}`, which guarantees only {max_ok + 1} element(s): a one-element value (Tuple[int]) raises IndexError out of every parse method instead of being handled", fn=fn_)
    ctx.floor("C03.R13-guarded-indexes", n_lg, 1)

    return ctx.finish(
        explanation=(
            "Error-discipline rules: every parse entry wraps all its package calls in try/except (TypeError, KeyError) -> self.error; argparse.ArgumentError converted; "
            "error() has no normal exit, raises ArgumentError or prints usage+error to stderr and exits 2; the _check_type implementations convert what their bodies can raise "
            "(cross-checked siblings); every loader mode has anticipated exceptions and every load call site is under a handler for them. Decides the library's own conversion "
            "discipline, not the absence of implicit exceptions (the '--cfg=--' AttributeError and alias RecursionError quoted in the property are out of reach)."
        ),
        rule_text="one obligation per parse entry / handler / sibling call / loader mode / load call site; non-trivial = site exists",
    )
