"""C07 - equivalent ways of declaring a nested group behave identically (narrow claim).

The four styles (dotted arguments; dataclass-typed argument; class arguments under a key; inner parser under a
key) are not four implementations: the library REDUCES the last three to the first one - flat actions whose dest
is `<key>.<name>` and whose option string is `--<key>.<name>`, plus one whole-group loader action under `<key>`.
Equality of behaviour over all inputs is not decidable here; that every reduction step produces exactly that
common representation is visible in the code and is decided:

  C07.a  dispatch: an inner parser is moved, a dataclass-like type is delegated to add_class_arguments under the
         key taken from the option name (with the remaining keyword arguments), and both are tested before the
         generic type-hint arm that would treat them as a single value
  C07.b  class / dataclass parameters become dotted arguments: dest = <key> + "." + <name> (no key: <name>),
         option "--" + dest
  C07.c  moving an inner parser: EVERY action of the inner parser (no filter but the default helper actions) gets
         its dest prefixed with the dest form of the key (dashes replaced) and its option strings with the raw
         key, through every arm of the loop (including the helper the yes/no action provides); the option-string
         table is re-keyed with the same function; the four tables of the outer parser are extended unconditionally
  C07.d  both group-producing styles register the same whole-group loader action (_ActionConfigLoad) under the key
  C07.e  filter_default_actions drops the same classes from lists and from mappings
  C07.f  skip_default treats a key as a group for every style (no action / whole-group loader / subcommand)
Not decided: equality of parse results / dumps over all inputs; help text; positional arguments.
"""

from __future__ import annotations

import ast
from typing import List, Optional, Set

from .report import Ctx
from .srcmodel import call_leaf, calls_in, const_str, dotted, walk_local
from .util import guard_atoms, root_name


def _names(e: ast.AST) -> Set[str]:
    return {x.id for x in ast.walk(e) if isinstance(x, ast.Name)}


def _concat_parts(e: ast.AST) -> List[ast.AST]:
    """Flatten a left-nested chain of `+`."""
    if isinstance(e, ast.BinOp) and isinstance(e.op, ast.Add):
        return _concat_parts(e.left) + _concat_parts(e.right)
    return [e]


def _dest_form_locals(fn: ast.AST, raw: Set[str]) -> Set[str]:
    """Locals bound to <raw>.replace('-', '_')."""
    out = set()
    for s in walk_local(fn):
        if isinstance(s, ast.Assign) and len(s.targets) == 1 and isinstance(s.targets[0], ast.Name) and _is_dest_form(s.value, raw):
            out.add(s.targets[0].id)
    return out


def _is_dest_form(e: ast.AST, raw: Set[str]) -> bool:
    return isinstance(e, ast.Call) and call_leaf(e) == "replace" and [const_str(a) for a in e.args] == ["-", "_"] and isinstance(e.func, ast.Attribute) and isinstance(e.func.value, ast.Name) and e.func.value.id in raw


def _prefix_kind(e: ast.AST, raw: Set[str], destform: Set[str]) -> Optional[str]:
    """What a `<p> + "." + <old>` expression is prefixed with: 'dest' (dest form), 'raw', or None if not such a sum."""
    parts = _concat_parts(e)
    if len(parts) < 3 or const_str(parts[1]) != ".":
        return None
    p = parts[0]
    if isinstance(p, ast.Name) and p.id in destform or _is_dest_form(p, raw):
        return "dest"
    if isinstance(p, ast.Name) and p.id in raw:
        return "raw"
    return "other"


def _option_prefixer_ok(call: ast.Call, raw: Set[str]) -> Optional[bool]:
    """re.sub('^--' [+ x], '--' [+ x] + <raw> + '.', <s>)  -> True / False (wrong prefix) / None (not that shape)."""
    if not (call_leaf(call) == "sub" and len(call.args) >= 3):
        return None
    pat = _concat_parts(call.args[0])
    rep = _concat_parts(call.args[1])
    if const_str(pat[0]) != "^--" or const_str(rep[0]) != "--":
        return None
    extra_pat = [ast.unparse(x) for x in pat[1:]]
    tail = rep[1:]
    if len(tail) < 2 or const_str(tail[-1]) != ".":
        return False
    middle = [ast.unparse(x) for x in tail[:-2]]
    p = tail[-2]
    return middle == extra_pat and isinstance(p, ast.Name) and p.id in raw


def run(ctx: Ctx) -> int:
    # =========================================================== C07.a
    fa = ctx.func("_core:ActionsContainer.add_argument")
    g = ctx.cfg(fa)
    mv = [c for c in calls_in(fa) if call_leaf(c) == "_move_parser_actions"]
    dc = [c for c in calls_in(fa) if call_leaf(c) == "add_class_arguments"]
    th = [c for c in calls_in(fa) if call_leaf(c) == "prepare_add_argument"]
    sup = [c for c in calls_in(fa) if call_leaf(c) == "add_argument" and isinstance(c.func.value, ast.Call) and call_leaf(c.func.value) == "super"]
    ctx.need(len(mv) == 1 and len(dc) == 1 and len(th) == 1 and len(sup) == 1, "the four arms of ActionsContainer.add_argument (move inner parser / dataclass / type hint / argparse)")
    # the inner-parser arm and the dataclass arm leave the function before the generic arms
    for arm, what in ((mv[0], "an inner parser given as action"), (dc[0], "a dataclass-like type")):
        ok = not g.can_reach(g.cn(arm), g.cn(th) + g.cn(sup), exclude_labels={"e"})
        ctx.oblige("C07.a", ok, arm, f"{what} is fully handled by its own arm: after it neither the type-hint arm nor argparse's add_argument runs for the same option (it would be declared a second time as one opaque value)", fn=fa)
        ok2 = not g.can_reach(g.cn(th), g.cn(arm), exclude_labels={"e"}) and not g.can_reach(g.cn(sup), g.cn(arm), exclude_labels={"e"})
        ctx.oblige("C07.a", ok2, arm, f"{what} is recognised before the generic type-hint arm", fn=fa)
    at = guard_atoms(dc[0])
    okg = any(pol and isinstance(t, ast.Call) and call_leaf(t) == "is_dataclass_like" for t, pol in at)
    ctx.oblige("C07.a", okg, dc[0], "the delegation to add_class_arguments happens exactly for dataclass-like types", fn=fa)
    at = guard_atoms(mv[0])
    okg = any(pol and isinstance(t, ast.Call) and call_leaf(t) == "_is_valid_action_parser" for t, pol in at)
    ctx.oblige("C07.a", okg, mv[0], "the move happens exactly for ActionParser actions", fn=fa)
    # key and remaining settings are handed on
    c = dc[0]
    ok = len(c.args) >= 2 and any(k.arg is None and _names(k.value) == {fa.args.kwarg.arg} for k in c.keywords)
    keydef = None
    if ok and isinstance(c.args[1], ast.Name):
        keydef = next((s.value for s in walk_local(fa) if isinstance(s, ast.Assign) and isinstance(s.targets[0], ast.Name) and s.targets[0].id == c.args[1].id), None)
    va = fa.args.vararg.arg
    okk = False
    if keydef is not None:
        kt = ast.unparse(keydef)
        strips = isinstance(keydef, ast.Call) and call_leaf(keydef) in ("lstrip", "strip", "removeprefix") and keydef.args and set(const_str(keydef.args[0]) or "x") <= {"-"} and ast.unparse(keydef.func.value) == f"{va}[0]"
        slices = kt == f"{va}[0][2:]"
        if strips or slices:
            okk = True
        elif not any(isinstance(c_, ast.Call) and call_leaf(c_) in ("replace", "split", "lower", "upper", "translate", "join") for c_ in ast.walk(keydef)) and f"{va}[0]" in kt:
            from .srcmodel import AnalysisError as _AE7

            raise _AE7(f"C07.a: the key of the delegated class arguments is computed as `{kt}`, a form this rule does not know; it must be re-anchored")
    ctx.oblige("C07.a", ok and okk, c, "the class is added under the key named by the option (leading dashes stripped, nothing else changed) and the remaining keyword arguments (default, help, ...) are passed on", fn=fa)
    tpop = c.args[0]
    ctx.oblige("C07.a", isinstance(tpop, ast.Call) and call_leaf(tpop) == "pop" and const_str(tpop.args[0]) == "type", c, "the class handed to add_class_arguments is the declared `type` (removed from the keyword arguments that are passed on)", fn=fa)

    # =========================================================== C07.b
    fp = ctx.func("_signatures:SignatureArguments._add_signature_parameter")
    params = [a.arg for a in fp.args.args]
    ctx.need("nested_key" in params and "param" in params, "_add_signature_parameter(container, nested_key, param, ...)")
    name_locals = {s.targets[0].id for s in walk_local(fp) if isinstance(s, ast.Assign) and isinstance(s.targets[0], ast.Name) and ast.unparse(s.value) == "param.name"}
    adds = [c for c in calls_in(fp) if call_leaf(c) == "add_argument" and any(isinstance(a, ast.Starred) for a in c.args)]
    ctx.need(len(adds) == 1, "container.add_argument(*args, **kwargs) in _add_signature_parameter")
    argv = adds[0].args[0].value
    ctx.need(isinstance(argv, ast.Name), "argument list variable of the add_argument call")
    adefs = [s for s in walk_local(fp) if isinstance(s, ast.Assign) and isinstance(s.targets[0], ast.Name) and s.targets[0].id == argv.id and isinstance(s.value, ast.List)]
    ctx.need(len(adefs) == 1 and len(adefs[0].value.elts) == 1, "args = [<option or positional name>]")
    el = adefs[0].value.elts[0]
    opt_exprs = [el.body, el.orelse] if isinstance(el, ast.IfExp) else [el]
    dest_names = set()
    okopt = False
    for e in opt_exprs:
        parts = _concat_parts(e)
        if len(parts) == 2 and const_str(parts[0]) == "--" and isinstance(parts[1], ast.Name):
            okopt = True
            dest_names.add(parts[1].id)
        elif isinstance(e, ast.Name):
            dest_names.add(e.id)
        else:
            okopt = False
            break
    ctx.oblige("C07.b", okopt and len(dest_names) == 1, adefs[0], 'a class parameter is declared as the option "--" + dest (or as the positional dest), dest being one and the same key', fn=fp)
    if len(dest_names) == 1:
        dn = next(iter(dest_names))
        ddefs = [s for s in walk_local(fp) if isinstance(s, ast.Assign) and isinstance(s.targets[0], ast.Name) and s.targets[0].id == dn]
        okd = len(ddefs) == 1
        if okd:
            parts = _concat_parts(ddefs[0].value)
            okd = len(parts) == 2 and isinstance(parts[1], ast.Name) and (parts[1].id in name_locals) and isinstance(parts[0], ast.IfExp)
            if okd:
                ife = parts[0]
                # (nested_key + "." if nested_key else "")
                okd = isinstance(ife.test, ast.Name) and ife.test.id == "nested_key" and [ast.unparse(x) for x in _concat_parts(ife.body)] == ["nested_key", "'.'"] and const_str(ife.orelse) == ""
        ctx.oblige("C07.b", okd, ddefs[0] if ddefs else fp, 'the key of a class parameter is <nested_key> + "." + <parameter name> (just the name without a nested key): the same key a dotted argument of that name has', fn=fp)
        # every later use of the list passes through prepare_add_argument only
        appended = [c for c in calls_in(fp) if call_leaf(c) == "append" and c.args and isinstance(c.args[0], ast.Name) and c.args[0].id == dn]
        ctx.oblige("C07.b", len(appended) == 1, adds[0], "the key reported as added is that same dest", fn=fp, construct="added_args.append(dest)")

    # =========================================================== C07.c
    fm = ctx.func("_actions:ActionParser._move_parser_actions")
    gm = ctx.cfg(fm)
    mparams = [a.arg for a in fm.args.args]
    ctx.need(len(mparams) == 3, "_move_parser_actions(parser, args, kwargs)")
    outer, margs = mparams[0], mparams[1]
    raw = {s.targets[0].id for s in walk_local(fm) if isinstance(s, ast.Assign) and isinstance(s.targets[0], ast.Name) and ast.unparse(s.value) == f"{margs}[0][2:]"}
    ctx.need(len(raw) == 1, "_move_parser_actions: <prefix> = args[0][2:]")
    destform = _dest_form_locals(fm, raw)
    ctx.need(len(destform) == 1, "_move_parser_actions: <dest> = <prefix>.replace('-', '_')")
    # local option prefixer
    prefixers = {}
    for n in ast.walk(fm):
        if isinstance(n, ast.FunctionDef) and n is not fm:
            rets = [r for r in ast.walk(n) if isinstance(r, ast.Return) and isinstance(r.value, ast.Call)]
            if len(rets) == 1:
                v = _option_prefixer_ok(rets[0].value, raw)
                if v is not None:
                    prefixers[n.name] = (v, rets[0])
    ctx.need(prefixers, "the nested function that prefixes option strings in _move_parser_actions")
    for nm, (v, r) in prefixers.items():
        ctx.oblige("C07.c", v, r, 'option strings of the moved parser become "--" + <raw key> + "." + <old name>', fn=fm)
    inner = next((s.targets[0].id for s in walk_local(fm) if isinstance(s, ast.Assign) and isinstance(s.targets[0], ast.Name) and ast.unparse(s.value).endswith("._parser")), None)
    ctx.need(inner, "_move_parser_actions: <subparser> = kwargs.pop('action')._parser")
    loops = [n for n in walk_local(fm) if isinstance(n, ast.For)]
    act_loop = [l for l in loops if f"{inner}._actions" in ast.unparse(l.iter)]
    ctx.need(len(act_loop) == 1, "loop over the inner parser's actions")
    L = act_loop[0]
    it = L.iter
    ok_iter = (isinstance(it, ast.Call) and call_leaf(it) == "filter_default_actions" and ast.unparse(it.args[0]) == f"{inner}._actions") or ast.unparse(it) == f"{inner}._actions"
    no_skip = not any(isinstance(n, (ast.Continue, ast.Break)) for n in ast.walk(L))
    ctx.oblige("C07.c", ok_iter and no_skip, L, "every action of the inner parser (except the default helper actions) is moved: no other filter, no early exit from the loop", fn=fm)
    av = L.target.id if isinstance(L.target, ast.Name) else ""
    # arms of the loop body: each path through the body must prefix dest (dest form) and option strings (raw)
    yes = ctx.func("_actions:ActionYesNo._add_dest_prefix")
    yparam = yes.args.args[1].arg

    def arm_effects(stmts, fn, rawset, destset, subject):
        """(dest prefix kind or None, option strings prefixed correctly or None)"""
        dk = ok_opt = None
        for s in stmts:
            for n in ast.walk(s):
                if isinstance(n, ast.Assign):
                    for t in n.targets:
                        if isinstance(t, ast.Attribute) and t.attr == "dest" and isinstance(t.value, ast.Name) and t.value.id == subject:
                            k = _prefix_kind(n.value, rawset, destset)
                            tail = _concat_parts(n.value)[-1]
                            if k is not None and ast.unparse(tail) == f"{subject}.dest":
                                dk = k
                        tt = ast.unparse(t)
                        if tt.startswith(f"{subject}.option_strings"):
                            calls = [c for c in ast.walk(n.value) if isinstance(c, ast.Call)]
                            v = None
                            for c in calls:
                                if isinstance(c.func, ast.Name) and c.func.id in prefixers:
                                    v = prefixers[c.func.id][0]
                                r = _option_prefixer_ok(c, rawset)
                                if r is not None:
                                    v = r
                            if v is not None:
                                ok_opt = v if ok_opt is None else (ok_opt and v)
        return dk, ok_opt

    arms = []
    body_ifs = [s for s in L.body if isinstance(s, ast.If)]
    if body_ifs:
        arms = [("yes/no arm" if "ActionYesNo" in ast.unparse(body_ifs[0].test) else "first arm", body_ifs[0].body), ("general arm", body_ifs[0].orelse)]
    else:
        arms = [("loop body", L.body)]
    ctx.floor("C07.c-arms", len(arms), 1)
    for label, stmts in arms:
        dk, oo = arm_effects(stmts, fm, raw, destform, av)
        via = None
        # delegation to a method of the action: read its body with its parameter bound to what is passed
        for s in stmts:
            for c in calls_in(s):
                if call_leaf(c) == "_add_dest_prefix" and isinstance(c.func.value, ast.Name) and c.func.value.id == av and c.args:
                    passed = c.args[0]
                    passed_kind = "dest" if (isinstance(passed, ast.Name) and passed.id in destform) or _is_dest_form(passed, raw) else ("raw" if isinstance(passed, ast.Name) and passed.id in raw else "other")
                    ydest = _dest_form_locals(yes, {yparam})
                    ydk, yoo = arm_effects(yes.body, yes, {yparam}, ydest, yes.args.args[0].arg)
                    via = c
                    # translate: the callee's 'raw' is whatever was passed
                    if passed_kind == "raw":
                        dk, oo = ydk, yoo
                    elif passed_kind == "dest":
                        dk = "dest" if ydk in ("raw", "dest") else ydk
                        oo = False if yoo else yoo  # options built from the dest form lose the dashes
                    else:
                        dk, oo = "other", False
        site = via or (stmts[0] if stmts else L)
        ctx.oblige("C07.c", dk == "dest", site, f"{label}: the moved action's dest must be prefixed with the DEST form of the key (dashes replaced by underscores) - found: {dk or 'no dest prefixing'}. With the raw key, `--inner-app` puts this action's value under 'inner-app.<name>' while every other style (and every other action of the same parser) uses 'inner_app.<name>'", fn=fm if via is None else fm)
        ctx.oblige("C07.c", oo is True, site, f"{label}: the moved action's option strings must be prefixed with the raw key", fn=fm, construct=f"{label} option strings")
    # appended on every path through the body
    apps = [c for c in calls_in(L) if call_leaf(c) == "append" and c.args and isinstance(c.args[0], ast.Name) and c.args[0].id == av]
    ok = len(apps) == 1 and not guard_atoms(apps[0], stop=L)
    ctx.oblige("C07.c", ok, apps[0] if apps else L, "every moved action is collected for the outer parser, whatever its class", fn=fm)
    # option-string table re-keyed with the same prefixer over all entries
    tbl_loops = [l for l in loops if f"{inner}._option_string_actions" in ast.unparse(l.iter)]
    ok = len(tbl_loops) == 1
    if ok:
        tl = tbl_loops[0]
        stores = [s for s in ast.walk(tl) if isinstance(s, ast.Assign) and isinstance(s.targets[0], ast.Subscript)]
        ok = len(stores) == 1 and isinstance(stores[0].targets[0].slice, ast.Call) and isinstance(stores[0].targets[0].slice.func, ast.Name) and stores[0].targets[0].slice.func.id in prefixers and not any(isinstance(n, (ast.Continue, ast.Break, ast.If)) for n in ast.walk(tl))
    ctx.oblige("C07.c", ok, tbl_loops[0] if tbl_loops else fm, "the option-string table of the inner parser is re-keyed entry by entry with the same prefixing function as the actions' own option strings", fn=fm)
    # the outer parser's four tables are extended unconditionally
    want = {f"{outer}.required_args.update", f"{outer}._option_string_actions.update", f"{outer}._actions.extend", f"{outer}._action_groups.extend"}
    got = {}
    for c in calls_in(fm):
        d = dotted(c.func)
        if d in want:
            got[d] = c
    rets = [r for r in walk_local(fm) if isinstance(r, ast.Return)]
    for d in sorted(want):
        c = got.get(d)
        ok = c is not None and gm.must_pass(gm.cn(c), [gm.entry], gm.cn(rets), exclude_labels={"e"})
        ctx.oblige("C07.c", ok, c or fm, f"`{d}(...)` runs on every normal path of the move", fn=fm, construct=d)
    # group dests
    gl = [l for l in loops if l not in act_loop and l not in tbl_loops]
    okg = False
    for l in gl:
        for s in ast.walk(l):
            if isinstance(s, ast.Assign) and any(isinstance(t, ast.Attribute) and t.attr == "dest" for t in s.targets):
                okg = _prefix_kind(s.value, raw, destform) == "dest"
    ctx.oblige("C07.c", okg, gl[0] if gl else fm, "class groups of the inner parser keep their link to the configuration: group.dest is prefixed with the dest form of the key", fn=fm, construct="group dest")

    # =========================================================== C07.d
    fgc = ctx.func("_signatures:SignatureArguments._create_group_if_requested")
    loaders = []
    for fn, keyexpr_ok in ((fm, lambda a: ast.unparse(a) == f"{margs}[0]"), (fgc, lambda a: [ast.unparse(x) for x in _concat_parts(a)] == ["'--'", "nested_key"])):
        cs = [c for c in calls_in(fn) if call_leaf(c) == "add_argument" and any(k.arg == "action" and "_ActionConfigLoad" in ast.unparse(k.value) for k in c.keywords)]
        ok = len(cs) == 1 and cs[0].args and keyexpr_ok(cs[0].args[0])
        loaders.append(ok)
        ctx.oblige("C07.d", ok, cs[0] if cs else fn, "the group can also be given as a whole (file or string) through an _ActionConfigLoad action under exactly its key", fn=fn, construct="whole-group loader")
    cs = [c for c in calls_in(fgc) if call_leaf(c) == "add_argument" and any(k.arg == "action" and "_ActionConfigLoad" in ast.unparse(k.value) for k in c.keywords)]
    if cs:
        at = [(ast.unparse(t), p) for t, p in guard_atoms(cs[0])]
        extra = [a for a in at if a not in (("as_group", True), ("config_load", True), ("nested_key is not None", True), ("nested_key is None", False))]
        ctx.oblige("C07.d", not extra, cs[0], f"for class groups the loader is added whenever a group with a key and parameters is created (extra conditions found: {extra})", fn=fgc)

    # the whole-group loader comes BEFORE the group's field actions in parser._actions, in every style: sources that walk
    # the actions in order (environment variables) apply the whole-group value first and refine it field by field; the
    # other way round the whole-group value replaces the branch and the field values are lost for that style only
    loader_calls = [c for c in calls_in(fm) if call_leaf(c) == "add_argument" and any(k.arg == "action" and "_ActionConfigLoad" in ast.unparse(k.value) for k in c.keywords)]
    ext = got.get(f"{outer}._actions.extend")
    if loader_calls and ext is not None:
        ok = not gm.can_reach(gm.cn(ext), gm.cn(loader_calls), exclude_labels={"e"}) and gm.can_reach(gm.cn(loader_calls), gm.cn(ext), exclude_labels={"e"})
        ctx.oblige("C07.d", ok, loader_calls[0], "the whole-group loader of a moved parser is registered before its field actions are appended" if ok else "the whole-group loader of a moved parser is registered after its field actions: with default_env the variable of the whole group (APP_G) is applied after the per-field variables (APP_G__A) and replaces the branch - the same variables give different values for the inner-parser style and for the class / dataclass styles", fn=fm, construct="loader before field actions (inner parser)")
    fsa = ctx.func("_signatures:SignatureArguments._add_signature_arguments")
    gsa = ctx.cfg(fsa)
    grp = [c for c in calls_in(fsa) if call_leaf(c) == "_create_group_if_requested"]
    fld = [c for c in calls_in(fsa) if call_leaf(c) == "_add_signature_parameter"]
    ctx.need(grp and fld, "_add_signature_arguments: _create_group_if_requested(...) and the _add_signature_parameter loop")
    ok = not gsa.can_reach(gsa.cn(fld), gsa.cn(grp), exclude_labels={"e"}) and gsa.dominates(gsa.cn(grp), gsa.cn(fld), exclude_labels={"e"})
    ctx.oblige("C07.d", ok, grp[0], "the group (with its whole-group loader) is created before the parameters are added" if ok else "parameters are added before the group and its whole-group loader exist", fn=fsa, construct="loader before field actions (class arguments)")

    # =========================================================== C07.f
    # skip_default descends into a group to drop the fields that are at their default.  "Group" must mean the same thing
    # for every style: no action under the key (dotted arguments), a subcommand, or the whole-group loader that C07.d
    # shows the other styles register under the key
    fdd = ctx.func("_core:ArgumentParser._dump_delete_default_entries")
    recs = [c for c in calls_in(fdd) if call_leaf(c) == "_dump_delete_default_entries" and isinstance(c.func, ast.Attribute) and isinstance(c.func.value, ast.Name) and c.func.value.id == "self"]
    ctx.need(recs, "_dump_delete_default_entries: the self-recursion into groups")
    from .util import guard_atoms as _ga7

    for c in recs:
        classes = set()
        none_ok = False
        for t, pol in _ga7(c, stop=fdd):
            for n in ast.walk(t):
                if isinstance(n, ast.Call) and call_leaf(n) == "isinstance" and len(n.args) == 2:
                    classes |= {x.id for x in ast.walk(n.args[1]) if isinstance(x, ast.Name)}
                if isinstance(n, ast.Compare) and isinstance(n.ops[0], ast.Is) and isinstance(n.comparators[0], ast.Constant) and n.comparators[0].value is None:
                    none_ok = True
        ok = none_ok and "_ActionConfigLoad" in classes
        ctx.oblige("C07.f", ok, c, "skip_default reduces a group field by field whether it was declared by dotted arguments (no action under the key) or owns a whole-group loader (class, dataclass, inner parser)" if ok else f"skip_default descends only into keys with no action{' / ' + ', '.join(sorted(classes)) if classes else ''}: a group declared as a dataclass-typed argument, class arguments or an inner parser (which own an _ActionConfigLoad under the key) is kept whole as soon as one field differs from its default, while the same group declared by dotted arguments loses its default-valued fields - same values, different dump", fn=fdd)

    # =========================================================== C07.e
    ff = ctx.func("_actions:filter_default_actions")
    comps = [n for n in ast.walk(ff) if isinstance(n, (ast.ListComp, ast.DictComp))]
    ctx.need(len(comps) == 2, "the list and the dict comprehension of filter_default_actions")
    conds = []
    for cmp_ in comps:
        ifs = cmp_.generators[0].ifs
        conds.append(ast.unparse(ifs[0]).replace(" ", "") if len(ifs) == 1 else None)
    tgt = []
    for cmp_ in comps:
        t = cmp_.generators[0].target
        tgt.append(t.id if isinstance(t, ast.Name) else (t.elts[1].id if isinstance(t, ast.Tuple) and isinstance(t.elts[1], ast.Name) else None))
    same = conds[0] is not None and conds[1] is not None and tgt[0] and tgt[1] and conds[0].replace(tgt[0], "@") == conds[1].replace(tgt[1], "@") and conds[0].startswith("notisinstance(")
    ctx.oblige("C07.e", same, comps[0], "the list of actions and the option-string table of a moved parser are filtered by the same class test (an action dropped from one but kept in the other is half-moved)", fn=ff)

    # =========================================================== C07.g
    # a default given as an instance of the group's class is turned into a nested mapping for every dataclass-like family
    # alike (dataclasses.asdict and pydantic's dump recurse by definition): the attrs arm must recurse too
    fdt = ctx.func("_signatures:dataclass_to_dict")
    conv = [c for c in calls_in(fdt) if call_leaf(c) == "asdict" and "attrs" in ast.unparse(c.func)]
    ctx.need(conv, "dataclass_to_dict: attrs.asdict(value)")
    for c in conv:
        rec = next((k.value for k in c.keywords if k.arg == "recurse"), None)
        ok = rec is None or (isinstance(rec, ast.Constant) and rec.value is True)
        ctx.oblige("C07.g", ok, c, "attrs instances are converted recursively, like dataclasses and pydantic models" if ok else "attrs.asdict(..., recurse=False) leaves nested attrs instances as objects: an attrs-typed argument with a default instance holding a nested attrs instance fails at add_argument (AttributeError: no attribute 'items'), the same fields declared as a dataclass, class arguments or dotted arguments are accepted", fn=fdt)

    return ctx.finish(
        "Narrow claim. The four declaration styles are not independent implementations: three are reduced to flat dotted "
        "actions plus one whole-group loader action. The check decides that every reduction step produces that common "
        "representation: dispatch order and delegation in add_argument, dest/option formation in _add_signature_parameter, "
        "prefixing of dest (dest form of the key) and option strings (raw key) for EVERY moved action through every arm of "
        "the move loop - following the call into ActionYesNo._add_dest_prefix -, unconditional extension of the outer "
        "parser's tables, the whole-group loader under the key in both group-producing styles. NOT decided: equality of "
        "results and dumps over all inputs, help output, positionals.",
        "syntax-directed rules with one level of callee inlining and CFG must-pass / reachability queries over _core.add_argument, _signatures._add_signature_parameter / _create_group_if_requested, _actions.ActionParser._move_parser_actions, ActionYesNo._add_dest_prefix, filter_default_actions",
    )
