"""Thorough tier: the checkers check themselves ("test the checker both ways").

For the property under check, scratch copies of the repository's package are made
under /var/tmp (never under /repo or /verif) and removed as soon as their verdict
is read:
  * breaking mutants - one canonical edit per rule instance (a textual edit of the
    current tree that still compiles); the check must exit 1 and name the rule
  * neutral variants - behaviour-preserving rewrites (ast.unparse round trip of
    every module: all positions, quoting and comments change; `pass` and docstring
    insertion in every function); the check must give the same verdict as on the
    unchanged tree.  A third variant inserts a logging call at the start of every function, loop
    and if body (logging calls are total for the CFG and neutral for block-shape
    rules).  Nine more variants rewrite one construct each into an equivalent
    spelling everywhere (jv/neutral.py: if/else swapped with the condition negated,
    `a and b` guards split into nested ifs, ternaries expanded, chained assignments
    split, `return f()` through a temporary, `with A, B` nested, `not in` as
    `not (.. in ..)`, key + "." as an f-string, annotations added); the source
    model's canonical form (srcmodel._Canon) makes them indistinguishable.
    A last variant renames every non-parameter local variable of
    every function without nested scopes: there the check may also fail closed
    (exit 2, "anchor vanished") but must never report a violation
The self-test never influences the verdict on /repo; if it fails, the run ends
with ANALYSIS-ERROR (exit 2): the checker is not to be believed.
A mutant whose anchor text is not present in the current tree (the tree was edited)
is skipped and counted as such.
"""

from __future__ import annotations

import ast
import json
import os
import shutil
import subprocess
import sys
import tempfile
from concurrent.futures import ThreadPoolExecutor
from typing import Dict, List, Optional, Tuple

from .neutral import KINDS as NEUTRAL_KINDS
from .report import VERIF_DIR
from .srcmodel import repo_root

# (name, file, old, new, expected rule prefix)
M = Tuple[str, str, str, str, str]

MUTANTS: Dict[str, List[M]] = {
    "C01": [
        ("yaml dumper writes unicode line breaks raw again", "_loaders_dumpers.py", "    DefaultDumper.add_representer(str, str_representer)\n", "", "C01.a"),
        ("yaml dumper forgets the paragraph separator", "_loaders_dumpers.py", 'for ch in "\\x85\\u2028\\u2029")', 'for ch in "\\x85\\u2028")', "C01.a"),
        ("json dumpers leave C1 controls raw", "_loaders_dumpers.py", 're.compile("[\\x7f-\\x9f\\u2028\\u2029\\ufffe\\uffff]")', 're.compile("[\\x7f\\u2028\\u2029\\ufffe\\uffff]")', "C01.a"),
        ("json compact dump not escaped", "_loaders_dumpers.py", 'return escape_json_chars_not_readable_as_yaml(json.dumps(data, separators=(",", ":"), **dump_json_kwargs))', 'return json.dumps(data, separators=(",", ":"), **dump_json_kwargs)', "C01.a"),
        ("skip_default reduces every dict value entry by entry", "_core.py", "                    if action is None or isinstance(action, (_ActionSubCommands, _ActionConfigLoad)):\n                        self._dump_delete_default_entries(val, default, prefix + key + \".\")", "                    self._dump_delete_default_entries(val, default, prefix + key + \".\")", "C01.g"),
        ("skip_default reduces init_args with the outer parser", "_core.py", "                        parser._dump_delete_default_entries(init_args, default[\"init_args\"])", "                        self._dump_delete_default_entries(init_args, default[\"init_args\"])", "C01.g"),
        ("skip_default dereferences a None default", "_core.py", "                    if not isinstance(default, dict) or val[\"class_path\"] != default.get(\"class_path\"):", "                    if val[\"class_path\"] != default.get(\"class_path\"):", "C01.g"),
        ("skip_default drops a changed class with default init_args", "_core.py", "                        if init_args == {}:\n                            del val[\"init_args\"]", "                        if init_args == {}:\n                            del subcfg[key]", "C01.g"),
        ("link targets stripped from defaults insist on a subcommand", "_link_arguments.py", "get_subcommands(parser, cfg, fail_no_subcommand=False)", "get_subcommands(parser, cfg)", "C01.g"),
        ("nested files of a multifile save are not serialised", "_core.py", "                                with parser_context(load_value_mode=self.parser_mode):\n                                    self._dump_cleanup_actions(branch_cfg, self._actions, serialize_kwargs)\n", "", "C01.f"),
        ("comments dump drops the quotes again", "_formatters.py", "        yaml.preserve_quotes = True\n", "", "C01.a"),
        ("comments dump sets preserve_quotes after loading", "_formatters.py", "        yaml.preserve_quotes = True\n        cfg = yaml.load(cfg)\n", "        cfg = yaml.load(cfg)\n        yaml.preserve_quotes = True\n", "C01.a"),
        ("dumper loses the float resolver", "_loaders_dumpers.py", "    set_float_implicit_resolver(DefaultDumper)\n", "    pass\n", "C01.a"),
        ("loader float regex: dot-only alternative re-admits '._'", "_loaders_dumpers.py", "|\\\\.[0-9][0-9_]*(?:[eE][-+][0-9]+)?", "|\\\\.[0-9_]+(?:[eE][-+][0-9]+)?", "C01.a"),
        ("registered type polarity flipped", "_typehints.py", "        if serialize:\n            val = registered_type.serializer(val)\n\n    # Enum", "        if not serialize:\n            val = registered_type.serializer(val)\n\n    # Enum", "C01.e"),
        ("registered serializer sees any value again", "_typehints.py", "        if not registered_type.is_value_of_type(val):\n            val = registered_type.deserializer(val)\n        if serialize:\n            val = registered_type.serializer(val)", "        if serialize:\n            val = registered_type.serializer(val)\n        elif not registered_type.is_value_of_type(val):\n            val = registered_type.deserializer(val)", "C01.e"),
        ("dict key cast polarity flipped", "_typehints.py", "cast = str if serialize else int", "cast = int if serialize else str", "C01.e"),
        ("print_config flag maps to unknown dump kwarg", "_actions.py", '"skip_default": "skip_default", "skip_null"', '"skip_default": "skip_defaults", "skip_null"', "C01.d"),
        ("enum serialised on the parse path", "_typehints.py", "        if serialize:\n            if isinstance(val, typehint):\n                val = val.name", "        if not serialize:\n            if isinstance(val, typehint):\n                val = val.name", "C01.e"),
    ],
    "C02": [
        ("enum of an Optional taken by position again (F63)", "_typehints.py", "        enum = get_optional_arg(typehint, Enum)\n", "        enum = typehint.__args__[0]\n", "C02.h"),
        ("root type without an arm", "_typehints.py", "    abc.Sequence,\n    abc.MutableSequence,\n}\nmapping_origin_types", "    abc.Sequence,\n}\nmapping_origin_types", "C02.e"),
        ("Union returns vals[-1] again", "_typehints.py", "val = next(v for v in reversed(vals) if not isinstance(v, Exception))", "val = vals[-1]", "C02.a"),
        ("Union returns vals[0]", "_typehints.py", "val = next(v for v in reversed(vals) if not isinstance(v, Exception))", "val = vals[0]", "C02.a"),
        ("List arm writes in place", "_typehints.py", "        if subtypehints is not None:\n            val = list(val)\n            for n, v in enumerate(val):", "        if subtypehints is not None:\n            for n, v in enumerate(val):", "C02.b"),
        ("validate skipped when defaults given", "_core.py", "            if not skip_validation:\n                self.validate(cfg, skip_required=skip_required)", "            if not skip_validation and not defaults:\n                self.validate(cfg, skip_required=skip_required)", "C02.c"),
        ("subclass spec edited in place", "_typehints.py", "    if isinstance(val, (dict, Namespace)):\n        val = Namespace(val)", "    if isinstance(val, dict):\n        val = Namespace(val)", "C02.b"),
    ],
    "C03": [
        ("parse_env no longer converts KeyError", "_core.py", '        except (TypeError, KeyError) as ex:\n            self.error(str(ex), ex)\n\n        self._logger.debug("Parsed environment variables")', '        except TypeError as ex:\n            self.error(str(ex), ex)\n\n        self._logger.debug("Parsed environment variables")', "C03.R1"),
        ("jsonschema action drops loader exceptions", "_jsonschema.py", "except (TypeError, ValueError) + get_jsonschema_exceptions() + get_loader_exceptions() as ex:\n                elem", "except (TypeError, ValueError) + get_jsonschema_exceptions() as ex:\n                elem", "C03.R4"),
        ("error exits with status 1", "_core.py", "        self.exit(2)", "        self.exit(1)", "C03.R3"),
        ("env list loading unguarded", "_core.py", "                    try:\n                        list_env_val = load_value(env_val)\n                        env_val = list_env_val if isinstance(list_env_val, list) else [env_val]\n                    except get_loader_exceptions():\n                        env_val = [env_val]", "                    list_env_val = load_value(env_val)\n                    env_val = list_env_val if isinstance(list_env_val, list) else [env_val]", "C03.R5"),
        ("argparse error not converted", "_core.py", "        except argparse.ArgumentError as ex:\n            self.error(str(ex), ex)\n\n        return namespace, args", "        except argparse.ArgumentError as ex:\n            raise ex\n\n        return namespace, args", "C03.R2"),
        ("Type arm imports outside any handler", "_typehints.py", "            try:\n                val = import_object(val)\n            except (ImportError, AttributeError) as ex:\n                raise_unexpected_value(f\"Expected an import path corresponding to a {typehint}: {ex}\", path, ex)", "            val = import_object(val)", "C03.R6"),
        ("get_content no longer converts decode errors", "_util.py", "        except UnicodeDecodeError as ex:\n            raise PathError", "        except UnicodeEncodeError as ex:\n            raise PathError", "C03.R6"),
        ("Callable arm no longer converts AttributeError", "_typehints.py", "            except (ImportError, AttributeError, ArgumentError) as ex:\n                raise_unexpected_value(f\"Type {typehint} expects a function", "            except (ImportError, ArgumentError) as ex:\n                raise_unexpected_value(f\"Type {typehint} expects a function", "C03.R6"),
        ("yaml_load converts ValueError only", "_loaders_dumpers.py", "    except (ValueError, AttributeError) as ex:  # raised by the constructors", "    except ValueError as ex:  # raised by the constructors", "C03.R5"),
        ("yaml_load no longer converts constructor ValueError", "_loaders_dumpers.py", "    except (ValueError, AttributeError) as ex:  # raised by the constructors", "    except KeyError as ex:  # raised by the constructors", "C03.R5"),
        ("sub-command settings stored whatever their type", "_core.py", "                elif action is not None and split_key_leaf(key)[-1] != action.dest:\n                    raise TypeError(f'Expected the settings of subcommand \"{key}\" to be a dict, but got: {value!r}')\n", "", "C03.R9"),
        ("sub-command settings check skips None", "_core.py", "                elif action is not None and split_key_leaf(key)[-1] != action.dest:", "                elif action is not None and value is not None and split_key_leaf(key)[-1] != action.dest:", "C03.R9"),
        ("TYPE_CHECKING blocks executed under a narrow handler", "_postponed_annotations.py", "                exec(compile(ast_exec, filename=\"<ast>\", mode=\"exec\"), self.aliases, self.aliases)\n            except Exception as ex:", "                exec(compile(ast_exec, filename=\"<ast>\", mode=\"exec\"), self.aliases, self.aliases)\n            except (NameError, ImportError) as ex:", "C03.R8"),
        ("Path probes text with a NUL", "_util.py", "            if isinstance(path, str) and \"\\0\" in path:\n                raise PathError(f\"Path contains a null byte: {path!r}\")\n", "", "C03.R11"),
        ("jsonnet ValueError not converted", "_jsonnet.py", "        except (RuntimeError, ValueError) as ex:\n            raise argument_error(f'Problems evaluating jsonnet", "        except RuntimeError as ex:\n            raise argument_error(f'Problems evaluating jsonnet", "C03.R11"),
        ("config-file key stored unchecked", "_core.py", "        elif isinstance(action, ActionConfigFile):\n            if value is not None and not isinstance(value, list):\n                raise TypeError(f'Parser key \"{key}\": expected the list of loaded config files, got: {value!r}')\n", "", "C03.R9"),
        ("subcommand parser does not inherit exit_on_error", "_actions.py", "        parser.exit_on_error = self.parent_parser.exit_on_error\n", "", "C03.R3"),
        ("ActionTypeHint no longer converts ValueError", "_typehints.py", "            except (TypeError, ValueError) as ex:\n                if self._is_valid_string(val):", "            except TypeError as ex:\n                if self._is_valid_string(val):", "C03.R4"),
    ],
    "C04": [
        ("one unreadable default config file drops them all again (F64)", "_core.py", "        readable_files = []\n        for key, file in default_config_files:\n            with suppress(TypeError):\n                readable_files.append((key, Path(file, mode=get_config_read_mode())))\n        return readable_files\n", "        with suppress(TypeError):\n            return [(k, Path(v, mode=get_config_read_mode())) for k, v in default_config_files]\n        return []\n", "C04.j"),
        ("parse_args merge swapped", "_core.py", "cfg = self.merge_config(namespace, cfg)", "cfg = self.merge_config(cfg, namespace)", "C04.a"),
        ("subcommand merge swapped", "_actions.py", "cfg[key] = subparser.merge_config(cfg.get(key, Namespace()), subnamespace)", "cfg[key] = subparser.merge_config(subnamespace, cfg.get(key, Namespace()))", "C04.a"),
        ("default config merge swapped", "_core.py", "cfg = self.merge_config(cfg_file, cfg)", "cfg = self.merge_config(cfg, cfg_file)", "C04.a"),
        ("update direction reversed", "_core.py", "cfg_to.update(cfg_from)", "cfg_from.update(cfg_to)", "C04.a"),
        ("env merged the wrong way", "_core.py", "            cfg = self.merge_config(cfg_env, cfg)", "            cfg = self.merge_config(cfg, cfg_env)", "C04.a"),
        ("appends applied before the update", "_core.py", "        cfg_to.update(cfg_from)\n        ActionTypeHint.apply_appends(self, cfg_to)", "        ActionTypeHint.apply_appends(self, cfg_to)\n        cfg_to.update(cfg_from)", "C04.b"),
    ],
    "C05": [
        ("raw keys in _apply_actions", "_core.py", "keys = [del_clash_mark(k) for k in cfg.__dict__.keys()]", "keys = list(cfg.__dict__.keys())", "C05.b"),
        ("raw keys in discard_init_args", "_typehints.py", "            key = del_clash_mark(key)\n            action = _find_action(parser, key)", "            action = _find_action(parser, key)", "C05.b"),
        ("strings bypass the checker in the object channel", "_core.py", "            with parser_context(parent_parser=self, lenient_check=True):\n                value = self._check_value_key(action, value, action_dest, prev_cfg)\n            if isinstance(action, _ActionConfigLoad):", "            with parser_context(parent_parser=self, lenient_check=True):\n                if not isinstance(value, str):\n                    value = self._check_value_key(action, value, action_dest, prev_cfg)\n            if isinstance(action, _ActionConfigLoad):", "C05.a"),
        ("jsonschema argv path skips the checker", "_jsonschema.py", "        val = self._check_type(args[2])\n        if not self._with_meta:", "        val = args[2]\n        if not self._with_meta:", "C05.a"),
    ],
    "C06": [
        ("unknown subcommand name checked only when a decision is asked for (F59)", "_actions.py", "        if fail_no_subcommand or subcommand is not None:\n", "        if fail_no_subcommand:\n", "C06.d"),
        ("moved parser's required keys use the raw option name", "_actions.py", 'required_args = {dest + "." + x for x in subparser.required_args}', 'required_args = {prefix + "." + x for x in subparser.required_args}', "C06.d"),
        ("unknown subcommand names rejected only when required", "_actions.py", "            if subcommand not in action._name_parser_map:", "            if action._required and subcommand not in action._name_parser_map:", "C06.d"),
        ("known key skipped for any falsy value", "_core.py", "if (val is None and skip_none) or lenient_check.get():", "if (not val and skip_none) or lenient_check.get():", "C06.a"),
        ("meta keys skipped silently", "_core.py", "                    if _is_branch_key(self, key):\n                        continue", "                    if _is_branch_key(self, key) or is_meta_key(key):\n                        continue", "C06.a"),
        ("unknown key only logged", "_core.py", "                    raise NSKeyError(f\"Key '{key}' is not expected\")", "                    self._logger.debug(f\"Key {key} is not expected\")", "C06.a"),
        ("init_args bypass the class parser", "_typehints.py", "        init_args = parser.parse_object(init_args, cfg_base=prev_init_args, defaults=sub_defaults.get())\n        if init_args:", "        if prev_init_args is None:\n            init_args = parser.parse_object(init_args, cfg_base=prev_init_args, defaults=sub_defaults.get())\n        if init_args:", "C06.e"),
        ("leftover argv ignored when positional optionals enabled", "_core.py", "            if unk:\n                self.error(f'Unrecognized arguments: {\" \".join(unk)}')", "            if unk and not supports_optionals_as_positionals(self):\n                self.error(f'Unrecognized arguments: {\" \".join(unk)}')", "C06.b"),
        ("required dropped for positionals", "_core.py", "        if action.required:\n            parser.required_args.add(action.dest)  # type: ignore[union-attr]\n            action._required = True  # type: ignore[attr-defined]\n            action.required = False", "        if action.required:\n            if action.option_strings:\n                parser.required_args.add(action.dest)  # type: ignore[union-attr]\n            action._required = True  # type: ignore[attr-defined]\n            action.required = False", "C06.d"),
        ("parse_known_args opened to any caller", "_core.py", 'if caller not in {"jsonargparse", "argcomplete"}:', 'if caller not in {"jsonargparse", "argcomplete", None}:', "C06.c"),
    ],
    "C07": [
        ('yes/no action of a moved parser prefixed with the raw key again (F55)', '_actions.py', '        self.dest = prefix.replace("-", "_") + "." + self.dest\n        self.option_strings[0]', '        self.dest = prefix + "." + self.dest\n        self.option_strings[0]', 'C07.c'),
        ('general arm dest from raw key', '_actions.py', '                action.dest = dest + "." + action.dest', '                action.dest = prefix + "." + action.dest', 'C07.c'),
        ('moved option strings prefixed with the dest form', '_actions.py', 'return re.sub("^--", "--" + prefix + ".", key)', 'return re.sub("^--", "--" + dest + ".", key)', 'C07.c'),
        ('store_true actions not moved', '_actions.py', '            if isinstance(action, ActionYesNo):\n                action._add_dest_prefix(prefix)', '            if isinstance(action, argparse._StoreTrueAction):\n                continue\n            if isinstance(action, ActionYesNo):\n                action._add_dest_prefix(prefix)', 'C07.c'),
        ('yes/no actions not collected', '_actions.py', '                action.option_strings = [add_prefix(key) for key in action.option_strings]\n            actions.append(action)', '                action.option_strings = [add_prefix(key) for key in action.option_strings]\n                actions.append(action)', 'C07.c'),
        ('groups only extended with description', '_actions.py', '        parser._action_groups.extend([base_action_group] + extra_action_groups)', '        if description is not None:\n            parser._action_groups.extend([base_action_group] + extra_action_groups)', 'C07.c'),
        ('group dest raw', '_actions.py', '                group.dest = dest + "." + group.dest', '                group.dest = prefix + "." + group.dest', 'C07.c'),
        ('no prefix for --no_ option', '_actions.py', '"^--" + self._no_prefix, "--" + self._no_prefix + prefix + ".", self.option_strings[-1]', '"^--" + self._no_prefix, "--" + prefix + ".", self.option_strings[-1]', 'C07.c'),
        ('dataclass tested after type hints', '_core.py', '            if is_dataclass_like(kwargs["type"]):\n                nested_key = args[0].lstrip("-")\n                self.add_class_arguments(kwargs.pop("type"), nested_key, **kwargs)\n                return _find_action(parser, nested_key)\n            if ActionTypeHint.is_supported_typehint(kwargs["type"]):', '            if ActionTypeHint.is_supported_typehint(kwargs["type"]) and not is_dataclass_like(kwargs["type"]):\n                pass\n            if is_dataclass_like(kwargs["type"]):\n                nested_key = args[0].lstrip("-")\n                self.add_class_arguments(kwargs.pop("type"), nested_key)\n                return _find_action(parser, nested_key)\n            if ActionTypeHint.is_supported_typehint(kwargs["type"]):', 'C07.a'),
        ('dataclass key loses dots', '_core.py', 'nested_key = args[0].lstrip("-")', 'nested_key = args[0].strip("-").replace(".", "_")', 'C07.a'),
        ('dataclass arm falls through', '_core.py', '                self.add_class_arguments(kwargs.pop("type"), nested_key, **kwargs)\n                return _find_action(parser, nested_key)', '                self.add_class_arguments(kwargs["type"], nested_key, **kwargs)', 'C07.a'),
        ('class parameter key without separator', '_signatures.py', 'dest = (nested_key + "." if nested_key else "") + name', 'dest = (nested_key + "_" if nested_key else "") + name', 'C07.b'),
        ('class parameter option single dash', '_signatures.py', 'args = [dest if is_required and as_positional else "--" + dest]', 'args = [dest if is_required and as_positional else "-" + dest]', 'C07.b'),
        ('loader under group name only with docs', '_signatures.py', '            if config_load and nested_key is not None:', '            if config_load and nested_key is not None and doc_group:', 'C07.d'),
        ('inner parser without whole-group loader', '_actions.py', '        parser.add_argument(args[0], action=_ActionConfigLoad)\n', '', 'C07.d'),
        ('filter differs for dict', '_actions.py', '    return {k: a for k, a in actions.items() if not isinstance(a, default)}', '    return {k: a for k, a in actions.items() if not isinstance(a, default[:1])}', 'C07.e'),
    ],
    "C08": [
        ("validate works on the caller's object", "_core.py", "        cfg = ccfg = cfg.clone()\n        if isinstance(branch, str):", "        ccfg = cfg\n        if isinstance(branch, str):", "C08.a"),
        ("parse_object without copy", "_core.py", "cfg_apply = self._apply_actions(recreate_branches(cfg_obj), prev_cfg=cfg)", "cfg_apply = self._apply_actions(cfg_obj, prev_cfg=cfg)", "C08.a"),
        ("merge_config edits cfg_to", "_core.py", "        cfg_from = cfg_from.clone()\n        cfg_to = cfg_to.clone()", "        cfg_from = cfg_from.clone()", "C08.a"),
        ("recreate_branches shares lists", "_namespace.py", "    elif isinstance(data, list):\n        new_data = [recreate_branches(v, skip_keys) for v in data]", "    elif isinstance(data, list):\n        new_data = data", "C08.a"),
        ("cwd restore outside finally", "_util.py", "    finally:\n        current_path_dir.reset(token)\n        if chdir:\n            os.chdir(chdir)", "    finally:\n        current_path_dir.reset(token)\n    if chdir:\n        os.chdir(chdir)", "C08.b"),
        ("defaults handed out uncopied", "_core.py", "cfg[action.dest] = recreate_branches(action.default)", "cfg[action.dest] = action.default", "C08.c"),
        ("strip_meta shortcut for empty configs", "_namespace.py", "    return recreate_branches(cfg, skip_keys=meta_keys)\n", "    if cfg:\n        cfg = recreate_branches(cfg, skip_keys=meta_keys)\n    return cfg\n", "C08.a"),
        ("Dict arm writes in place", "_typehints.py", "        else:\n            val = val.copy()\n        if subtypehints is not None:\n            if subtypehints[0] == int:", "        if subtypehints is not None:\n            if subtypehints[0] == int:", "C08.a"),
    ],
    "C09": [
        ("discard only for non-zero exits (seed C09-8C on the code after F60)", "_core.py", "        except BaseException:\n            _ActionPrintConfig.discard_print_config_request(self)", "        except BaseException as ex:\n            if getattr(ex, \"code\", 1):\n                _ActionPrintConfig.discard_print_config_request(self)", "C09.b"),
        ("argument loop discards the request only on SystemExit again (F60)", "_core.py", "        except BaseException:\n            _ActionPrintConfig.discard_print_config_request(self)", "        except SystemExit:\n            _ActionPrintConfig.discard_print_config_request(self)", "C09.b"),
        ("request removed only after the dump again (F60)", "_actions.py", "            dump_kwargs = parser.print_config\n            delattr(parser, \"print_config\")\n            if key is not None:\n                cfg = cfg[key]\n            with parser_context(lenient_check=True):\n                sys.stdout.write(subparser.dump(cfg, **dump_kwargs))\n", "            dump_kwargs = parser.print_config\n            if key is not None:\n                cfg = cfg[key]\n            with parser_context(lenient_check=True):\n                sys.stdout.write(subparser.dump(cfg, **dump_kwargs))\n            delattr(parser, \"print_config\")\n", "C09.b"),
        ("TYPE_CHECKING names shared by all visitors again", "_postponed_annotations.py", "    def __init__(self) -> None:\n        self.type_checking_names: List[str] = []\n", "    type_checking_names: List[str] = []\n", "C09.c"),
        ("config files are parsed while a print_config request can be served", "_actions.py", "), skip_apply_links(), _ActionPrintConfig.skip_print_config():", "), skip_apply_links():", "C09.b"),
        ("print_config request survives --help", "_core.py", "        except SystemExit:\n            _ActionPrintConfig.discard_print_config_request(self)\n            raise\n", "", "C09.b"),
        ("shared skip set grows", "_typehints.py", '            kwargs["skip"] = {*kwargs.get("skip", set()), skip_args}', '            kwargs.setdefault("skip", set()).add(skip_args)', "C09.c"),
        ("dataclass default stored in the action's dict", "_typehints.py", '            sub_add_kwargs = {**sub_add_kwargs, "default": prev_val}', '            sub_add_kwargs["default"] = prev_val', "C09.c"),
        ("parser_context reset not in finally", "_common.py", "    try:\n        yield\n    finally:\n        for context_var, token in context_var_tokens:\n            context_var.reset(token)", "    yield\n    for context_var, token in context_var_tokens:\n        context_var.reset(token)", "C09.a"),
        ("parse_known_args outside parse_kwargs_context", "_core.py", '            with _ActionSubCommands.parse_kwargs_context({"env": env, "defaults": defaults}):\n                cfg, unk = self.parse_known_args(args=args, namespace=cfg)\n                cfg, unk = self._positional_optionals(cfg, unk)', '            cfg, unk = self.parse_known_args(args=args, namespace=cfg)\n            with _ActionSubCommands.parse_kwargs_context({"env": env, "defaults": defaults}):\n                cfg, unk = self._positional_optionals(cfg, unk)', "C09.a"),
        ("pending print_config survives errors", "_core.py", "        _ActionPrintConfig.discard_print_config_request(self)\n", "", "C09.b"),
        ("shtab edits the live parser", "_completions.py", "        parser = deepcopy(parser)  # the live parser must stay usable after printing the script\n", "", "C09.d"),
        ("class help writes the class-level dict", "_actions.py", '        sub_add_kwargs = dict(self.sub_add_kwargs)\n        if ActionTypeHint.is_callable_typehint(typehint) and hasattr(typehint, "__args__"):\n            sub_add_kwargs["skip"]', '        sub_add_kwargs = self.sub_add_kwargs\n        if ActionTypeHint.is_callable_typehint(typehint) and hasattr(typehint, "__args__"):\n            sub_add_kwargs["skip"]', "C09.c"),
        ("lenient flag leaks: sub_defaults reset dropped", "_typehints.py", "        t = sub_defaults.set(True)\n        try:\n            yield\n        finally:\n            sub_defaults.reset(t)", "        sub_defaults.set(True)\n        yield", "C09.a"),
    ],
    "C10": [
        ("registered type converted again", "_typehints.py", "        elif not serialize and not registered_type.is_value_of_type(val):\n            val = registered_type.deserializer(val)", "        elif not serialize:\n            val = registered_type.deserializer(val)", "C10.a"),
        ("enum looked up again", "_typehints.py", "        elif not isinstance(val, typehint):\n            try:\n                val = typehint[val]", "        else:\n            try:\n                val = typehint[val]", "C10.a"),
        ("Type arm imports classes again", "_typehints.py", "        elif not serialize and not isinstance(val, type):\n            path = val", "        elif not serialize:\n            path = val", "C10.a"),
    ],
    "C11": [
        ("update copies leaves only", "_namespace.py", "            for key, val in value.items(branches=True):\n                if isinstance(val, Namespace):\n                    if not val and prefix + key not in self:\n                        self[prefix + key] = Namespace()\n                elif not only_unset", "            for key, val in value.items():\n                if not only_unset", "C11.c"),
        ("as_dict drops null elements of lists", "_namespace.py", "        return type(val)(namespaces_as_dicts(v) for v in val)", "        return type(val)(namespaces_as_dicts(v) for v in val if v is not None)", "C11.d"),
        ("as_dict converts only lists made of namespaces", "_namespace.py", "    if type(val) in {list, tuple}:", "    if type(val) in {list, tuple} and all(isinstance(v, Namespace) for v in val):", "C11.d"),
        ("as_dict has no dict arm", "_namespace.py", "    if isinstance(val, dict):\n        return {k: namespaces_as_dicts(v) for k, v in val.items()}\n", "", "C11.d"),
        ("as_dict converts one level of dict values", "_namespace.py", "        return {k: namespaces_as_dicts(v) for k, v in val.items()}", "        return {k: v.as_dict() if isinstance(v, Namespace) else v for k, v in val.items()}", "C11.d"),
        ("items() un-marks only branches", "_namespace.py", "            key = del_clash_mark(key)\n            if isinstance(val, Namespace):\n                if branches:", "            if isinstance(val, Namespace):\n                key = del_clash_mark(key)\n                if branches:", "C11.a"),
        ("__setattr__ stores unmarked names", "_namespace.py", "            super().__setattr__(add_clash_mark(name), value)", "            super().__setattr__(name, value)", "C11.a"),
        ("__contains__ looks up unmarked", "_namespace.py", "        return leaf_key in parent_ns.__dict__", "        return del_clash_mark(leaf_key) in parent_ns.__dict__", "C11.a"),
        ("pop dereferences any parent", "_namespace.py", "        if not isinstance(parent_ns, Namespace):\n            return default", "        if parent_ns is None:\n            return default", "C11.b"),
        ("__delitem__ uses _parse_key", "_namespace.py", "        leaf_key, parent_ns, _ = self._parse_required_key(key)\n        del parent_ns.__dict__[leaf_key]", "        leaf_key, parent_ns, _ = self._parse_key(key)\n        del parent_ns.__dict__[leaf_key]", "C11.b"),
    ],
    "C12": [
        ("subcommand popped for every class", "_cli.py", "    if inspect.isclass(component) and get_class_methods(component):\n        subcommand = cfg.pop(\"subcommand\")", "    if inspect.isclass(component):\n        subcommand = cfg.pop(\"subcommand\", None)", "C12.a"),
        ("component called twice", "_cli.py", "    return component(**cfg)", "    component(**cfg)\n    return component(**cfg)", "C12.b"),
        ("classes not instantiated before the call", "_cli.py", "    cfg = parser.parse_args(args)\n    init = parser.instantiate_classes(cfg)\n    components_ns", "    cfg = parser.parse_args(args)\n    init = cfg\n    components_ns", "C12."),
        ("method config popped unconditionally", "_cli.py", '        if not isinstance(method_object, property) and not has_parameter(method_object, "config"):\n            subcommand_cfg.pop("config", None)', '        subcommand_cfg.pop("config", None)', "C12.a"),
        ("return value dropped for coroutines", "_cli.py", '        return __import__("asyncio").run(component(**cfg))', '        __import__("asyncio").run(component(**cfg))\n        return None', "C12."),
    ],
    "C13": [
        ('remove dropped in args_and_kwargs', "_parameter_resolvers.py", '                params = remove_given_parameters(node, params, removed_params, instance_given=instance_given)\n', '', 'C13.a'),
        ('remove only under super', "_parameter_resolvers.py", '                params = remove_given_parameters(node, params, removed_params, instance_given=instance_given)\n                if params:', '                if params:', 'C13.a'),
        ('removed names filter dropped', "_parameter_resolvers.py", '        params = [p for p in params if p.name not in removed_params]\n', '', 'C13.a'),
        ('remove dropped in match_call', "_parameter_resolvers.py", '            params = remove_given_parameters(node, params)\n', '', 'C13.a'),
        ('positional filter dropped', "_parameter_resolvers.py", '    params = [p for n, p in enumerate(params) if n not in given_args]\n', '    params = list(params)\n', 'C13.b'),
        ('keyword filter uses input', "_parameter_resolvers.py", '    params = [p for p in params if p.name not in given_kwargs]', '    params = [p for p in input_params if p.name not in given_kwargs]', 'C13.b'),
        ('starred counts as position', "_parameter_resolvers.py", 'return [n for n, a in enumerate(node.args) if not isinstance(a, ast.Starred)]', 'return [n for n, a in enumerate(node.args)]', 'C13.b'),
        ('kwargs kinds lose POSITIONAL_OR_KEYWORD', "_parameter_resolvers.py", 'kwargs = [p for p in params if p.kind in {kinds.KEYWORD_ONLY, kinds.POSITIONAL_OR_KEYWORD}]', 'kwargs = [p for p in params if p.kind in {kinds.KEYWORD_ONLY}]', 'C13.c'),
        ('args takes positional or keyword', "_parameter_resolvers.py", 'args = [p for p in params if p.kind == kinds.POSITIONAL_ONLY]', 'args = [p for p in params if p.kind == kinds.POSITIONAL_OR_KEYWORD]', 'C13.c'),
        ('kwargs slot kept', "_parameter_resolvers.py", 'params = params[:kwargs_idx] + kwargs + params[kwargs_idx + 1 :]', 'params = params[:kwargs_idx] + kwargs + params[kwargs_idx:]', 'C13.c'),
        ('args slot off by one', "_parameter_resolvers.py", 'params = params[:args_idx] + args + params[args_idx + 1 :]', 'params = params[: args_idx + 1] + args + params[args_idx + 1 :]', 'C13.c'),
        ('kwargs idx adjust wrong', "_parameter_resolvers.py", 'kwargs_idx += len(args) - 1', 'kwargs_idx += len(args)', 'C13.c'),
        ('dedup dropped', "_parameter_resolvers.py", '        kwargs = [p for p in kwargs if p.name not in existing_names]\n', '', 'C13.c'),
        ('guard >= 0 to > 0', "_parameter_resolvers.py", '    if kwargs_idx >= 0:\n        existing_names', '    if kwargs_idx > 0:\n        existing_names', 'C13.c'),
        ('group keeps positional only', "_parameter_resolvers.py", '            if param.kind != kinds.POSITIONAL_ONLY:\n                params_dict[param.name].append(param)', '            params_dict[param.name].append(param)', 'C13.c'),
        ('self dropped always', "_parameter_resolvers.py", '    if parent:\n        params = params[1:]\n    args_idx', '    params = params[1:]\n    args_idx', 'C13.d'),
        ('indexes before slice', "_parameter_resolvers.py", '    if parent:\n        params = params[1:]\n    args_idx = get_arg_kind_index(params, kinds.VAR_POSITIONAL)\n    kwargs_idx = get_arg_kind_index(params, kinds.VAR_KEYWORD)\n', '    args_idx = get_arg_kind_index(params, kinds.VAR_POSITIONAL)\n    kwargs_idx = get_arg_kind_index(params, kinds.VAR_KEYWORD)\n    if parent:\n        params = params[1:]\n', 'C13.d'),
        ('attrs from other param', "_parameter_resolvers.py", '**{a: getattr(param, a) for a in parameter_attributes}', '**{a: getattr(params[0], a) for a in parameter_attributes}', 'C13.d'),
        ('returned idx swapped', "_parameter_resolvers.py", 'return params, args_idx, kwargs_idx, doc_params, stubs', 'return params, kwargs_idx, args_idx, doc_params, stubs', 'C13.d'),
        ('pop get set widened', "_parameter_resolvers.py", 'node.func.attr in {"pop", "get"}', 'node.func.attr in {"pop", "get", "setdefault"}', 'C13.e'),
        ('receiver test dropped', "_parameter_resolvers.py", '        and value_dump == ast.dump(node.func.value)\n', '', 'C13.e'),
        ('name from args[1]', "_parameter_resolvers.py", '        name = ast_get_constant_value(node.args[0])\n        if ast_is_constant(node.args[1])', '        name = ast_get_constant_value(node.args[1])\n        if ast_is_constant(node.args[1])', 'C13.e'),
        ('pop kind positional', "_parameter_resolvers.py", '            default=default,\n            kind=kinds.KEYWORD_ONLY,\n            doc=doc_params.get(name),', '            default=default,\n            kind=kinds.POSITIONAL_ONLY,\n            doc=doc_params.get(name),', 'C13.e'),
        ('super self test dropped', "_parameter_resolvers.py", '        and self_name == args[1].id\n', '', 'C13.f'),
        ('super offset lost', "_parameter_resolvers.py", 'current_mro.set((classes, idx + offset))', 'current_mro.set((classes, offset))', 'C13.f'),
        ('mro start off', "_parameter_resolvers.py", 'enumerate(classes[idx + 1 :], start=idx + 1)', 'enumerate(classes[idx + 1 :], start=idx)', 'C13.f'),
        ('mro includes self', "_parameter_resolvers.py", 'enumerate(classes[idx + 1 :], start=idx + 1)', 'enumerate(classes[idx:], start=idx)', 'C13.f'),
        ('mro set after', "_parameter_resolvers.py", '            current_mro.set((classes, num))\n            return get_parameters_fn(cls, method, logger=logger)', '            return get_parameters_fn(cls, method, logger=logger)', 'C13.f'),
        ('remainder includes self', "_parameter_resolvers.py", 'remainder = classes[num + 1 :] + [object]', 'remainder = classes[num:] + [object]', 'C13.f'),
        ('assumptions before ast', "_parameter_resolvers.py", '        get_parameters_from_ast,\n        get_parameters_from_stubs,\n        get_parameters_by_assumptions,', '        get_parameters_by_assumptions,\n        get_parameters_from_ast,\n        get_parameters_from_stubs,', 'C13.g'),
        ('narrow except in chain', "_parameter_resolvers.py", '        except Exception as ex:\n            logger.debug(\n                "%s failed', '        except SourceNotAvailable as ex:\n            logger.debug(\n                "%s failed', 'C13.g'),
        ('truthy break', "_parameter_resolvers.py", '        if params is not None:\n            break\n    return params or []', '        if params:\n            break\n    return params or []', 'C13.g'),
        ('if polarity swapped', "_parameter_resolvers.py", 'body = node.body if condition else node.orelse', 'body = node.orelse if condition else node.body', 'C13.h'),
        ('not negation dropped', "_parameter_resolvers.py", '            if is_test_not:\n                condition = not condition\n', '', 'C13.h'),
        ('NOT_ACCEPTED cmp', "_parameter_resolvers.py", '            if len(params) < non_get_pop_count:\n                defaults', '            if len(params) <= non_get_pop_count:\n                defaults', 'C13.i'),
        ('unconditional cmp', "_parameter_resolvers.py", 'if len(params) >= non_get_pop_count and', 'if len(params) > non_get_pop_count and', 'C13.i'),
        ('pop counted as branch', "_parameter_resolvers.py", '        if not (params[0].origin or "").startswith(param_kwargs_pop_or_get):  # type: ignore[union-attr]\n            non_get_pop_count += 1', '        non_get_pop_count += 1', 'C13.i'),
        ("explicit instance of Class.m(self, ...) counted as a parameter again (F58)", "_parameter_resolvers.py", "        given_args = {n - 1 for n in given_args if n > 0}\n", "        pass\n", "C13.b"),
        ("instance flag not passed on", "_parameter_resolvers.py", "params = remove_given_parameters(node, params, removed_params, instance_given=instance_given)", "params = remove_given_parameters(node, params, removed_params)", "C13.b"),
        ("instance name read from args.args[0] again (F62)", "_parameter_resolvers.py", "            arg_nodes = getattr(self.component_node.args, \"posonlyargs\", []) + self.component_node.args.args\n            self.self_name = arg_nodes[0].arg if self.parent else None\n", "            self.self_name = self.component_node.args.args[0].arg if self.parent else None\n", "C13.g"),
        ("keyword-only defaults joined on the wrong side", "_parameter_resolvers.py", "        default_nodes = default_nodes + node.kw_defaults", "        default_nodes = node.kw_defaults + default_nodes", "C13.d"),
        ("default nodes ignore keyword-only parameters again (F56)", "_parameter_resolvers.py", "        arg_nodes = arg_nodes + node.kwonlyargs\n        default_nodes = default_nodes + node.kw_defaults\n", "", "C13.d"),
        ("positional-only names paired after the ordinary ones", "_parameter_resolvers.py", 'arg_nodes = getattr(node, "posonlyargs", []) + node.args', 'arg_nodes = node.args + getattr(node, "posonlyargs", [])', "C13.d"),
        ("defaults left-aligned", "_parameter_resolvers.py", "default_nodes = [None] * (len(arg_nodes) - len(node.defaults)) + node.defaults", "default_nodes = node.defaults + [None] * (len(arg_nodes) - len(node.defaults))", "C13.d"),
    ],
    "C14": [
        ("stale dict_kwargs kept on the command line path", "_typehints.py", '                    prev_val.pop("dict_kwargs", None)  # Namespace.update merges by leaf', '                    pass  # Namespace.update merges by leaf', "C14.e"),
        ("stale dict_kwargs kept on the merge path", "_typehints.py", '        del_kwargs = prev_val.pop("dict_kwargs")', '        del_kwargs = prev_val.get("dict_kwargs")', "C14.e"),
        ("callable return type accepted without subclass test", "_typehints.py", "                    if is_subclass_or_implements_protocol(return_type, typehint):\n                        not_subclass = False", "                    if return_type is not None:\n                        not_subclass = False", "C14.a"),
        ("class_path not normalised", "_typehints.py", '            val["class_path"] = get_import_path(val_class)\n            val = adapt_class_type(val, serialize, instantiate_classes, sub_add_kwargs, prev_val=prev_val)', "            val = adapt_class_type(val, serialize, instantiate_classes, sub_add_kwargs, prev_val=prev_val)", "C14.b"),
        ("nested classes not built first", "_typehints.py", "    if instantiate_classes:\n        init_args = parser.instantiate_classes(init_args)", "    if instantiate_classes:\n        if prev_val is None:\n            init_args = parser.instantiate_classes(init_args)", "C14.c"),
        ("subclass test skipped for abstract bases", "_typehints.py", "            if not is_subclass_or_implements_protocol(val_class, typehint):\n                not_subclass = True", "            if not is_subclass_or_implements_protocol(val_class, typehint) and not inspect.isabstract(typehint):\n                not_subclass = True", "C14.a"),
        ("dict_kwargs not passed to the constructor", "_typehints.py", "        return instantiator_fn(val_class, **{**init_args, **dict_kwargs})", "        return instantiator_fn(val_class, **{**init_args})", "C14.c"),
    ],
    "C15": [
        ("links stripped after validation only when validating", "_core.py", "        if skip_link_targets:\n            ActionLink.strip_link_target_keys(self, cfg)\n\n        with parser_context(load_value_mode=self.parser_mode):\n            if not skip_validation:\n                self.validate(cfg)\n", "        with parser_context(load_value_mode=self.parser_mode):\n            if not skip_validation:\n                self.validate(cfg)\n            if skip_link_targets and not skip_validation:\n                ActionLink.strip_link_target_keys(self, cfg)\n", "C15.c"),
        ("user-supplied target value kept", "_link_arguments.py", "                if target_key not in cfg:\n                    logger.debug(f\"Link '{action.option_strings[0]}' ignored since target not found.\")\n                    return", "                if target_key not in cfg or cfg[target_key] is not None:\n                    return", "C15.d"),
        ("only the first option string re-pointed", "_link_arguments.py", "            for key in self.target[1].option_strings:\n                parser._option_string_actions[key] = self", "            for key in self.target[1].option_strings[:1]:\n                parser._option_string_actions[key] = self", "C15.b"),
        ("validation before links", "_core.py", "            try:\n                ActionLink.apply_parsing_links(self, cfg)\n            except Exception as ex:\n                self.error(str(ex), ex)\n\n            if not skip_validation:\n                self.validate(cfg, skip_required=skip_required)", "            if not skip_validation:\n                self.validate(cfg, skip_required=skip_required)\n\n            try:\n                ActionLink.apply_parsing_links(self, cfg)\n            except Exception as ex:\n                self.error(str(ex), ex)", "C15.a"),
        ("link target stays required", "_link_arguments.py", "        if target in parser.required_args:\n            parser.required_args.remove(target)", "        if target in parser.required_args and compute_fn is None:\n            parser.required_args.remove(target)", "C15.b"),
    ],
    "C16": [
        ("cycle check after the parser was modified again (F65)", "_link_arguments.py", "        # Initialize link action\n", "        if apply_on == \"instantiate\":\n            self.instantiation_order(parser)\n\n        # Initialize link action\n", "C16.g"),
        ("recursion into visited nodes", "_link_arguments.py", "            elif not visited[target]:", "            else:", "C16.c"),
        ("post-order append instead of prepend", "_link_arguments.py", "        order.insert(0, source)", "        order.append(source)", "C16.c"),
        ("edge direction reversed", "_link_arguments.py", "                    graph.add_edge(source_action.dest, target)", "                    graph.add_edge(target, source_action.dest)", "C16.a"),
        ("links applied after building type-hint components", "_core.py", "            ActionLink.apply_instantiation_links(self, cfg, target=component.dest)\n            if isinstance(component, ActionTypeHint):", "            if isinstance(component, ActionTypeHint):\n                ActionLink.apply_instantiation_links(self, cfg, target=component.dest)", "C16.b"),
        ("cycle check before registration", "_link_arguments.py", "        # Add link action to group to show in help\n        parser._links_group._group_actions.append(self)\n\n        # Check instantiation link does not create cycle\n        if apply_on == \"instantiate\":\n            try:\n                self.instantiation_order(parser)\n            except ValueError as ex:\n                raise ValueError(f\"Invalid link {source[0]} --> {target}: {ex}\") from ex\n", "        # Check instantiation link does not create cycle\n        if apply_on == \"instantiate\":\n            try:\n                self.instantiation_order(parser)\n            except ValueError as ex:\n                raise ValueError(f\"Invalid link {source[0]} --> {target}: {ex}\") from ex\n\n        # Add link action to group to show in help\n        parser._links_group._group_actions.append(self)\n", "C16.a"),
        ("applied links not recorded", "_link_arguments.py", "            applied_links.add(action)\n", "", "C16.d"),
    ],
    "C17": [
        ("unknown subcommand name from the environment dropped again (F61)", "_core.py", "                cfg[action.dest] = subcommand = self._check_value_key(action, env_val, action.dest, cfg)\n                if env_val in action.choices:\n", "                if env_val in action.choices:\n                    cfg[action.dest] = subcommand = self._check_value_key(action, env_val, action.dest, cfg)\n", "C17.i"),
        ("default config file picks the subcommand", "_core.py", "with _ActionPrintConfig.skip_print_config(), _ActionSubCommands.not_single_subcommand():", "with _ActionPrintConfig.skip_print_config():", "C17.h"),
        ("default config fold forces a decision", "_core.py", "                            skip_required=True,\n                            fail_no_subcommand=False,\n", "                            skip_required=True,\n", "C17.h"),
        ("other sections only partly deleted", "_actions.py", "for key in [k for k in subcommand_keys if k != subcommand]:", "for key in subcommand_keys[1:]:", "C17.c"),
        ("other sections deleted without the prefix", "_actions.py", "                del cfg[prefix + key]", "                del cfg[key]", "C17.c"),
        ("other sections deleted only when they are non-empty", "_actions.py", "                del cfg[prefix + key]", "                if cfg[prefix + key]:\n                    del cfg[prefix + key]", "C17.c"),
        ("fallback overrides the explicit key", "_actions.py", "        elif len(subcommand_keys) > 0 and (fail_no_subcommand or require_single):", "        if len(subcommand_keys) > 0 and (fail_no_subcommand or require_single):", "C17.b"),
        ("fallback takes the last candidate", "_actions.py", "cfg[dest] = subcommand = subcommand_keys[0]", "cfg[dest] = subcommand = subcommand_keys[-1]", "C17.b"),
        ("candidates sorted by name", "_actions.py", "[k for k in action.choices.keys() if isinstance(cfg.get(prefix + k), Namespace)]", "[k for k in sorted(action.choices.keys()) if isinstance(cfg.get(prefix + k), Namespace)]", "C17.b"),
        ("fallback choice not stored", "_actions.py", "cfg[dest] = subcommand = subcommand_keys[0]", "subcommand = subcommand_keys[0]", "C17.a"),
        ("argv name stored only for known subcommands", "_actions.py", "        namespace[self.dest] = subcommand\n\n        # parse arguments\n        if subcommand in self._name_parser_map:\n", "        # parse arguments\n        if subcommand in self._name_parser_map:\n            namespace[self.dest] = subcommand\n", "C17.a"),
        ("nested levels only when the section got defaults", "_actions.py", "            if subparser._subparsers is not None:\n                _ActionSubCommands.handle_subcommands(", "            if subparser._subparsers is not None and subnamespace is not None:\n                _ActionSubCommands.handle_subcommands(", "C17.d"),
        ("nested level addressed with the outer prefix", "_actions.py", 'subparser, cfg, env, defaults, key + ".", fail_no_subcommand=fail_no_subcommand', "subparser, cfg, env, defaults, prefix, fail_no_subcommand=fail_no_subcommand", "C17.d"),
        ("sub-parser defaults override the given section", "_actions.py", "cfg[key] = subparser.merge_config(cfg.get(key, Namespace()), subnamespace)", "cfg[key] = subparser.merge_config(subnamespace, cfg.get(key, Namespace()))", "C17.e"),
        ("environment read under the defaults flag", "_actions.py", "                if env:\n                    subnamespace = subparser.parse_env(defaults=defaults, _skip_validation=True)\n                elif defaults:", "                if defaults:\n                    subnamespace = subparser.parse_env(defaults=defaults, _skip_validation=True)\n                elif env:", "C17.e"),
        ("unknown names rejected only when required", "_actions.py", "            if subcommand not in action._name_parser_map:", "            if action._required and subcommand not in action._name_parser_map:", "C17.f"),
    ],
    "C18": [
        ("dump inside the write handle", "_core.py", '            content = self.dump(cfg, **dump_kwargs)  # type: ignore[arg-type]\n            with open(path_fc.absolute, "w") as f:\n                f.write(content)', '            with open(path_fc.absolute, "w") as f:\n                f.write(self.dump(cfg, **dump_kwargs))', "C18.a"),
        ("sub-file written before the main dump", "_core.py", "                            outputs.append((val_path, val_str))\n", '                            with open(val_path.absolute, "w") as f:\n                                f.write(val_str)\n', "C18.a2"),
        ("sub-file overwrite check dropped", "_core.py", "                            check_overwrite(val_path)\n                            val_out = strip_meta(val)", "                            val_out = strip_meta(val)", "C18.b"),
        ("fsspec target probed by opening it for writing", "_core.py", 'path_sw = Path(path, mode="s")', 'path_sw = Path(path, mode="sw")', "C18.c"),
        ("check_overwrite ignores existing files", "_core.py", "            if not overwrite and os.path.isfile(path.absolute):\n                raise ValueError", "            if not overwrite and os.path.isdir(path.absolute):\n                raise ValueError", "C18.b"),
    ],
    "C19": [
        ("path type_check accepts anything path-like (seed C19-8C on the code after F57)", "typing.py", "    return isinstance(value, type_class)\n\n\ndef path_type", "    return isinstance(value, os.PathLike)\n\n\ndef path_type", "C19.b"),
        ("ancestor walk is a single step (seed C19-8B)", "_util.py", "while not os.path.isdir(pdir) and pdir != ppdir:", "if not os.path.isdir(pdir) and pdir != ppdir:", "C19.b"),
        ("config file merged outside its directory", "_actions.py", "            with change_to_path_dir(cfg_path):  # 'key+' appends of the file are adapted while merging\n                cfg_merged = parser.merge_config(cfg_file, cfg)", "            cfg_merged = parser.merge_config(cfg_file, cfg)", "C19.c"),
        ("original text re-interpreted inside the file's directory", "_typehints.py", "                        if isinstance(orig_val, str):\n                            val = adapt_typehints(orig_val, self._typehint, default=self.default, **kwargs)", "                        if isinstance(orig_val, str):\n                            with change_to_path_dir(config_path):\n                                val = adapt_typehints(orig_val, self._typehint, default=self.default, **kwargs)", "C19.c"),
        ("R tests W_OK", "_util.py", 'if "R" in mode and os.access(abs_path, os.R_OK):', 'if "R" in mode and os.access(abs_path, os.W_OK):', "C19.b"),
        ("os.stat for F unguarded", "_util.py", '            if "F" in mode and (\n                os.path.isfile(abs_path)\n                or (os.access(abs_path, os.F_OK) and stat.S_ISFIFO(os.stat(abs_path).st_mode))\n            ):', '            if "F" in mode and (os.path.isfile(abs_path) or stat.S_ISFIFO(os.stat(abs_path).st_mode)):', "C19.a"),
        ("default config loaded outside its directory", "_core.py", "            with change_to_path_dir(default_config_file), parser_context(parent_parser=self):\n                cfg_file = self._load_config_parser_mode(default_config_file.get_content(), key=key)", "            cfg_file = self._load_config_parser_mode(default_config_file.get_content(), key=key)\n            with change_to_path_dir(default_config_file), parser_context(parent_parser=self):", "C19.c"),
        ("second attempt outside the config directory", "_typehints.py", "                            with change_to_path_dir(config_path):\n                                val = adapt_typehints(orig_val, self._typehint, default=self.default, **kwargs)", "                            val = adapt_typehints(orig_val, self._typehint, default=self.default, **kwargs)", "C19.c"),
        ("cwd restore outside finally", "_util.py", "    finally:\n        current_path_dir.reset(token)\n        if chdir:\n            os.chdir(chdir)", "    finally:\n        current_path_dir.reset(token)\n    if chdir:\n        os.chdir(chdir)", "C19.d"),
        ("D lost its check", "_util.py", '            if "D" in mode and os.path.isdir(abs_path):', '            if "D" in mode and os.path.isfile(abs_path):', "C19.b"),
    ],
    "C20": [
        ("path type_check ignores the registered class again (F57)", "typing.py", "    return isinstance(value, type_class)\n\n\ndef path_type", "    return isinstance(value, Path)\n\n\ndef path_type", "C20.c.iv"),
        ("Decimal deserializer normalises", "typing.py", "    return Decimal(repr(value) if isinstance(value, float) else value)\n", "    return Decimal(repr(value) if isinstance(value, float) else value).normalize()\n", "C20.c.i"),
        ("Decimal dumped as float without read-back", "typing.py", "    return number if decimal_deserializer(number) == value else str(value)", "    return number", "C20.c.i"),
        ("Decimal registered with float again", "typing.py", '    "decimal.Decimal",\n    decimal_serializer,\n    decimal_deserializer,', '    "decimal.Decimal",\n    float,\n    decimal_deserializer,', "C20.c.i"),
        ("Decimal built from the binary float", "typing.py", "    return Decimal(repr(value) if isinstance(value, float) else value)", "    return Decimal(value)", "C20.c.i"),
        ("cast before validation", "typing.py", "            cls._validation_fn(cls, v)\n            return super().__new__(cls, cls._type(v))", "            v = cls._type(v)\n            cls._validation_fn(cls, v)\n            return super().__new__(cls, v)", "C20.a"),
        ("operator table swapped", "typing.py", '    operator.ge: ">=",\n    operator.lt: "<",', '    operator.ge: "<",\n    operator.lt: ">=",', "C20.b"),
        ("range step regex rejects negative steps", "typing.py", 're_range_start_stop_step = re.compile(r"^(-?\\d+),(-?\\d+),(-?\\d+)$")', 're_range_start_stop_step = re.compile(r"^(-?\\d+),(-?\\d+),(\\d+)$")', "C20.c.iii"),
        ("timedelta seconds pattern too narrow", "typing.py", "(?P<seconds>\\d[\\.\\d+]*)", "(?P<seconds>\\d\\d)$", "C20.c.iii"),
        ("SecretStr repr exposes the value", "typing.py", '    def __str__(self) -> str:\n        return "**********"', '    def __str__(self) -> str:\n        return "**********"\n\n    def __repr__(self) -> str:\n        return f"SecretStr({self._value!r})"', "C20.d"),
        ("Decimal exceptions undeclared again", "typing.py", 'register_type_on_first_use(\n    "decimal.Decimal", float, deserializer_exceptions=(ValueError, TypeError, AttributeError, ArithmeticError)\n)', 'register_type_on_first_use("decimal.Decimal", float)', "C20.h"),
        ("and-join uses any", "typing.py", '(cls._join == "and" and not all(check))', '(cls._join == "and" and not any(check))', "C20.b"),
    ],
}


def _copy_pkg(dst: str) -> None:
    shutil.copytree(os.path.join(repo_root(), "jsonargparse"), os.path.join(dst, "jsonargparse"))


def _run_check(prop: str, root: str) -> Tuple[int, str]:
    evd = tempfile.mkdtemp(prefix="jvself-ev-", dir="/var/tmp")  # never write evidence into the tree under analysis
    try:
        env = dict(os.environ, JV_REPO=root, JV_EVIDENCE_DIR=evd, VERIF_TIER="quick")
        r = subprocess.run([sys.executable, "-m", "jv.check", prop, "--tier", "quick"], cwd=VERIF_DIR, env=env, capture_output=True, text=True)
        return r.returncode, r.stdout
    finally:
        shutil.rmtree(evd, ignore_errors=True)


def _rules_reported(out: str) -> List[str]:
    rules = []
    for line in out.splitlines():
        if ": rule " in line:
            rules.append(line.split(": rule ", 1)[1].split(":", 1)[0].strip())
    return rules


def _mutant(prop: str, m: M) -> dict:
    name, fn, old, new, rule = m
    d = tempfile.mkdtemp(prefix="jvself-", dir="/var/tmp")
    try:
        _copy_pkg(d)
        p = os.path.join(d, "jsonargparse", fn)
        with open(p) as f:
            s = f.read()
        if old not in s:
            return {"name": name, "status": "skipped", "why": "anchor text not in the current tree"}
        s2 = s.replace(old, new, 1)
        try:
            compile(s2, p, "exec")
        except SyntaxError as ex:
            return {"name": name, "status": "skipped", "why": f"mutant does not compile: {ex}"}
        with open(p, "w") as f:
            f.write(s2)
        rc, out = _run_check(prop, d)
        rules = _rules_reported(out)
        ok = rc == 1 and any(r.startswith(rule) for r in rules)
        return {"name": name, "status": "detected" if ok else "MISSED", "rc": rc, "rules": sorted(set(rules)), "expected_rule": rule}
    finally:
        shutil.rmtree(d, ignore_errors=True)


def _seeded_for(prop: str) -> List[Tuple[str, str, List[str]]]:
    """(seed id, patch path, expected rules) for every kept seeded change that this property's check reports."""
    out = []
    sd = os.path.join(VERIF_DIR, "seeded")
    if not os.path.isdir(sd):
        return out
    for name in sorted(os.listdir(sd)):
        mp = os.path.join(sd, name, "meta.json")
        pp = os.path.join(sd, name, "patch.diff")
        if not (os.path.exists(mp) and os.path.exists(pp)):
            continue
        try:
            meta = json.load(open(mp))
        except Exception:
            continue
        if meta.get("obsolete"):
            continue  # a later fix: commit made the change harmless (or moot); kept for the record only
        fired = meta.get("checks_that_report_it", {}).get(prop)
        if fired and fired.get("rc") == 1:
            out.append((name, pp, fired.get("rules", [])))
    return out


def _seed_mutant(prop: str, seed: Tuple[str, str, List[str]]) -> dict:
    name, pp, rules = seed
    d = tempfile.mkdtemp(prefix="jvself-", dir="/var/tmp")
    try:
        _copy_pkg(d)
        r = subprocess.run(["patch", "-p1", "-s", "-f", "-d", d, "-i", pp], capture_output=True, text=True)
        if r.returncode != 0:
            return {"name": f"seeded {name}", "status": "skipped", "why": "patch does not apply to the current tree"}
        for root, _, files in os.walk(os.path.join(d, "jsonargparse")):
            for fn in files:
                if fn.endswith((".orig", ".rej")):
                    os.unlink(os.path.join(root, fn))
        rc, out = _run_check(prop, d)
        got = _rules_reported(out)
        ok = rc == 1 and (not rules or any(g in rules for g in got))
        return {"name": f"seeded {name}", "status": "detected" if ok else "MISSED", "rc": rc, "rules": sorted(set(got)), "expected_rule": "/".join(rules)}
    finally:
        shutil.rmtree(d, ignore_errors=True)


class _PassInserter(ast.NodeTransformer):
    def _visit_fn(self, node):
        self.generic_visit(node)
        body = node.body
        i = 1 if body and isinstance(body[0], ast.Expr) and isinstance(body[0].value, ast.Constant) and isinstance(body[0].value.value, str) else 0
        node.body = body[:i] + [ast.Pass()] + body[i:]
        return node

    visit_FunctionDef = _visit_fn
    visit_AsyncFunctionDef = _visit_fn


class _LogInserter(ast.NodeTransformer):
    """Inserts a logging call at the start of every function body, loop body and if-body."""

    @staticmethod
    def _mk():
        return ast.parse("__import__('logging').getLogger('jv').debug('trace')").body[0]

    def _visit_fn(self, node):
        self.generic_visit(node)
        body = node.body
        i = 1 if body and isinstance(body[0], ast.Expr) and isinstance(body[0].value, ast.Constant) and isinstance(body[0].value.value, str) else 0
        node.body = body[:i] + [self._mk()] + body[i:]
        return node

    visit_FunctionDef = _visit_fn
    visit_AsyncFunctionDef = _visit_fn

    def _visit_block(self, node):
        self.generic_visit(node)
        node.body = [self._mk()] + node.body
        return node

    visit_For = _visit_block
    visit_While = _visit_block
    visit_If = _visit_block


class _LocalRenamer(ast.NodeTransformer):
    """Renames the local variables (not the parameters) of every function that has no nested function,
    lambda or class, appending `_r`.  Names that are also comprehension targets, declared global/nonlocal,
    or used by a star import / locals() are left alone."""

    def visit_FunctionDef(self, node):
        self.generic_visit(node)
        nested = [n for n in ast.walk(node) if n is not node and isinstance(n, (ast.FunctionDef, ast.AsyncFunctionDef, ast.Lambda, ast.ClassDef))]
        if nested:
            return node
        txt_calls = {n.func.id for n in ast.walk(node) if isinstance(n, ast.Call) and isinstance(n.func, ast.Name)}
        if txt_calls & {"locals", "vars", "eval", "exec"}:
            return node
        a = node.args
        params = {x.arg for x in a.posonlyargs + a.args + a.kwonlyargs} | ({a.vararg.arg} if a.vararg else set()) | ({a.kwarg.arg} if a.kwarg else set())
        comp_targets = set()
        declared = set()
        stored = set()
        for n in ast.walk(node):
            if isinstance(n, ast.comprehension):
                comp_targets |= {x.id for x in ast.walk(n.target) if isinstance(x, ast.Name)}
            elif isinstance(n, (ast.Global, ast.Nonlocal)):
                declared |= set(n.names)
            elif isinstance(n, ast.Name) and isinstance(n.ctx, (ast.Store, ast.Del)):
                stored.add(n.id)
            elif isinstance(n, ast.ExceptHandler) and n.name:
                stored.add(n.name)
            elif isinstance(n, (ast.Import, ast.ImportFrom)):
                for al in n.names:
                    declared.add((al.asname or al.name).split(".")[0])
        ren = stored - params - comp_targets - declared
        if not ren:
            return node
        for n in ast.walk(node):
            if isinstance(n, ast.Name) and n.id in ren:
                n.id = n.id + "_r"
            elif isinstance(n, ast.ExceptHandler) and n.name in ren:
                n.name = n.name + "_r"
        return node

    visit_AsyncFunctionDef = visit_FunctionDef


def _neutral(prop: str, kind: str, base_rc: int, base_lines: List[str]) -> dict:
    d = tempfile.mkdtemp(prefix="jvself-", dir="/var/tmp")
    try:
        _copy_pkg(d)
        pk = os.path.join(d, "jsonargparse")
        for fn in sorted(os.listdir(pk)):
            if not fn.endswith(".py"):
                continue
            p = os.path.join(pk, fn)
            with open(p) as f:
                tree = ast.parse(f.read())
            if kind == "unparse+pass":
                tree = ast.fix_missing_locations(_PassInserter().visit(tree))
            if kind == "rename-locals":
                tree = ast.fix_missing_locations(_LocalRenamer().visit(tree))
            if kind == "unparse+log":
                tree = ast.fix_missing_locations(_LogInserter().visit(tree))
            if kind in NEUTRAL_KINDS:
                tree = ast.fix_missing_locations(NEUTRAL_KINDS[kind]().visit(tree))
            txt = ast.unparse(tree)
            compile(txt, p, "exec")
            with open(p, "w") as f:
                f.write(txt + "\n")
        rc, out = _run_check(prop, d)
        lines = sorted(l.split("] ", 1)[-1] for l in out.splitlines() if l.startswith(("VIOLATION", "KNOWN-FINDING", "ANALYSIS-ERROR")))
        lines = [l.split(" replay=")[0] for l in lines]
        same = rc == base_rc and lines == base_lines
        if kind == "rename-locals":
            # several rules identify statements through local variable names; after a renaming they must
            # either still decide (same verdict) or fail closed (exit 2) - never report a violation
            viol = [l for l in lines if l.startswith("VIOLATION") and l not in base_lines]
            same = same or (rc == 2 and not viol)
        return {"kind": kind, "status": "silent" if same else "DIFFERS", "rc": rc, "lines": lines[:6]}
    finally:
        shutil.rmtree(d, ignore_errors=True)


def run_for_property(prop: str, ctx_rc: int = 0) -> dict:
    """Returns a summary dict (also used as evidence)."""
    muts = MUTANTS.get(prop, [])
    base_rc, base_out = _run_check(prop, repo_root())
    base_lines = sorted(l.split("] ", 1)[-1] for l in base_out.splitlines() if l.startswith(("VIOLATION", "KNOWN-FINDING", "ANALYSIS-ERROR")))
    base_lines = [l.split(" replay=")[0] for l in base_lines]
    jobs = int(os.environ.get("JV_JOBS", "16"))
    with ThreadPoolExecutor(max_workers=jobs) as ex:
        mfut = [ex.submit(_mutant, prop, m) for m in muts] + [ex.submit(_seed_mutant, prop, s) for s in _seeded_for(prop)]
        nfut = [ex.submit(_neutral, prop, k, base_rc, base_lines) for k in ("unparse", "unparse+pass", "unparse+log", "rename-locals") + tuple(NEUTRAL_KINDS)]
        mres = [f.result() for f in mfut]
        nres = [f.result() for f in nfut]
    summary = {
        "mutants_generated": len([m for m in mres if m["status"] != "skipped"]),
        "mutants_detected": len([m for m in mres if m["status"] == "detected"]),
        "mutants_skipped": len([m for m in mres if m["status"] == "skipped"]),
        "mutants_missed": [m for m in mres if m["status"] == "MISSED"],
        "neutral_variants": len(nres),
        "neutral_variants_silent": len([n for n in nres if n["status"] == "silent"]),
        "neutral_differs": [n for n in nres if n["status"] != "silent"],
        "mutant_details": mres,
    }
    summary["ok"] = not summary["mutants_missed"] and not summary["neutral_differs"]
    return summary
