"""CLI:  /venv/bin/python -m jv.check C08 [--tier quick|thorough] [--repo DIR]

Exit 0: all obligations discharged (known findings printed as KNOWN-FINDING).
Exit 1: a violation not listed in known_findings.json (VIOLATION line printed).
Exit 2: ANALYSIS-ERROR - the checker could not do its job (vanished anchor,
        unsupported construct, rule below its vacuity floor, internal error).
"""

from __future__ import annotations

import argparse
import importlib
import os
import sys
import traceback


def main(argv=None) -> int:
    ap = argparse.ArgumentParser(prog="jv.check")
    ap.add_argument("prop")
    ap.add_argument("--tier", default=os.environ.get("VERIF_TIER") or "quick", choices=["quick", "thorough"])
    ap.add_argument("--repo", default=None)
    ap.add_argument("--explain", default=None, help="print a replay file in readable form")
    a = ap.parse_args(argv)
    if a.repo:
        os.environ["JV_REPO"] = a.repo
    if a.explain:
        import json

        with open(a.explain) as f:
            d = json.load(f)
        print(json.dumps(d, indent=2))
        return 0
    from .srcmodel import AnalysisError

    try:
        mod = importlib.import_module(f"jv.rules_{a.prop}")
        from .report import Ctx

        ctx = Ctx(a.prop, a.tier)
        st = None
        if a.tier == "thorough":
            from . import selftest

            st = selftest.run_for_property(a.prop)
            ctx.extra["self_test"] = {k: v for k, v in st.items() if k != "mutant_details"}
            ctx.extra["self_test"]["mutants"] = [{"name": m["name"], "status": m["status"]} for m in st["mutant_details"]]
            ctx.extra["mutants_generated"] = st["mutants_generated"]
            ctx.extra["mutants_detected"] = st["mutants_detected"]
            ctx.extra["neutral_variants_silent"] = st["neutral_variants_silent"]
        rc = mod.run(ctx)
        if st is not None:
            print(
                f"[{a.prop}] self-test: {st['mutants_detected']}/{st['mutants_generated']} breaking mutants detected "
                f"({st['mutants_skipped']} skipped), {st['neutral_variants_silent']}/{st['neutral_variants']} neutral variants silent"
            )
            if not st["ok"] and rc == 0:
                for m in st["mutants_missed"]:
                    print(f"[{a.prop}] self-test: MISSED mutant '{m['name']}' (rc={m.get('rc')}, rules reported {m.get('rules')}, expected {m.get('expected_rule')})")
                for n in st["neutral_differs"]:
                    print(f"[{a.prop}] self-test: neutral variant '{n['kind']}' changed the verdict (rc={n['rc']}): {n['lines']}")
                print(f"ANALYSIS-ERROR property={a.prop}: the checker failed its own self-test; its verdict is not to be believed")
                return 2
        return rc
    except AnalysisError as ex:
        print(f"ANALYSIS-ERROR property={a.prop}: {ex}")
        return 2
    except Exception:  # checker bug: never report as a violation
        traceback.print_exc()
        print(f"ANALYSIS-ERROR property={a.prop}: internal error in checker (traceback above)")
        return 2


if __name__ == "__main__":
    sys.exit(main())
