"""C04 - sources override each other in the documented order.

Decided clauses:
  C04.a   every call site of merge_config(cfg_from, cfg_to) merges a *later*
          source into an *earlier* one (provenance-rank dataflow); inside
          merge_config the `to` clone is updated with the `from` clone and returned
  C04.b   phase order: _load_env_vars (config variable, then subcommand, then
          individual variables); merge_config (discard -> update -> appends);
          parse_args seeds argparse with defaults/environment; default config
          files are applied in listed order
Not decided: the value of every key for every combination of sources.
"""

from __future__ import annotations

import ast
from typing import Dict, FrozenSet, List, Optional, Tuple

from .dataflow import State, assigned_simple_names, forward
from .report import Ctx
from .srcmodel import AnalysisError, call_leaf, call_name, calls_in, const_str, contains, dotted, func_params, qualname, src, walk_local
from .util import guard_chain, root_name

BOTTOM = -1  # empty namespace / None
DEFAULTS, ENV, GIVEN, NEW = 0, 1, 2, 3
RANK_NAMES = {BOTTOM: "EMPTY", DEFAULTS: "DEFAULTS", ENV: "ENV", GIVEN: "GIVEN", NEW: "NEW"}

# producers: callee leaf name -> provenance rank(s) of the value it returns
PRODUCERS: Dict[str, FrozenSet[int]] = {
    "get_defaults": frozenset({DEFAULTS}),
    "_load_env_vars": frozenset({ENV}),
    "parse_env": frozenset({ENV}),
    "_parse_defaults_and_environ": frozenset({DEFAULTS, ENV}),
    "_load_config_parser_mode": frozenset({NEW}),
    "parse_string": frozenset({NEW}),
    "parse_path": frozenset({NEW}),
    "_load_config": frozenset({NEW}),
}
# calls that return (an enriched version of) one of their arguments: leaf -> (positional index, keyword)
PASS_THROUGH = {"_apply_actions": (0, "cfg"), "_parse_common": (None, "cfg"), "clone": ("recv", None), "get": ("recv", None), "strip_meta": (0, None), "recreate_branches": (0, None), "deepcopy": (0, None)}

# what a parameter / unpacked local carries when the function is entered
GIVEN_TABLE: Dict[str, Dict[str, int]] = {
    "_core:ArgumentParser.parse_args": {"namespace": GIVEN},
    "_core:ArgumentParser.parse_object": {"cfg_base": GIVEN, "cfg_obj": NEW},
    "_actions:ActionConfigFile.apply_config": {"cfg": GIVEN},
    "_actions:_ActionConfigLoad.__call__": {"namespace": GIVEN},
    "_actions:_ActionSubCommands.handle_subcommands": {"cfg": GIVEN},
}

EXEMPT_SITES = {
    "_completions:argcomplete_namespace": "completion only; the caller is argcomplete and the result is not a parse result",
}

FLOOR_SITES = 9


def fmt(r: Optional[FrozenSet[int]]) -> str:
    if r is None:
        return "UNKNOWN"
    return "{" + ",".join(RANK_NAMES[x] for x in sorted(r)) + "}"


class Ranker:
    def __init__(self, fnq: str, fn: ast.AST):
        self.fnq = fnq
        self.fn = fn
        self.table = GIVEN_TABLE.get(fnq, {})

    def eval(self, e: ast.AST, st: State) -> Optional[FrozenSet[int]]:
        if isinstance(e, ast.Constant) and e.value is None:
            return frozenset({BOTTOM})
        if isinstance(e, ast.Name):
            if e.id in st and st[e.id]:
                vals = st[e.id]
                if None in vals:
                    return None
                return frozenset(vals)
            if e.id in self.table:
                return frozenset({self.table[e.id]})
            return None
        if isinstance(e, ast.Subscript):
            return self.eval(e.value, st)
        if isinstance(e, ast.IfExp):
            a, b = self.eval(e.body, st), self.eval(e.orelse, st)
            return None if a is None or b is None else a | b
        if isinstance(e, ast.Call):
            leaf = call_leaf(e)
            if leaf == "Namespace":
                if not e.args and not e.keywords:
                    return frozenset({BOTTOM})
                parts: List[Optional[FrozenSet[int]]] = []
                for a in e.args:
                    if isinstance(a, ast.Dict):
                        parts += [self.eval(v, st) for v in a.values]
                    else:
                        parts.append(self.eval(a, st))
                parts += [self.eval(k.value, st) for k in e.keywords]
                if any(p is None for p in parts):
                    return None
                out: FrozenSet[int] = frozenset()
                for p in parts:
                    out |= p  # type: ignore[operator]
                return out
            if leaf == "merge_config":
                to = e.args[1] if len(e.args) > 1 else None
                for k in e.keywords:
                    if k.arg == "cfg_to":
                        to = k.value
                return self.eval(to, st) if to is not None else None
            if leaf in PASS_THROUGH:
                pos, kw = PASS_THROUGH[leaf]
                arg = None
                if pos == "recv" and isinstance(e.func, ast.Attribute):
                    arg = e.func.value
                elif isinstance(pos, int) and len(e.args) > pos:
                    arg = e.args[pos]
                if arg is None and kw:
                    for k in e.keywords:
                        if k.arg == kw:
                            arg = k.value
                if arg is not None:
                    return self.eval(arg, st)
                return None
            if leaf in PRODUCERS:
                return PRODUCERS[leaf]
            return None
        return None

    def transfer(self, node, st: State) -> State:
        s = node.ast
        if node.kind != "stmt" or s is None:
            if node.kind == "loop" and isinstance(s, ast.For):
                out = dict(st)
                for n in assigned_simple_names(s.target):
                    out[n] = frozenset({None})
                return out
            return st
        out = st
        if isinstance(s, (ast.Assign, ast.AnnAssign)) and getattr(s, "value", None) is not None:
            targets = s.targets if isinstance(s, ast.Assign) else [s.target]
            val = self.eval(s.value, st)
            for t in targets:
                if isinstance(t, ast.Name):
                    out = dict(out)
                    out[t.id] = val if val is not None else frozenset({None})
                elif isinstance(t, (ast.Tuple, ast.List)):
                    out = dict(out)
                    for n in assigned_simple_names(t):
                        # unpacking: names in the GIVEN table keep their table rank
                        if n in self.table:
                            out[n] = frozenset({self.table[n]})
                        else:
                            out[n] = frozenset({None})
                elif isinstance(t, ast.Subscript) and isinstance(t.value, ast.Name):
                    # building the defaults namespace from action.default values
                    if any(isinstance(x, ast.Attribute) and x.attr == "default" for x in ast.walk(s.value)):
                        cur = out.get(t.value.id, frozenset())
                        out = dict(out)
                        out[t.value.id] = frozenset(x for x in cur if x not in (BOTTOM,)) | frozenset({DEFAULTS})
        return out


SOURCE_FLAGS = ("env", "defaults")


def run(ctx: Ctx) -> int:
    repo = ctx.repo
    sites: List[Tuple[str, ast.AST, ast.Call]] = []
    for fq, fn in repo.all_funcs():
        for c in calls_in(fn):
            if call_leaf(c) == "merge_config" and isinstance(c.func, ast.Attribute):
                if fq.startswith("_deprecated:"):
                    continue
                sites.append((fq, fn, c))
    ctx.analysed["call_sites"] += len(sites)

    n_ranked = 0
    for fq, fn, c in sites:
        if fq in EXEMPT_SITES:
            ctx.notes.append(f"merge site in {fq} exempt: {EXEMPT_SITES[fq]}")
            continue
        if len(c.args) < 2:
            raise AnalysisError(f"merge_config call with unexpected argument shape in {fq}: {src(c)}")
        g = ctx.cfg(fn)
        rk = Ranker(fq, fn)
        ins = forward(g, {}, rk.transfer)
        nodes = g.nodes_containing(c)
        if not nodes:
            raise AnalysisError(f"merge_config call not found in CFG of {fq}")
        frm: Optional[FrozenSet[int]] = frozenset()
        to: Optional[FrozenSet[int]] = frozenset()
        for nid in nodes:
            st = ins.get(nid)
            if st is None:
                continue  # unreachable copy
            a, b = rk.eval(c.args[0], st), rk.eval(c.args[1], st)
            frm = None if (frm is None or a is None) else frm | a
            to = None if (to is None or b is None) else to | b
        if frm is None or to is None or not frm or not to:
            raise AnalysisError(
                f"cannot rank the arguments of merge site {src(c)} in {fq}: from={fmt(frm)} to={fmt(to)} "
                "(a new merge site must be added to the provenance tables in rules_C04.py)"
            )
        n_ranked += 1
        ok = max(frm) > max(to) and frm != frozenset({BOTTOM})
        ctx.oblige(
            "C04.a",
            ok,
            c,
            f"merges {fmt(frm)} into {fmt(to)}: " + ("later source wins" if ok else "an EARLIER source overrides a LATER one (arguments swapped or wrong accumulator)"),
            fn=fn,
            details={"from": fmt(frm), "to": fmt(to)},
        )
    ctx.floor("C04.a", n_ranked, FLOOR_SITES, defer=True)  # a merge site replaced by a bare update is reported by C04.f

    # ---- inside merge_config -------------------------------------------------
    mc = ctx.func("_core:ArgumentParser.merge_config")
    params = func_params(mc)
    ctx.need(params[1:3] == ["cfg_from", "cfg_to"], "merge_config(self, cfg_from, cfg_to) signature")
    g = ctx.cfg(mc)
    upd = [c for c in calls_in(mc) if call_leaf(c) == "update" and isinstance(c.func, ast.Attribute)]
    ctx.need(upd, "cfg_to.update(cfg_from) in merge_config")
    for u in upd:
        recv, arg = root_name(u.func.value), (root_name(u.args[0]) if u.args else None)
        ok = recv == "cfg_to" and arg == "cfg_from"
        ctx.oblige("C04.a", ok, u, "the `to` clone is updated with the `from` clone" if ok else f"update direction reversed: {recv}.update({arg})", fn=mc)
    rets = [n for n in walk_local(mc) if isinstance(n, ast.Return)]
    for r in rets:
        ok = isinstance(r.value, ast.Name) and r.value.id == "cfg_to"
        ctx.oblige("C04.a", ok, r, "merge_config returns the updated `to` object" if ok else "merge_config no longer returns cfg_to", fn=mc)
    # both arguments are cloned before use (also a C08 obligation; here: rebinding keeps names meaningful)
    for p in ("cfg_from", "cfg_to"):
        rebinds = [
            s for s in walk_local(mc) if isinstance(s, ast.Assign) and any(isinstance(t, ast.Name) and t.id == p for t in s.targets)
        ]
        ok = all(isinstance(s.value, ast.Call) and call_leaf(s.value) == "clone" and root_name(s.value.func) == p for s in rebinds)
        ctx.oblige("C04.a", ok, rebinds[0] if rebinds else mc, f"{p} is only ever rebound to its own clone" if ok else f"{p} is rebound to something other than its clone", fn=mc, construct=f"rebind {p}")

    # ---- C04.b phase order -----------------------------------------------------
    # merge_config: discard -> update -> apply_appends
    disc = [c for c in calls_in(mc) if call_leaf(c) == "discard_init_args_on_class_path_change"]
    app = [c for c in calls_in(mc) if call_leaf(c) == "apply_appends"]
    ctx.need(disc and app, "discard_init_args_on_class_path_change / apply_appends in merge_config")
    un = [i for u in upd for i in g.nodes_containing(u)]
    an = [i for a in app for i in g.nodes_containing(a)]
    dn = [i for d in disc for i in g.nodes_containing(d)]
    ok = g.dominates(un, an, exclude_labels={"e"}) and not g.can_reach(an, un)
    ctx.oblige("C04.b", ok, app[0], "appends are applied to the merged result (update dominates apply_appends)" if ok else "apply_appends can run before/without the update", fn=mc)
    ok = g.dominates(dn, un, exclude_labels={"e"}) and not g.can_reach(un, dn)
    ctx.oblige("C04.b", ok, disc[0], "stale init_args are discarded before the update" if ok else "discard_init_args_on_class_path_change no longer precedes the update", fn=mc)

    # _load_env_vars: config variable -> subcommand -> individual variables
    lev = ctx.func("_core:ArgumentParser._load_env_vars")
    g = ctx.cfg(lev)
    apply_cfg = [c for c in calls_in(lev) if call_leaf(c) == "apply_config"]
    sub_env = [c for c in calls_in(lev) if call_leaf(c) == "parse_env"]
    loops = [n for n in walk_local(lev) if isinstance(n, ast.For)]
    indiv = []
    for c in calls_in(lev):
        if call_leaf(c) == "_check_value_key":
            lp = [l for l in loops if contains(l, c)]
            if lp and not any(contains(lp[0], s) for s in sub_env):
                indiv.append(c)
    ctx.need(apply_cfg and sub_env and indiv, "_load_env_vars: apply_config / parse_env / _check_value_key phases")
    acn = [i for c in apply_cfg for i in g.nodes_containing(c)]
    sen = [i for c in sub_env for i in g.nodes_containing(c)]
    inn = [i for c in indiv for i in g.nodes_containing(c)]
    ok = not g.can_reach(sen + inn, acn)
    ctx.oblige("C04.b", ok, apply_cfg[0], "the environment config is applied before subcommand and individual variables" if ok else "the environment config can be applied after an individual variable / subcommand", fn=lev)
    ok = not g.can_reach(inn, sen)
    ctx.oblige("C04.b", ok, sub_env[0], "subcommand environment is applied before individual variables" if ok else "individual variables can be applied before the subcommand environment", fn=lev)
    # the final _apply_actions(cfg) follows all stores
    fin = [c for c in calls_in(lev) if call_leaf(c) == "_apply_actions"]
    ctx.need(fin, "_load_env_vars: trailing _apply_actions")
    fnn = [i for c in fin for i in g.nodes_containing(c)]
    ok = not g.can_reach(fnn, inn + sen + acn)
    ctx.oblige("C04.b", ok, fin[0], "_apply_actions runs after all environment values are stored" if ok else "environment values can be stored after _apply_actions", fn=lev)

    # parse_args: argparse is seeded with defaults/environment (+ given namespace)
    pa = ctx.func("_core:ArgumentParser.parse_args")
    g = ctx.cfg(pa)
    rk = Ranker("_core:ArgumentParser.parse_args", pa)
    ins = forward(g, {}, rk.transfer)
    pk = [c for c in calls_in(pa) if call_leaf(c) == "parse_known_args"]
    ctx.need(pk, "parse_known_args call in parse_args")
    for c in pk:
        ns = None
        for k in c.keywords:
            if k.arg == "namespace":
                ns = k.value
        if ns is None and len(c.args) > 1:
            ns = c.args[1]
        r: Optional[FrozenSet[int]] = frozenset()
        for nid in g.nodes_containing(c):
            if nid in ins and ns is not None:
                v = rk.eval(ns, ins[nid])
                r = None if (r is None or v is None) else r | v
        ok = r is not None and bool(r & {DEFAULTS, ENV}) and max(r) <= ENV
        ctx.oblige("C04.b", ok, c, f"argparse starts from the defaults/environment namespace {fmt(r)}; actions then overwrite left to right" if ok else f"namespace passed to argparse has provenance {fmt(r)}, expected the merged defaults/environment", fn=pa)

    # an explicit env argument overrides the parser default: _default_env is consulted only under `env is None`
    n_env = 0
    for ref in ("_core:ArgumentParser._parse_defaults_and_environ", "_core:ArgumentParser._parse_common"):
        fn = ctx.func(ref)
        for node in walk_local(fn):
            if isinstance(node, ast.Attribute) and node.attr == "_default_env" and isinstance(node.ctx, ast.Load):
                n_env += 1
                from .srcmodel import ancestors as _anc

                ok = False
                for a in _anc(node):
                    if isinstance(a, ast.BoolOp) and isinstance(a.op, ast.And) and any(isinstance(v, ast.Compare) and ast.unparse(v) == "env is None" for v in a.values) and any(contains(v, node) or v is node for v in a.values):
                        ok = True
                        break
                    if isinstance(a, (ast.stmt,)):
                        break
                ctx.oblige("C04.b", ok, node, "the parser's default_env is consulted only when env is None (an explicit env=False switches the environment off)" if ok else "default_env is consulted without `env is None`: an explicit env=False no longer keeps the environment out of the fold", fn=fn)
    # ... and the tri-state is resolved before it is handed to the subcommand level: the subcommand parsers are asked
    # with the resolved value (their own environment variables are read only under a true `env`)
    pc_ = ctx.func("_core:ArgumentParser._parse_common")
    gpc = ctx.cfg(pc_)
    hs = [c for c in calls_in(pc_) if call_leaf(c) == "handle_subcommands" and any(k.arg == "env" and isinstance(k.value, ast.Name) and k.value.id == "env" for k in c.keywords)]
    ctx.need(hs, "_parse_common: handle_subcommands(..., env=env, ...)")
    resolves = []
    for s_ in walk_local(pc_):
        if isinstance(s_, ast.Assign) and len(s_.targets) == 1 and isinstance(s_.targets[0], ast.Name) and s_.targets[0].id == "env":
            from .util import guard_atoms as _gat

            atoms = {(ast.unparse(t), pol) for t, pol in _gat(s_, stop=pc_)}
            truthy = (isinstance(s_.value, ast.Constant) and s_.value.value is True) or "_default_env" in ast.unparse(s_.value)
            if truthy and (("env is None", True) in atoms or "env is None" in ast.unparse(s_.value)) and (("self._default_env", True) in atoms or "_default_env" in ast.unparse(s_.value)):
                resolves.append(s_)
    callee_resolves = False
    for ref2 in ("_actions:_ActionSubCommands.handle_subcommands", "_actions:_ActionSubCommands.get_subcommands"):
        if ctx.repo.has_func(ref2) and any(isinstance(n_, ast.Attribute) and n_.attr in ("_default_env", "default_env") for n_ in ast.walk(ctx.func(ref2))):
            callee_resolves = True
    ok = callee_resolves or (bool(resolves) and all(gpc.can_reach(gpc.cn(resolves), gpc.cn(h), exclude_labels={"e"}) and not gpc.can_reach(gpc.cn(h), gpc.cn(resolves), exclude_labels={"e"}) for h in hs))
    ctx.oblige("C04.b", ok, hs[0], "`env` handed to the subcommand level is the resolved value (None + default_env -> True)" if ok else "`env` reaches handle_subcommands unresolved: with default_env on and no explicit env=True, parse_object / parse_string / parse_path fill the chosen subcommand's keys without its environment variables (APP_FIT__*), while the top-level keys and parse_args do read theirs", fn=pc_, construct="env resolved before the subcommand level")
    # every parse entry folds defaults AND environment in: the call of _parse_defaults_and_environ is unconditional, or
    # guarded by a test that lets it run when either source is switched on
    n_fold_calls = 0
    for entry in ("parse_args", "parse_object", "parse_string", "parse_env"):
        fe = ctx.func(f"_core:ArgumentParser.{entry}")
        for c in [c for c in calls_in(fe) if call_leaf(c) == "_parse_defaults_and_environ"]:
            n_fold_calls += 1
            from .util import guard_atoms as _gat2

            tests = [t for t, pol in guard_chain(c, stop=fe) if pol]
            names_t = {x.id for t in tests for x in ast.walk(t) if isinstance(x, ast.Name)}
            src_tests = [t for t in tests if {x.id for x in ast.walk(t) if isinstance(x, ast.Name)} & {"defaults", "env"}]
            ok = not src_tests or all(isinstance(t, ast.BoolOp) and isinstance(t.op, ast.Or) and {"defaults", "env"} <= {x.id for x in ast.walk(t) if isinstance(x, ast.Name)} for t in src_tests)
            ctx.oblige("C04.b", ok, c, f"{entry} folds defaults / environment in whenever one of them is switched on" if ok else f"{entry} folds defaults / environment in only under `{ast.unparse(src_tests[0])}`: with defaults=False, env=True the environment (APP_SUBCOMMAND, APP_A, the env config) is ignored by this entry while parse_args / parse_object read it", fn=fe, construct=f"{entry} fold guard")
    ctx.floor("C04.b-fold-calls", n_fold_calls, 4)
    # C04.j - a default config file that cannot be read is skipped ON ITS OWN: the construct that absorbs the PathError
    # (suppress / try) wraps the creation of one Path inside the loop over the files; wrapped around the whole list, one
    # directory matched by a glob pattern makes every default config file disappear from the fold
    gdf = ctx.func("_core:ArgumentParser._get_default_config_files")
    from .srcmodel import ancestors as _anc4

    pcalls = [c for c in calls_in(gdf) if call_leaf(c) == "Path"]
    ctx.need(pcalls, "_get_default_config_files: Path(file, mode=...)")
    for c in pcalls:
        chain = []
        for a_ in _anc4(c):
            if a_ is gdf:
                break
            if isinstance(a_, (ast.With, ast.Try)):
                chain.append("absorb")
            elif isinstance(a_, (ast.For, ast.ListComp, ast.GeneratorExp, ast.SetComp, ast.DictComp)):
                chain.append("loop")
        ok = "absorb" in chain and "loop" in chain and chain.index("absorb") < chain.index("loop")
        ctx.oblige("C04.j", ok or "absorb" not in chain, c, "an unreadable default config file is skipped on its own" if ok else ("no construct absorbs the error here" if "absorb" not in chain else "the construct that absorbs the error of an unreadable default config file wraps the whole list: with default_config_files=['ok.json', 'conf.d/*.json'] and a directory among the matches, ok.json is silently ignored as well"), fn=gdf)

    ctx.floor("C04.b-default-env-uses", n_env, 1)
    # a config given on the command line / in the environment is merged as a whole: it is parsed with
    # every subcommand section kept, without applying links, and with the previous config published
    ac = ctx.func("_actions:ActionConfigFile.apply_config")
    need_mgrs = {"not_single_subcommand", "previous_config_context", "skip_apply_links"}
    for c in [c for c in calls_in(ac) if call_leaf(c) in ("parse_string", "parse_path")]:
        from .util import enclosing_withs as _ew

        have = {call_leaf(it.context_expr) for w, it in _ew(c) if isinstance(it.context_expr, ast.Call)}
        missing = sorted(need_mgrs - have)
        ctx.oblige("C04.b", not missing, c, "the config is parsed as a partial source: all subcommand sections kept, links deferred, previous config visible" if not missing else f"the config source is parsed outside {missing}: sections of the config are dropped or computed before the remaining sources are applied", fn=ac)

    # get_defaults: default config files applied in listed order
    gd = ctx.func("_core:ArgumentParser.get_defaults")
    loop = None
    for n in walk_local(gd):
        if isinstance(n, ast.For) and any(call_leaf(c) == "_load_config_parser_mode" for c in calls_in(n)):
            loop = n
    ctx.need(loop, "default config file loop in get_defaults")
    it = loop.iter
    ok = isinstance(it, ast.Name)
    src_call = None
    if ok:
        assigns = [s for s in walk_local(gd) if isinstance(s, ast.Assign) and any(isinstance(t, ast.Name) and t.id == it.id for t in s.targets)]
        ok = len(assigns) == 1 and isinstance(assigns[0].value, ast.Call) and call_leaf(assigns[0].value) == "_get_default_config_files"
    ctx.oblige("C04.b", ok, loop, "default config files are applied in the order returned by _get_default_config_files" if ok else "the default-config loop no longer iterates the list from _get_default_config_files as is (reversed/sorted/filtered?)", fn=gd)
    gdf = ctx.func("_core:ArgumentParser._get_default_config_files")
    # sorted() may order the matches of ONE glob pattern (its argument is the glob call itself); sorting anything wider -
    # a generator over several patterns, the combined list - replaces the listed order by path order
    reorder = [c for c in calls_in(gdf) if call_leaf(c) in ("reversed", "reverse", "sort") or (call_leaf(c) == "sorted" and not (c.args and isinstance(c.args[0], ast.Call) and call_leaf(c.args[0]) == "glob"))]
    ctx.oblige("C04.b", not reorder, reorder[0] if reorder else gdf, "no re-ordering of the combined default config file list (sorted() only per glob pattern)" if not reorder else f"combined default-config list is re-ordered: {src(reorder[0])}", fn=gdf, construct="no reorder of combined list")
    floops = [n for n in walk_local(gdf) if isinstance(n, ast.For) and dotted(n.iter) is not None and dotted(n.iter).endswith("default_config_files")]
    ctx.oblige("C04.b", len(floops) >= 2, gdf, "patterns are iterated in listed order (direct iteration of default_config_files)" if len(floops) >= 2 else "pattern loops over default_config_files changed shape", fn=gdf, construct="pattern loops in listed order")

    # parse_object: the given object is applied against the configuration that already holds every earlier
    # source (defaults, environment, cfg_base): its `prev_cfg` is what 'init_args without class_path', dotted
    # sub-options and appends are resolved against
    po = ctx.func("_core:ArgumentParser.parse_object")
    gpo = ctx.cfg(po)
    ap_obj = [c for c in calls_in(po) if call_leaf(c) == "_apply_actions" and any(k.arg == "prev_cfg" for k in c.keywords)]
    mb = [c for c in calls_in(po) if call_leaf(c) == "merge_config" and c.args and isinstance(c.args[0], ast.Name) and c.args[0].id == "cfg_base"]
    ctx.need(len(ap_obj) == 1 and len(mb) == 1, "parse_object: _apply_actions(<obj>, prev_cfg=...) and merge_config(cfg_base, ...)")
    pk = next(k.value for k in ap_obj[0].keywords if k.arg == "prev_cfg")
    mb_stmt = [s for s in walk_local(po) if isinstance(s, ast.Assign) and contains(s, mb[0])]
    same_acc = bool(mb_stmt) and isinstance(pk, ast.Name) and isinstance(mb_stmt[0].targets[0], ast.Name) and mb_stmt[0].targets[0].id == pk.id
    ok = same_acc and not gpo.can_reach(gpo.cn(ap_obj), gpo.cn(mb))
    ctx.oblige(
        "C04.b",
        ok,
        ap_obj[0],
        "the object is applied against the accumulator after cfg_base was merged into it" if ok else "the object is applied (prev_cfg) before / without cfg_base being merged: values that depend on the earlier source (init_args for the class chosen in cfg_base, appends) are resolved against defaults only",
        fn=po,
        construct="parse_object prev_cfg holds cfg_base",
    )

    # ---- C04.e the source-selection flags keep their meaning across calls ---------------------------
    # `env` (environment variables are a source) and `defaults` (defaults are a source) travel through the
    # parse call chain as same-named parameters; a call that binds one flag to the other's parameter silently
    # turns sources on and off below that call
    from .callgraph import CallGraph

    cg = ctx.extra.get("_cg") or CallGraph(repo)
    n_flag_calls = 0
    for fq, fn in repo.all_funcs():
        for c in calls_in(fn):
            flagged = [a.id for a in c.args if isinstance(a, ast.Name) and a.id in SOURCE_FLAGS] + [k.value.id for k in c.keywords if k.arg and isinstance(k.value, ast.Name) and k.value.id in SOURCE_FLAGS]
            if not flagged:
                continue
            targets, how = cg.resolve(fq, c)
            targets = [t for t in targets if t in cg.funcs]
            if not targets or how in ("imprecise", "unresolved", "external"):
                continue
            for t in targets:
                tf = cg.funcs[t]
                params = [a.arg for a in tf.args.posonlyargs + tf.args.args]
                decos = {dotted(d) for d in getattr(tf, "decorator_list", [])}
                explicit_self = isinstance(c.func, ast.Attribute) and isinstance(c.func.value, ast.Name) and c.func.value.id[:1].isupper() or (isinstance(c.func, ast.Attribute) and isinstance(c.func.value, ast.Name) and c.func.value.id.startswith("_Action"))
                if t in cg.class_of and "staticmethod" not in decos and params and params[0] in ("self", "cls") and not (explicit_self and "classmethod" not in decos):
                    params = params[1:]
                bound = {}
                for i, a in enumerate(c.args):
                    if isinstance(a, ast.Starred):
                        break
                    if i < len(params) and isinstance(a, ast.Name):
                        bound[params[i]] = a.id
                for k in c.keywords:
                    if k.arg and isinstance(k.value, ast.Name):
                        bound[k.arg] = k.value.id
                hits = {p: a for p, a in bound.items() if p in SOURCE_FLAGS or a in SOURCE_FLAGS}
                if not hits:
                    continue
                n_flag_calls += 1
                crossed = {p: a for p, a in hits.items() if p in SOURCE_FLAGS and a in SOURCE_FLAGS and p != a}
                ctx.oblige(
                    "C04.e",
                    not crossed,
                    c,
                    f"source flags are passed to the same-named parameters of {t.split(':')[1]} ({hits})" if not crossed else f"the source-selection flags are crossed in the call of {t.split(':')[1]}: {crossed} - below this call environment variables are read when only defaults were enabled (and the reverse)",
                    fn=fn,
                )
    ctx.floor("C04.e-flag-calls", n_flag_calls, 5)
    # every default config file that was found is a source: the loops that collect and fold them never stop early
    n_dcf = 0
    for ref in ("_core:ArgumentParser.get_defaults", "_core:ArgumentParser._get_default_config_files"):
        fn_ = ctx.func(ref)
        for lp in [l for l in walk_local(fn_) if isinstance(l, ast.For) and ("default_config_file" in ast.unparse(l.iter) or "pattern" in ast.unparse(l.target) or "default_config_files" in ast.unparse(l.iter))]:
            n_dcf += 1
            brk = [b for b in ast.walk(lp) if isinstance(b, ast.Break)] + [r for r in ast.walk(lp) if isinstance(r, ast.Return)]
            ok = not brk
            ctx.oblige("C04.a", ok, brk[0] if brk else lp, "the loop over the default config files visits every file" if ok else f"`{type(brk[0]).__name__.lower()}` inside the loop over the default config files: the files listed (or matched) after that point are silently ignored - an empty file in conf.d/ hides every later one", fn=fn_, construct="all default config files visited")
    ctx.floor("C04.a-default-config-loops", n_dcf, 2)

    # the environment SOURCE is the mapping the caller gave; the process environment stands in only when none was
    # given (`is None`) - an empty mapping is a given source with no variables
    from .util import guard_atoms as _ga

    n_envfb = 0
    for fq, fn in ctx.repo.all_funcs():
        if not fq.startswith("_core:"):
            continue
        for s in walk_local(fn):
            if not (isinstance(s, ast.Assign) and ast.unparse(s.value) == "os.environ" and isinstance(s.targets[0], ast.Name)):
                continue
            n_envfb += 1
            v = s.targets[0].id
            at = _ga(s, stop=None)
            inner = [(t, p) for t, p in at if v in {n.id for n in ast.walk(t) if isinstance(n, ast.Name)}]
            ok = bool(inner) and all(isinstance(t, ast.Compare) and isinstance(t.left, ast.Name) and t.left.id == v and isinstance(t.comparators[0], ast.Constant) and t.comparators[0].value is None and ((isinstance(t.ops[0], ast.Is) and p) or (isinstance(t.ops[0], ast.IsNot) and not p)) for t, p in inner)
            ctx.oblige("C04.e", ok, s, f"os.environ stands in only when no `{v}` mapping was given" if ok else f"`{v} = os.environ` runs under `{' and '.join(('' if p else 'not ') + ast.unparse(t) for t, p in inner) or 'no test of ' + v}`: a given environment that holds no variable (parse_env({{}})) is replaced by the process environment - variables of os.environ are folded into a result whose sources do not contain them", fn=fn)
    ctx.floor("C04.e-environ-fallback", n_envfb, 1)

    # ---- C04.f who may combine two sources -------------------------------------------------------------
    # a whole-namespace `X.update(Y)` (no key) is how two sources are folded; only merge_config may do it,
    # because it first applies what has to happen between sources ('key+' appends against the earlier value,
    # discarding init_args on a class_path change)
    n_upd = 0
    for fq, fn in repo.all_funcs():
        for c in calls_in(fn):
            if call_leaf(c) != "update" or not isinstance(c.func, ast.Attribute) or len(c.args) != 1 or c.keywords:
                continue
            recv = c.func.value
            targets, how = cg.resolve(fq, c)
            is_ns = any(t.endswith(":Namespace.update") for t in targets) or (isinstance(recv, ast.Call) and call_leaf(recv) == "clone")
            if not is_ns:
                continue
            n_upd += 1
            ok = fq == "_core:ArgumentParser.merge_config"
            ctx.oblige(
                "C04.f",
                ok,
                c,
                "the one whole-namespace update: inside merge_config, after appends and class_path changes were resolved" if ok else f"two sources are folded by a bare {src(c, 60)} outside merge_config: 'key+' appends and class_path changes in the later source are not resolved against the earlier one",
                fn=fn,
            )
    ctx.floor("C04.f-namespace-updates", n_upd, 1)

    # ---- C04.i what a source SAYS is read completely -----------------------------------------------------------
    # (1) `--key.item=value`: name and value are separated at the FIRST `=` (a value may contain `=`)
    pai = ctx.func("_typehints:ActionTypeHint.parse_argv_item")
    splits = [c for c in calls_in(pai) if isinstance(c.func, ast.Attribute) and c.func.attr in ("partition", "rpartition", "split", "rsplit") and c.args and const_str(c.args[0]) == "="]
    ctx.need(splits, "parse_argv_item: split of the argument string at '='")
    for c in splits:
        first = c.func.attr == "partition" or (c.func.attr == "split" and len(c.args) > 1 and isinstance(c.args[1], ast.Constant) and c.args[1].value == 1)
        ctx.oblige("C04.i", first, c, "the command line item is split at its first `=`" if first else f"`{src(c, 40)}` does not split at the FIRST `=`: for `--env.OPTS=-Dx=y` the item name becomes `OPTS=-Dx` and the value `y` - a later `--env.OPTS=...` no longer overrides the earlier one", fn=pai)
    # (2) set_defaults handles every key of every dictionary it is given (no early exit from the loops)
    sdf = ctx.func("_core:ActionsContainer.set_defaults")
    brk = [n_ for n_ in walk_local(sdf) if isinstance(n_, (ast.Break, ast.Return))]
    loops_sd = [n_ for n_ in walk_local(sdf) if isinstance(n_, ast.For)]
    ok = len(loops_sd) >= 2 and not brk
    ctx.oblige("C04.i", ok, brk[0] if brk else sdf, "set_defaults processes every given key (its loops have no early exit)" if ok else "a loop of set_defaults can be left early: keys after that point in the same set_defaults call are silently dropped and keep their old default, so every later `key+` / `key.item` source is folded onto the wrong base value", fn=sdf, construct="set_defaults handles every key")

    # ---- C04.h appends are looked for at every nesting level ------------------------------------------------
    # apply_appends resolves the 'key+' entries of a source against the configuration built so far; it has to see
    # nested ones (`g.lst+`): only the flattened views of a Namespace (keys() / items() / get_sorted_keys()) do
    aap = ctx.func("_typehints:ActionTypeHint.apply_appends")
    cfgp = aap.args.args[-1].arg
    shallow_views = [n_ for n_ in ast.walk(aap) if (isinstance(n_, ast.Call) and isinstance(n_.func, ast.Name) and n_.func.id == "vars" and n_.args and root_name(n_.args[0]) == cfgp) or (isinstance(n_, ast.Attribute) and n_.attr == "__dict__" and root_name(n_) == cfgp)]
    flat_iters = [n_ for n_ in ast.walk(aap) if isinstance(n_, ast.comprehension) and isinstance(n_.iter, ast.Call) and isinstance(n_.iter.func, ast.Attribute) and n_.iter.func.attr in ("keys", "items", "get_sorted_keys") and root_name(n_.iter.func) == cfgp]
    flat_iters += [n_ for n_ in ast.walk(aap) if isinstance(n_, ast.For) and isinstance(n_.iter, ast.Call) and isinstance(n_.iter.func, ast.Attribute) and n_.iter.func.attr in ("keys", "items", "get_sorted_keys") and root_name(n_.iter.func) == cfgp]
    ok = bool(flat_iters) and not shallow_views
    ctx.oblige(
        "C04.h",
        ok,
        shallow_views[0] if shallow_views else aap,
        "apply_appends looks for 'key+' entries through the flattened key view (every nesting level)" if ok else f"apply_appends looks at `{ast.unparse(shallow_views[0]) if shallow_views else '?'}` - the top-level names only: a source whose appends are all nested (`g: {{lst+: [1]}}`) is not resolved at its position; the stale `g.lst+` entry is rejected later or applied after sources that should override it",
        fn=aap,
    )

    # ---- C04.g an append ('key+') is tried against list-typed Union members first, and only those ----------
    from .shared_rules import origin_table

    ssu = ctx.func("_typehints:sort_subtypes_for_union")
    ap_param = [a.arg for a in ssu.args.args][-1]
    resorts = [c for c in calls_in(ssu) if isinstance(c.func, ast.Name) and c.func.id == "sorted" and any(isinstance(t, ast.Name) and t.id == ap_param and pol for t, pol in guard_chain(c, stop=ssu))]
    ctx.need(len(resorts) == 1, "sort_subtypes_for_union: one re-sort under `if append`")
    keyf = next((k.value for k in resorts[0].keywords if k.arg == "key"), None)
    tabs = [n for n in ast.walk(keyf) if isinstance(n, ast.Compare) and len(n.ops) == 1 and isinstance(n.ops[0], (ast.NotIn, ast.In)) and isinstance(n.comparators[0], ast.Name)] if keyf is not None else []
    ctx.need(len(tabs) == 1, "sort_subtypes_for_union: append key tests membership in one origin table")
    tname = tabs[0].comparators[0].id
    tab = origin_table(repo, tname)
    maps = origin_table(repo, "mapping_origin_types")
    front = isinstance(tabs[0].ops[0], ast.NotIn)  # False sorts first: members IN the table come first
    ok = front and {"List", "list"} <= tab and not (tab & maps) and not (tab & {"Tuple", "tuple", "Set", "set"})
    ctx.oblige(
        "C04.g",
        ok,
        resorts[0],
        f"for an append the Union members are re-sorted so that list-like members ({tname}) are tried first" if ok else f"for an append the Union members tried first are those in `{tname}` = {sorted(tab)}: a non-list member (e.g. Dict) accepts the appended item as a whole value and REPLACES what earlier sources built instead of appending to it",
        fn=ssu,
    )

    ctx.trusted_base += ["Namespace.update(x) lets x win (checked separately under C11 clash rules only structurally)", "argparse applies option actions left to right"]
    ctx.assumptions += ["producer table (callee -> provenance rank) and the per-function GIVEN table in rules_C04.py; an unrankable merge site is an ANALYSIS-ERROR, not a pass"]
    return ctx.finish(
        explanation=(
            "Provenance-rank dataflow (DEFAULTS < ENV < GIVEN < NEW) over the CFG of every function containing a merge_config call: at each of the call sites "
            "the `from` argument must outrank the `to` argument; plus dominance checks for the phase order inside _load_env_vars, merge_config, parse_args and get_defaults. "
            "Decides the direction and order of the fold's merge sites (the 'swapped merge argument' fault of the property), not the resulting value of every key."
        ),
        rule_text="one obligation per merge_config call site / phase-order pair; non-trivial = the site was ranked with non-empty provenance on both arguments",
    )
