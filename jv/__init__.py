"""jv - repository-specific static checkers for omni-us/jsonargparse.

Everything in this package decides its verdicts from the *source text* of the
repository under analysis (re-parsed on every run, default /repo, override with
the JV_REPO environment variable for scratch copies used by the self-test).
No repository code is imported or executed.
"""
