"""C05 - the same settings give the same configuration through every channel.

Decided clauses (narrow): the channels are different code that must funnel into one checker.
  C05.a  single funnel: every store of a user-supplied value into the configuration is
         the result of the shared checker; every Action that has both __call__ and
         _check_type stores what its _check_type returns; the argparse `type=` hook and
         _check_type of ActionYesNo are the same function
  C05.b  actions are looked up by the un-marked key: keys read from a Namespace's
         __dict__ / vars() do not reach _find_action* or comparisons with action.dest
         without passing del_clash_mark (taint)
  C05.c  dotted and nested spellings address the same leaf: Namespace(dict) and the
         object channel expand nested mappings key by key through Namespace item assignment
  C05.d  every JSON number is a number for the yaml loader (regular-language inclusion)
  C05.e  a text accepted under a normalisation (x.lower() in {...}) is interpreted under
         the same normalisation
  C05.f  list-valued options are decided as argparse does (integer clause folded over
         {0,1,2,3}); steps of the leaf arm after the load are not conditioned on the
         value having arrived as text
  C05.g  the omegaconf loader's scalar short-cut covers every scalar type of the yaml loader
  C05.h  jsonnet arguments: the ext_vars marker is unconditional; the validated object is the stored one
Not decided: equality of results across channels for all values; loader equivalence
across parser modes.
"""

from __future__ import annotations

import ast
from typing import Dict, List, Set, Tuple

from .report import Ctx
from .srcmodel import AnalysisError, call_leaf, call_name, calls_in, const_str, contains, dotted, func_params, src, walk_local
from .util import core_stmts, guard_chain, is_neutral_stmt, root_name

CHECKERS = {"_check_value_key", "_check_type", "_check_type_", "_load_config", "check_type"}
FIND = {"_find_action", "_find_action_and_subcommand", "_find_parent_action", "_find_parent_action_and_subcommand", "_is_branch_key"}


def _derives_from_checker(fn: ast.AST, e: ast.AST, depth: int = 0) -> bool:
    if depth > 4:
        return False
    for c in ([e] if isinstance(e, ast.Call) else []) + [x for x in ast.walk(e) if isinstance(x, ast.Call)]:
        if call_leaf(c) in CHECKERS:
            return True
    if isinstance(e, ast.Name):
        defs = [s for s in walk_local(fn) if isinstance(s, ast.Assign) and any(isinstance(t, ast.Name) and t.id == e.id for t in s.targets)]
        # the value stored must be able to come from the checker, and every other definition must be a
        # pre-check value that the checker then consumes (value = cfg[key]; value = check(value))
        checked = [d for d in defs if _derives_from_checker(fn, d.value, depth + 1) and not isinstance(d.value, ast.Name)]
        return bool(checked)
    return False


def run(ctx: Ctx) -> int:
    # ---------------- C05.a ---------------------------------------------------
    n = 0
    for ref in ("_core:ArgumentParser._load_env_vars", "_core:ArgumentParser._apply_actions", "_core:ArgumentParser._positional_optionals"):
        fn = ctx.func(ref)
        g = ctx.cfg(fn)
        for s in walk_local(fn):
            if isinstance(s, ast.Assign) and isinstance(s.targets[0], ast.Subscript) and root_name(s.targets[0].value) == "cfg":
                key_txt = ast.unparse(s.targets[0].slice)
                if "action" not in key_txt:
                    continue  # structural stores (branch namespaces, sub-parser results)
                n += 1
                ok = _derives_from_checker(fn, s.value)
                if ok and isinstance(s.value, ast.Name):
                    # the checker call dominates the store
                    defs = [d for d in walk_local(fn) if isinstance(d, ast.Assign) and any(isinstance(t, ast.Name) and t.id == s.value.id for t in d.targets) and _derives_from_checker(fn, d.value) and not isinstance(d.value, ast.Name)]
                    ok = g.dominates(g.cn(defs), g.cn(s))
                ctx.oblige("C05.a", ok, s, "the value stored for an action is what the shared checker returned" if ok else "a value is stored for an action without passing (or regardless of) the shared checker: this channel can accept / normalise differently from the others", fn=fn)
    ctx.floor("C05.a-core-stores", n, 4)
    # action classes
    n_act = 0
    for cref, cls in sorted(ctx.repo.modules.items()):
        pass
    for mname, m in ctx.repo.modules.items():
        for cq, cls in m.classes.items():
            meths = {x.name: x for x in cls.body if isinstance(x, ast.FunctionDef)}
            if "__call__" in meths and ("_check_type" in meths or "_load_config" in meths):
                call = meths["__call__"]
                fq = f"{mname}:{cq}"
                if cq == "ActionLink":
                    continue  # __call__ only raises (C15.b)
                if cq == "ActionYesNo":
                    init = meths.get("__init__")
                    ct = meths["_check_type"]
                    reg = [s for s in walk_local(init) if isinstance(s, ast.Assign) and isinstance(s.targets[0], ast.Subscript) and const_str(s.targets[0].slice) == "type"] if init else []
                    ok = bool(reg) and dotted(reg[0].value) == "ActionYesNo._boolean_type" and any(call_name(c) == "ActionYesNo._boolean_type" for c in calls_in(ct))
                    n_act += 1
                    ctx.oblige("C05.a", ok, reg[0] if reg else cls, "ActionYesNo: the argparse type= hook and _check_type are the same function (_boolean_type)" if ok else "ActionYesNo: command line and object channels use different boolean converters", fn=init, construct="yesno same converter")
                    continue
                stores = []
                for c in calls_in(call):
                    if call_leaf(c) == "setattr" and isinstance(c.func, ast.Name) and len(c.args) == 3:
                        stores.append((c, c.args[2]))
                    if call_leaf(c) == "update" and isinstance(c.func, ast.Attribute) and root_name(c.func) in ("cfg", "namespace") and c.args:
                        stores.append((c, c.args[0]))
                for s in walk_local(call):
                    if isinstance(s, ast.Assign) and isinstance(s.targets[0], ast.Subscript) and root_name(s.targets[0].value) in ("namespace", "cfg"):
                        stores.append((s, s.value))
                if not stores:
                    raise AnalysisError(f"anchor vanished: value store in {fq}.__call__")
                for node, v in stores:
                    n_act += 1
                    ok = _derives_from_checker(call, v)
                    ctx.oblige("C05.a", ok, node, f"{cq}.__call__ stores what its _check_type returned (the function the object / environment channels use)" if ok else f"{cq}.__call__ stores a value that did not pass its _check_type: argv and object channels diverge", fn=call)
    ctx.floor("C05.a-action-stores", n_act, 5)
    # the dispatcher reaches every checker kind
    cvk = ctx.func("_core:ArgumentParser._check_value_key")
    txt = ast.unparse(cvk)
    ok = "action._check_type_(value" in txt and "action.check_type(value" in txt and "action.type(" in txt and 'hasattr(action, "_check_type")' in txt.replace("'", '"')
    ctx.oblige("C05.a", ok, cvk, "_check_value_key dispatches to the action's own _check_type / check_type / type= callable" if ok else "_check_value_key no longer dispatches to all checker kinds", fn=cvk, construct="dispatcher arms")

    # `choices` restricts the CONVERTED value on every channel.  argparse itself compares what it has at hand in
    # _check_value - for actions that convert in __call__ (they define _check_type) that is the raw string; so the
    # parser has to take that comparison over (override of _check_value that steps aside for such actions) and the
    # shared entry Action._check_type_ has to compare after the conversion, as _check_value_key does for configs
    apcls = ctx.repo.cls("_core:ArgumentParser")
    ov = [m for m in apcls.body if isinstance(m, ast.FunctionDef) and m.name == "_check_value"]
    steps_aside = bool(ov) and any(isinstance(n_, ast.If) and any(isinstance(c, ast.Call) and call_leaf(c) == "hasattr" and len(c.args) == 2 and const_str(c.args[1]) == "_check_type" for c in ast.walk(n_.test)) and any(isinstance(b, ast.Return) for b in n_.body) for n_ in ast.walk(ov[0])) if ov else False
    cte = ctx.func("_common:Action._check_type_")
    after_conv = any(isinstance(n_, ast.Compare) and isinstance(n_.ops[0], (ast.NotIn, ast.In)) and "choices" in ast.unparse(n_.comparators[0]) for n_ in ast.walk(cte))
    cvk_ = ctx.func("_core:ArgumentParser._check_value_key")
    cfg_side = any(isinstance(n_, ast.Compare) and isinstance(n_.ops[0], (ast.NotIn, ast.In)) and "choices" in ast.unparse(n_.comparators[0]) for n_ in ast.walk(cvk_))
    ok = steps_aside and after_conv and cfg_side
    ctx.oblige(
        "C05.a",
        ok,
        ov[0] if ov else cte,
        "`choices` is compared with the converted value on the command line (Action._check_type_) and on the config channels (_check_value_key); argparse's comparison of the raw string is switched off for converting actions" if ok else "`choices` is compared by argparse with the RAW command line string for actions that convert in __call__: `--n=1` for type=int, choices=[1, 2] is rejected on the command line while `n: 1` in a config is accepted",
        fn=cte,
        construct="choices compared after conversion on every channel",
    )

    # ---------------- C05.b (taint) -------------------------------------------
    n_src = 0
    n_fix = 0
    for fq, fn in ctx.repo.all_funcs():
        if fq.startswith(("_namespace:", "_deprecated:")):
            continue
        tainted: Set[str] = set()
        sources = []
        # seeds: comprehension / loop variables over X.__dict__.keys()/items() or vars(X)
        for nnode in walk_local(fn):
            gens = []
            if isinstance(nnode, (ast.ListComp, ast.SetComp, ast.GeneratorExp, ast.DictComp)):
                gens = [(g_.target, g_.iter, nnode) for g_ in nnode.generators]
            elif isinstance(nnode, ast.For):
                gens = [(nnode.target, nnode.iter, nnode)]
            for tg, it, owner in gens:
                t = ast.unparse(it)
                if ("__dict__" in t or "vars(" in t) and not any(call_leaf(c) == "del_clash_mark" for c in calls_in(it)):
                    first = tg.elts[0] if isinstance(tg, ast.Tuple) else tg
                    if isinstance(first, ast.Name):
                        sources.append((first.id, owner))
        # whole-expression seeds: x = list(cfg.__dict__.keys())
        for s in walk_local(fn):
            if isinstance(s, ast.Assign) and isinstance(s.targets[0], ast.Name):
                t = ast.unparse(s.value)
                if ("__dict__.keys()" in t or "__dict__.items()" in t) and not isinstance(s.value, (ast.ListComp, ast.GeneratorExp, ast.SetComp, ast.DictComp)) and "del_clash_mark" not in t:
                    tainted.add(s.targets[0].id)
                    sources.append((s.targets[0].id, s))
        if not sources:
            continue
        n_src += len(sources)

        def expr_tainted(e: ast.AST, local_taint: Set[str]) -> bool:
            if isinstance(e, ast.Call) and call_leaf(e) == "del_clash_mark":
                # it strips ONE leading mark: applied to a concatenation `prefix + "." + k` it leaves k's mark in place
                a0 = e.args[0] if e.args else None
                if isinstance(a0, (ast.BinOp, ast.JoinedStr)):
                    return any(expr_tainted(x, local_taint) for x in ast.walk(a0) if isinstance(x, ast.Name))
                return False
            if isinstance(e, ast.Name):
                return e.id in local_taint
            if isinstance(e, (ast.ListComp, ast.GeneratorExp, ast.SetComp)):
                lt = set(local_taint)
                for g_ in e.generators:
                    if expr_tainted(g_.iter, lt) or any(nm == (g_.target.id if isinstance(g_.target, ast.Name) else None) and own is e for nm, own in sources):
                        if isinstance(g_.target, ast.Name):
                            lt.add(g_.target.id)
                return expr_tainted(e.elt, lt)
            return any(expr_tainted(ch, local_taint) for ch in ast.iter_child_nodes(e) if isinstance(ch, ast.expr))

        # loop-variable seeds from For statements
        for nm, own in sources:
            if isinstance(own, ast.For):
                # re-assignment `key = del_clash_mark(key)` as first statement sanitises
                first = core_stmts(own.body)[0] if core_stmts(own.body) else None
                if isinstance(first, ast.Assign) and isinstance(first.targets[0], ast.Name) and first.targets[0].id == nm and isinstance(first.value, ast.Call) and call_leaf(first.value) == "del_clash_mark":
                    n_fix += 1
                    continue
                tainted.add(nm)
        changed = True
        while changed:
            changed = False
            for s in walk_local(fn):
                if isinstance(s, (ast.Assign, ast.AugAssign)):
                    tgs = s.targets if isinstance(s, ast.Assign) else [s.target]
                    if expr_tainted(s.value, tainted):
                        for t in tgs:
                            nm = root_name(t) if isinstance(t, (ast.Name,)) else None
                            if nm and nm not in tainted:
                                tainted.add(nm)
                                changed = True
                elif isinstance(s, ast.For) and expr_tainted(s.iter, tainted):
                    for nm in [x.id for x in ast.walk(s.target) if isinstance(x, ast.Name)]:
                        if nm not in tainted:
                            tainted.add(nm)
                            changed = True
                elif isinstance(s, ast.Expr) and isinstance(s.value, ast.Call) and call_leaf(s.value) in ("append", "extend") and isinstance(s.value.func, ast.Attribute) and s.value.args and expr_tainted(s.value.args[0], tainted):
                    nm = root_name(s.value.func.value)
                    if nm and nm not in tainted:
                        tainted.add(nm)
                        changed = True
        # sinks
        bad = []
        for c in calls_in(fn):
            if call_leaf(c) in FIND and len(c.args) >= 2 and expr_tainted(c.args[1], tainted):
                bad.append(c)
        for cmp_ in walk_local(fn):
            if isinstance(cmp_, ast.Compare) and any(isinstance(x, ast.Attribute) and x.attr == "dest" for x in [cmp_.left] + cmp_.comparators) and any(expr_tainted(x, tainted) for x in [cmp_.left] + cmp_.comparators):
                bad.append(cmp_)
        ctx.oblige(
            "C05.b",
            not bad,
            bad[0] if bad else fn,
            "keys read from a namespace's __dict__ are un-marked (del_clash_mark) before they are used to find actions" if not bad else f"a key read from a namespace's __dict__ (it may carry the clash mark) is used to look up an action: {src(bad[0], 70)}; arguments named like Namespace methods are not found through this channel",
            fn=fn,
            construct=("raw key reaches " + ",".join(sorted({call_leaf(b) if isinstance(b, ast.Call) else "dest comparison" for b in bad}))) if bad else "raw keys sanitised",
        )
    ctx.floor("C05.b-raw-key-sources", n_src, 3)

    # the default class_path fallback of a subclass-typed value depends on the key's previous value only, not on
    # how much the channel has accumulated so far (the environment channel starts from an empty namespace,
    # command line and objects from the defaults)
    ct = ctx.func("_typehints:ActionTypeHint._check_type")
    fb = [s_ for s_ in walk_local(ct) if isinstance(s_, ast.Assign) and root_name(s_.targets[0]) == "prev_val" and isinstance(s_.value, ast.Call) and call_leaf(s_.value) == "Namespace" and "self.default" in ast.unparse(s_.value)]
    ctx.need(fb, "ActionTypeHint._check_type: fallback to the default's class_path")
    gct = ctx.cfg(ct)
    for s_ in fb:
        tests = [(t, pol) for t, pol in gct.guards_of(gct.cn(s_), exclude_labels={"e"})]
        on_prev = any("prev_val is None" in ast.unparse(t) and pol for t, pol in tests)
        on_cfg = [ast.unparse(t) for t, pol in tests if any(isinstance(n_, ast.Name) and n_.id == "cfg" for n_ in ast.walk(t)) and "prev_val" not in ast.unparse(t)]
        ok = on_prev and not on_cfg
        ctx.oblige("C05.a", ok, s_, "the fallback to the default's class_path is taken whenever the key has no previous value" if ok else f"the fallback to the default's class_path depends on the state of the accumulated configuration ({on_cfg or 'no `prev_val is None` test'}): channels that start from an empty namespace resolve a different class than those that start from the defaults", fn=ct)

    # ---------------- C05.d: every JSON number is a number for the yaml loader ----------------
    from . import yamlmodel
    from .relang import DFA

    ld = ctx.repo.mod("_loaders_dumpers")
    stock, stock_path = yamlmodel.stock_table()
    led = yamlmodel.extract_table_edits(ld, ctx.func("_loaders_dumpers:get_yaml_default_loader"))
    LL = yamlmodel.ResolverLang(yamlmodel.apply_edits(stock, led))
    J_INT = DFA.from_regex(r"-?(?:0|[1-9][0-9]*)")
    J_NUM = DFA.from_regex(r"-?(?:0|[1-9][0-9]*)(?:\.[0-9]+)?(?:[eE][-+]?[0-9]+)?")
    gl = ctx.func("_loaders_dumpers:get_yaml_default_loader")
    okk, w = LL.resolves_to("tag:yaml.org,2002:int").includes(J_INT)
    ctx.oblige("C05.d", okk, gl, "every JSON integer literal is read as int by the yaml loader" if okk else f"the JSON integer {w!r} is not read as int by the yaml loader", fn=gl, construct="json int <= yaml int")
    okk, w = LL.resolves_to("tag:yaml.org,2002:float").includes(J_NUM - J_INT)
    ctx.oblige("C05.d", okk, gl, "every JSON number with fraction or exponent (any sign / case of the exponent) is read as float by the yaml loader: a JSON document means the same under parser_mode yaml and json" if okk else f"the JSON number {w!r} is read as a string by the yaml loader but as a number by the json loader: the same document is accepted under one parser mode and rejected under the other", fn=gl, construct="json float <= yaml float", details={"witness": w})
    ctx.trusted_base.append(f"JSON number grammar (RFC 8259); stock PyYAML resolver table from {stock_path}")

    # ---------------- C05.c ---------------------------------------------------
    init = ctx.func("_namespace:Namespace.__init__")
    loops = [n_ for n_ in walk_local(init) if isinstance(n_, ast.For)]
    ok = bool(loops) and any(isinstance(s, ast.Assign) and isinstance(s.targets[0], ast.Subscript) and root_name(s.targets[0].value) == "self" for s in walk_local(loops[0]))
    ctx.oblige("C05.c", ok, loops[0] if loops else init, "Namespace(dict) assigns item by item through __setitem__: dotted keys and nested mappings address the same leaves" if ok else "Namespace(dict) no longer goes through item assignment", fn=init)
    aa = ctx.func("_core:ArgumentParser._apply_actions")
    ctx.expect_locals(aa, ["cfg", "value", "keys", "action_dest"])
    conv = [s for s in walk_local(aa) if isinstance(s, ast.Assign) and isinstance(s.value, ast.Call) and call_leaf(s.value) == "Namespace" and s.value.args and root_name(s.value.args[0]) in ("cfg", "value")]
    ok = len(conv) >= 2
    ctx.oblige("C05.c", ok, conv[0] if conv else aa, "the object channel converts nested dicts to namespaces level by level before applying actions" if ok else "_apply_actions no longer expands nested dicts", fn=aa, construct="nested dict expansion")

    # ---------------- C05.e: spelling-insensitive acceptance is decided on the spelling that was accepted ----
    # channels hand the same setting over in different forms (the yaml loader turns `True` into a bool, argv and
    # the environment pass the text "True"): where a text is accepted under a normalisation (x.lower() in {...})
    # every later membership test that interprets it must use the same normalisation
    def _member_tests(node):
        out = []
        for cmp_ in [n_ for n_ in ast.walk(node) if isinstance(n_, ast.Compare) and len(n_.ops) == 1 and isinstance(n_.ops[0], (ast.In, ast.NotIn))]:
            comp = cmp_.comparators[0]
            if isinstance(comp, (ast.Set, ast.Tuple, ast.List)) and comp.elts and all(isinstance(e, ast.Constant) and isinstance(e.value, str) for e in comp.elts):
                out.append((cmp_, cmp_.left, {e.value for e in comp.elts}))
        return out

    n_norm = 0
    for fq, fn in ctx.repo.all_funcs():
        for iff in [n_ for n_ in walk_local(fn) if isinstance(n_, ast.If)]:
            for _, gl_, gs_ in _member_tests(iff.test):
                if not (isinstance(gl_, ast.Call) and call_leaf(gl_) in ("lower", "upper", "casefold", "strip") and isinstance(gl_.func, ast.Attribute)):
                    continue
                base = ast.unparse(gl_.func.value)
                for b in iff.body:
                    for cmp2, l2, s2 in _member_tests(b):
                        if not (s2 <= gs_):
                            continue
                        if ast.unparse(l2) != base and ast.unparse(l2) != ast.unparse(gl_):
                            continue
                        n_norm += 1
                        ok = ast.unparse(l2) == ast.unparse(gl_)
                        ctx.oblige(
                            "C05.e",
                            ok,
                            cmp2,
                            f"the accepted text is interpreted under the same normalisation it was accepted under (`{ast.unparse(gl_)}`)" if ok else f"the text is accepted under `{ast.unparse(gl_)}` but interpreted as `{ast.unparse(l2)}`: `True`/`Yes` given as text (argv, environment, parse_object) is accepted and read as false, while the same word in a YAML file is read as true",
                            fn=fn,
                        )
    ctx.floor("C05.e-normalised-membership", n_norm, 1)

    # ---------------- C05.f: which options are list-valued is the same for every channel --------------------
    # argparse collects a list for nargs '*', '+' and every integer N >= 1 (N = 1 included); the environment and
    # object channels ask _is_action_value_list.  The integer clause is folded over the small domain {0,1,2,3}.
    ial = ctx.func("_actions:_is_action_value_list")
    cmps = [n_ for n_ in ast.walk(ial) if isinstance(n_, ast.Compare) and len(n_.ops) == 1 and isinstance(n_.left, ast.Attribute) and n_.left.attr == "nargs" and isinstance(n_.comparators[0], ast.Constant) and isinstance(n_.comparators[0].value, int) and not isinstance(n_.comparators[0].value, bool)]
    sets = [n_ for n_ in ast.walk(ial) if isinstance(n_, ast.Compare) and len(n_.ops) == 1 and isinstance(n_.ops[0], ast.In) and isinstance(n_.left, ast.Attribute) and n_.left.attr == "nargs" and isinstance(n_.comparators[0], (ast.Set, ast.Tuple, ast.List))]
    ctx.need(len(cmps) == 1 and len(sets) == 1, "_is_action_value_list: one integer comparison and one set test on action.nargs")
    opmap = {ast.NotEq: lambda a, b: a != b, ast.Gt: lambda a, b: a > b, ast.GtE: lambda a, b: a >= b, ast.Lt: lambda a, b: a < b, ast.LtE: lambda a, b: a <= b, ast.Eq: lambda a, b: a == b}
    opf = opmap.get(type(cmps[0].ops[0]))
    ctx.need(opf, "_is_action_value_list: comparison operator")
    kconst = cmps[0].comparators[0].value
    table = {n_: opf(n_, kconst) for n_ in (0, 1, 2, 3)}
    symbols = {const_str(e) for e in sets[0].comparators[0].elts}
    ok = table == {0: False, 1: True, 2: True, 3: True} and {"*", "+"} <= symbols and not ({"?", None} & symbols)
    ctx.oblige(
        "C05.f",
        ok,
        cmps[0],
        "list-valued options are exactly nargs in {'*', '+'} or an integer >= 1, as argparse collects them" if ok else f"_is_action_value_list says {table} for integer nargs and {sorted(s for s in symbols if s)} for symbols: the environment / object channels treat an option as scalar that argparse collects as a list (or the reverse), e.g. nargs=1",
        fn=ial,
    )
    # leaf arm: after the text was loaded, what follows is the same for text and non-text values
    ad5 = ctx.func("_typehints:adapt_typehints")
    loads = [c for c in calls_in(ad5) if call_leaf(c) == "json_or_yaml_load" and any("leaf_types" in ast.unparse(t) and pol for t, pol in guard_chain(c, stop=ad5))]
    ctx.need(len(loads) == 1, "adapt_typehints leaf arm: json_or_yaml_load")
    str_test = next((t for t, pol in guard_chain(loads[0], stop=ad5) if pol and "isinstance(val, str)" in ast.unparse(t)), None)
    ctx.need(str_test is not None, "leaf arm: load guarded by isinstance(val, str)")
    arm_test = next(t for t, pol in guard_chain(loads[0], stop=ad5) if pol and "leaf_types" in ast.unparse(t))
    n_leaf = 0
    for s in walk_local(ad5):
        if not isinstance(s, (ast.Assign, ast.Expr, ast.Raise)) or is_neutral_stmt(s):
            continue
        gch = guard_chain(s, stop=ad5)
        if not any(t is arm_test and pol for t, pol in gch):
            continue
        if any(contains(s, ld) for ld in loads):
            continue
        n_leaf += 1
        under_str = any(t is str_test for t, _ in gch)
        ctx.oblige(
            "C05.f",
            not under_str,
            s,
            "leaf-arm step applies to text and non-text values alike" if not under_str else f"`{src(s, 50)}` only runs for values that arrived as text: the same setting is coerced / checked differently when it arrives already loaded (config file, object) than when it arrives as a string (argv, environment)",
            fn=ad5,
        )
    ctx.floor("C05.f-leaf-steps", n_leaf, 2)

    # ---------------- C05.h: jsonnet arguments behave the same whichever channel delivers ext_vars / the value ------
    # (1) _apply_actions forwards freshly parsed ext_vars to the jsonnet action on the config/object channels only if
    #     the ext_vars action carries the `jsonnet_ext_vars` marker: it is set whenever the pairing is valid
    from .util import guard_atoms

    cev = ctx.func("_jsonnet:ActionJsonnet._check_ext_vars_action")
    marks = [s for s in walk_local(cev) if isinstance(s, ast.Assign) and any(isinstance(t, ast.Attribute) and t.attr == "jsonnet_ext_vars" for t in s.targets)]
    ctx.need(marks, "_check_ext_vars_action: <ext_vars action>.jsonnet_ext_vars = True")
    for s in marks:
        extra_g = [ast.unparse(t) for t, pol in guard_atoms(s, stop=cev) if "default" in ast.unparse(t)]
        ok = not extra_g
        ctx.oblige("C05.h", ok, s, "the ext_vars marker is set for every valid ext_vars argument, whatever its default" if ok else f"the ext_vars marker is only set under {extra_g}: with an explicit dict default the config / object channels evaluate the jsonnet snippet with the DEFAULT ext_vars while argv and the environment use the given ones", fn=cev)
    # (2) schema validation fills schema defaults INTO the validated object: the object validated is the one stored
    for ref in ("_jsonnet:ActionJsonnet._check_type", "_jsonschema:ActionJsonSchema._check_type"):
        fn_ = ctx.func(ref)
        vcalls = [c for c in calls_in(fn_) if call_leaf(c) == "validate" and isinstance(c.func, ast.Attribute) and "_validator" in ast.unparse(c.func.value)]
        stores_ = [s for s in walk_local(fn_) if isinstance(s, ast.Assign) and isinstance(s.targets[0], ast.Subscript) and isinstance(s.value, ast.Name)]
        ctx.need(vcalls and stores_, f"{ref}: self._validator.validate(<v>) and value[num] = <v>")
        stored = {s.value.id for s in stores_}
        for c in vcalls:
            ok = len(c.args) == 1 and isinstance(c.args[0], ast.Name) and c.args[0].id in stored
            ctx.oblige("C05.h", ok, c, "the object validated (and completed with schema defaults) is the object stored" if ok else f"`{src(c, 60)}` validates a copy / derived object: the schema defaults are filled into it and thrown away, so a value that arrives already loaded (config, object) lacks the defaults that the same value given as text (argv, environment) gets", fn=fn_)

    # ---------------- C05.i: 'key+' appends are adapted under the parser's load mode on every channel -----------------
    aap5 = ctx.func("_typehints:ActionTypeHint.apply_appends")
    from .util import enclosing_withs

    ct5 = [c for c in calls_in(aap5) if call_leaf(c) in ("_check_type_", "_check_type")]
    ctx.need(ct5, "apply_appends: action._check_type_(...)")
    for c in ct5:
        ok = any(isinstance(it.context_expr, ast.Call) and call_leaf(it.context_expr) == "parser_context" and any(k.arg == "load_value_mode" for k in it.context_expr.keywords) for _, it in enclosing_withs(c, stop=aap5))
        ctx.oblige("C05.i", ok, c, "an appended value is adapted inside parser_context(load_value_mode=parser.parser_mode)" if ok else "an appended value is adapted without a load mode in context: `tags+: extra` through parse_string / parse_object raises an internal error (or is read under another parser's mode) while --tags+=extra on the command line works", fn=aap5)

    # ---------------- C05.g: the omegaconf loader returns every YAML scalar as the yaml loader does -------------
    gol = ctx.func("_optionals:get_omegaconf_loader")
    from .util import nested_defs

    ol = nested_defs(gol).get("omegaconf_load")
    ctx.need(ol, "get_omegaconf_loader.omegaconf_load")
    yl = [s for s in walk_local(ol) if isinstance(s, ast.Assign) and isinstance(s.value, ast.Call) and call_leaf(s.value) == "yaml_load" and isinstance(s.targets[0], ast.Name)]
    ctx.need(len(yl) == 1, "omegaconf_load: <v> = yaml_load(value)")
    yv = yl[0].targets[0].id
    inst = [c for c in calls_in(ol) if call_leaf(c) == "isinstance" and len(c.args) == 2 and isinstance(c.args[0], ast.Name) and c.args[0].id == yv and isinstance(c.args[1], ast.Tuple)]
    types_ = {dotted(e) for c in inst for e in c.args[1].elts}
    none_t = any(isinstance(n_, ast.Compare) and isinstance(n_.left, ast.Name) and n_.left.id == yv and isinstance(n_.ops[0], ast.Is) and isinstance(n_.comparators[0], ast.Constant) and n_.comparators[0].value is None for n_ in ast.walk(ol))
    rets = [r for r in walk_local(ol) if isinstance(r, ast.Return) and isinstance(r.value, ast.Name) and r.value.id == yv]
    ok = {"str", "int", "float", "bool"} <= types_ and none_t and bool(rets)
    ctx.oblige(
        "C05.g",
        ok,
        inst[0] if inst else ol,
        "every scalar the yaml loader can produce (str, int, float, bool, None) is returned as loaded" if ok else f"the scalar short-cut of the omegaconf loader covers only {sorted(t for t in types_ if t)}: a value of a missing scalar type, given per value (argv, environment), is sent through OmegaConf.load and rejected (`Invalid loaded object type`) while the same value inside a document is accepted",
        fn=ol,
    )

    # environment channel, list-valued options: text that does not load as a list is one item - the TEXT, as on the
    # command line (--names null gives ['null'] for List[str]); wrapping the loaded value would make `null`, `a: b`,
    # `{a: 1}` items of another kind than the same text given as a command line item
    lev5 = ctx.func("_core:ArgumentParser._load_env_vars")
    wraps = [e for e in ast.walk(lev5) if isinstance(e, ast.IfExp) and isinstance(e.orelse, ast.List) and len(e.orelse.elts) == 1 and isinstance(e.test, ast.Call) and call_leaf(e.test) == "isinstance"]
    ctx.need(wraps, "_load_env_vars: <loaded> if isinstance(<loaded>, list) else [<text>]")
    for e in wraps:
        loaded_v = ast.unparse(e.test.args[0])
        item = e.orelse.elts[0]
        loads_ = [c for c in calls_in(lev5) if call_leaf(c) == "load_value" and c.args and isinstance(c.args[0], ast.Name)]
        texts = {c.args[0].id for c in loads_}
        ok = isinstance(item, ast.Name) and item.id in texts and ast.unparse(item) != loaded_v
        ctx.oblige("C05.c", ok, e, "a non-list environment value of a list option is kept as one item of text" if ok else f"`{src(e, 70)}` wraps the LOADED value: APP_NAMES=null gives [None] and APP_NAMES='a: b' gives [{{'a': 'b'}}], which str / Enum / Literal items reject, while --names null and --names 'a: b' are accepted on the command line", fn=lev5, construct="env list item stays text")

    # ---------------- C05.j: an init_args-only value resolves to the default's class on every channel -------------------
    # ActionTypeHint._check_type: with no previous value in the configuration, a value that gives only init_args is read
    # against the class of the argument's default spec - in every channel.  The one exception is the computation of the
    # sub-defaults themselves (context flag sub_defaults), where the default is what is being expanded.
    ct5 = ctx.func("_typehints:ActionTypeHint._check_type")
    from .util import guard_atoms as _ga5

    seeds_ = [s_ for s_ in walk_local(ct5) if isinstance(s_, ast.Assign) and isinstance(s_.targets[0], ast.Name) and ".default" in ast.unparse(s_.value) and any(isinstance(t, ast.Call) and call_leaf(t) == "is_subclass_spec" and ".default" in ast.unparse(t) for t, pol in _ga5(s_, stop=ct5))]
    ctx.floor("C05.j-default-class", len(seeds_), 1)
    for s_ in seeds_:
        atoms = {(ast.unparse(t), pol) for t, pol in _ga5(s_, stop=ct5)}
        flag = [(t, pol) for t, pol in atoms if "sub_defaults" in t]
        ok = flag == [("sub_defaults.get()", False)] and any("is None" in t and pol for t, pol in atoms) and any("is_subclass_spec" in t and pol for t, pol in atoms)
        ctx.oblige("C05.j", ok, s_, "without a previous value the class of the default spec is the base of an init_args-only value, except while sub-defaults are expanded" if ok else f"the default's class is taken as previous value under {sorted(atoms)}: with the sub_defaults flag tested the wrong way round, `init_args`-only values resolve to the annotated base class through parse_string / parse_path / environment and to the default's class through argv / --cfg / parse_object", fn=ct5)

    # ---------------- C05.k: which nargs hold ONE value ----------------------------------------------------------------
    # _check_value_key applies a plain `type` function to the value as a whole for nargs None, "?" and 0, and item by
    # item otherwise - argparse (the argv channel) hands the function the single string in exactly those cases
    cvk5 = ctx.func("_core:ArgumentParser._check_value_key")
    nargs_tests = [t for t in ast.walk(cvk5) if isinstance(t, ast.Compare) and "nargs" in ast.unparse(t.left) and len(t.ops) == 1 and isinstance(t.ops[0], (ast.In, ast.Eq, ast.Is))]
    consts = set()
    for t in nargs_tests:
        for x in ast.walk(t.comparators[0]):
            if isinstance(x, ast.Constant):
                consts.add(x.value)
    scalar_sites = [b for b in ast.walk(cvk5) if isinstance(b, ast.BoolOp) and isinstance(b.op, ast.Or) and sum(1 for v in b.values if isinstance(v, ast.Compare) and "nargs" in ast.unparse(v.left)) >= 1]
    if scalar_sites:
        got_ = set()
        for v in scalar_sites[0].values:
            if isinstance(v, ast.Compare) and "nargs" in ast.unparse(v.left):
                for x in ast.walk(v.comparators[0]):
                    if isinstance(x, ast.Constant):
                        got_.add(x.value)
        ok = {None, "?", 0} <= got_
        ctx.oblige("C05.k", ok, scalar_sites[0], "nargs None, '?' and 0 are the single-value cases for a plain type function" if ok else f"the single-value cases of _check_value_key are {sorted(map(repr, got_))}: for nargs='?' argparse passes the string as a whole to the type function, config / environment / object values are split and converted item by item - 'My Model' gives one value from argv and a list of characters from a config", fn=cvk5, construct="scalar nargs")
    else:
        ctx.need(False, "_check_value_key: `action.nargs in {None, '?'} or action.nargs == 0`")

    return ctx.finish(
        explanation=(
            "The channels (argparse actions, namespace application, environment loading) are different code that must funnel into one checker: every store of an action's value derives from "
            "_check_value_key / the action's _check_type (reaching definitions + dominance); a taint analysis shows that raw, possibly clash-marked keys read from a namespace's __dict__ never "
            "reach _find_action* / comparisons with action.dest without del_clash_mark. Narrow: equality of results across channels for all values and loader equivalence across parser modes are not decided."
        ),
        rule_text="one obligation per value store, per action class, per function that reads raw __dict__ keys",
    )
