"""E6 - exception-flow (effect) analysis over explicit raises.

may-escape(f) = explicit `raise` sites of f (typed) not caught by an enclosing
handler of f, plus the may-escape sets of the callees (E3) filtered by the handlers
that enclose each call site.  Handler matching uses the written exception names
and a class hierarchy (builtins + package classes).  Implicit exceptions
(AttributeError on a wrongly typed value, ...) are NOT modelled: the analysis is
exact for the library's own raise statements and says nothing else.
"""

from __future__ import annotations

import ast
from typing import Dict, FrozenSet, Iterable, List, Optional, Set, Tuple

from .callgraph import CallGraph
from .srcmodel import FuncNode, call_leaf, call_name, dotted, loc, parent, walk_local
from .util import exc_expr_names

HIER = {
    "NSKeyError": "KeyError",
    "PathError": "TypeError",
    "KeyError": "LookupError",
    "IndexError": "LookupError",
    "LookupError": "Exception",
    "TypeError": "Exception",
    "ValueError": "Exception",
    "UnicodeError": "ValueError",
    "UnicodeDecodeError": "UnicodeError",
    "UnicodeEncodeError": "UnicodeError",
    "JSONDecodeError": "ValueError",
    "json.JSONDecodeError": "ValueError",
    "AttributeError": "Exception",
    "ImportError": "Exception",
    "ModuleNotFoundError": "ImportError",
    "NotImplementedError": "RuntimeError",
    "RecursionError": "RuntimeError",
    "RuntimeError": "Exception",
    "AssertionError": "Exception",
    "StopIteration": "Exception",
    "OSError": "Exception",
    "FileNotFoundError": "OSError",
    "PermissionError": "OSError",
    "ArithmeticError": "Exception",
    "OverflowError": "ArithmeticError",
    "ArgumentError": "Exception",
    "argparse.ArgumentError": "Exception",
    "ArgumentTypeError": "Exception",
    "CaptureParserException": "Exception",
    "YAMLError": "Exception",
    "yaml.YAMLError": "Exception",
    "Exception": "BaseException",
    "SystemExit": "BaseException",
    "KeyboardInterrupt": "BaseException",
    "JsonargparseWarning": "Exception",
    "JsonargparseDeprecationWarning": "Exception",
    "UnknownDefault": "Exception",
}
# computed handler expressions -> names they are known to contain
COMPUTED = {
    "get_loader_exceptions()": {"YAMLError", "JSONDecodeError"},
    "json_or_yaml_loader_exceptions": {"YAMLError", "JSONDecodeError"},
    "get_jsonschema_exceptions()": {"ValidationError", "SchemaError"},
    "self.deserializer_exceptions": {"ValueError", "TypeError", "AttributeError"},
}


def norm(name: str) -> str:
    return name.split(".")[-1] if name not in HIER else name


def is_subclass_name(exc: str, handler: str) -> bool:
    e: Optional[str] = norm(exc)
    h = norm(handler)
    seen = set()
    while e is not None and e not in seen:
        if e == h:
            return True
        seen.add(e)
        e = HIER.get(e)
        if e is not None:
            e = norm(e)
    return h in ("BaseException",)


Esc = Tuple[str, str]  # (exception type, origin "module:function:line-free construct")


class ExcFlow:
    def __init__(self, repo, cg: CallGraph, noreturn=None):
        self.repo = repo
        self.cg = cg
        self.esc: Dict[str, Set[Esc]] = {}
        self.iterations = 0
        self.skip_site = None  # optional predicate (function ref, call node) -> bool: edges not to follow

    # -- handlers enclosing a node inside fn ---------------------------------
    def _enclosing_handlers(self, node: ast.AST, fn: ast.AST) -> List[Set[str]]:
        """For each enclosing try (innermost first) whose *body* contains node: the set of names it catches.
        `with suppress(...)` counts as a handler."""
        out = []
        child = node
        p = parent(node)
        while p is not None and p is not fn:
            if isinstance(p, ast.Try) and any(child is s for s in p.body):
                names: Set[str] = set()
                for h in p.handlers:
                    if h.type is None:
                        names.add("BaseException")
                    else:
                        for n in exc_expr_names(h.type):
                            names |= COMPUTED.get(n, {n})
                out.append(names)
            if isinstance(p, (ast.With, ast.AsyncWith)) and any(child is s for s in p.body):
                for it in p.items:
                    ce = it.context_expr
                    if isinstance(ce, ast.Call) and call_leaf(ce) == "suppress":
                        names = set()
                        for a in ce.args:
                            for n in exc_expr_names(a):
                                names |= COMPUTED.get(n, {n})
                        out.append(names)
            if isinstance(p, FuncNode) or isinstance(p, ast.Lambda):
                break
            child = p
            p = parent(p)
        return out

    def _caught(self, exc: str, handlers: List[Set[str]]) -> bool:
        return any(any(is_subclass_name(exc, h) for h in hs) for hs in handlers)

    def _raise_types(self, r: ast.Raise, fn: ast.AST) -> List[str]:
        e = r.exc
        if e is None:
            return self._handler_types_of(r, fn)
        if isinstance(e, ast.Call):
            n = dotted(e.func)
            if n == "argument_error":
                return ["ArgumentError"]
            if n is not None:
                leaf = n.split(".")[-1]
                if leaf[:1].isupper():
                    return [leaf]
            if isinstance(e.func, ast.Call) and call_leaf(e.func) == "type":
                return self._handler_types_of(r, fn)
            return ["Exception"]
        if isinstance(e, ast.Name):
            ht = self._handler_types_of(r, fn, e.id)
            if ht:
                return ht
            if e.id[:1].isupper():
                return [e.id]
            # a local holding an exception object built earlier (ex2 = ValueError(...))
            for s in walk_local(fn):
                if isinstance(s, ast.Assign) and any(isinstance(t, ast.Name) and t.id == e.id for t in s.targets) and isinstance(s.value, ast.Call):
                    n = dotted(s.value.func)
                    if n and n.split(".")[-1][:1].isupper():
                        return [n.split(".")[-1]]
            return ["Exception"]
        return ["Exception"]

    def _handler_types_of(self, node: ast.AST, fn: ast.AST, var: Optional[str] = None) -> List[str]:
        p = parent(node)
        while p is not None and p is not fn:
            if isinstance(p, ast.ExceptHandler) and (var is None or p.name == var):
                if p.type is None:
                    return ["Exception"]
                out = []
                for n in exc_expr_names(p.type):
                    out += sorted(COMPUTED.get(n, {n}))
                return out
            p = parent(p)
        return []

    def analyse(self, roots: Iterable[str], dispatch: Optional[Dict[str, List[str]]] = None, max_iter: int = 30) -> None:
        todo = sorted(self.cg.reachable_from(roots, extra_edges=dispatch))
        for f in todo:
            self.esc.setdefault(f, set())
        # local raises
        local: Dict[str, List[Tuple[ast.Raise, List[str], List[Set[str]]]]] = {}
        calls: Dict[str, List[Tuple[ast.Call, List[str], List[Set[str]]]]] = {}
        for f in todo:
            fn = self.cg.funcs[f]
            lr = []
            for r in walk_local(fn):
                if isinstance(r, ast.Raise):
                    lr.append((r, self._raise_types(r, fn), self._enclosing_handlers(r, fn)))
                elif isinstance(r, ast.Assert):
                    lr.append((r, ["AssertionError"], self._enclosing_handlers(r, fn)))
            local[f] = lr
            cl = []
            for c, ts, how in self.cg.edges.get(f, []):
                ts = [t for t in ts if t in self.cg.funcs]
                if ts:
                    cl.append((c, ts, self._enclosing_handlers(c, fn)))
            if dispatch and f in dispatch:
                # synthetic edges: the dispatching call site is the function as a whole (no handlers assumed)
                gate = [c for c, _, _ in cl if call_leaf(c) in ("_parse_known_args",)]
                cl.append((None, dispatch[f], []))
            calls[f] = cl
        changed = True
        it = 0
        while changed and it < max_iter:
            it += 1
            changed = False
            for f in todo:
                cur = self.esc[f]
                new: Set[Esc] = set()
                fn = self.cg.funcs[f]
                for r, types, hs in local[f]:
                    for t in types:
                        if not self._caught(t, hs):
                            new.add((norm(t), f"{f}:{_short(r)}"))
                for c, ts, hs in calls[f]:
                    if c is None:
                        hs2 = self._dispatch_handlers(f)
                    else:
                        hs2 = hs
                    for t in ts:
                        for et, origin in self.esc.get(t, ()):  # type: ignore[arg-type]
                            if not self._caught(et, hs2):
                                new.add((et, origin))
                if not new <= cur:
                    cur |= new
                    changed = True
        self.iterations = it

    # -- path-precise leak search for one exception type ---------------------------
    def leaks(self, roots: Iterable[str], exc: str, origins: Dict[str, List[ast.AST]], dispatch: Optional[Dict[str, List[str]]] = None, stop_at: Iterable[str] = ()) -> List[dict]:
        """Origin sites of `exc` (origins: function -> AST nodes that raise it, explicit or intrinsic) that are
        reachable from a root along call sites none of which lies under a handler for `exc`, the origin itself
        not being under one either.  Every reported leak carries the chain of call sites (a witness path).
        Functions in stop_at are not entered (construction-time code reached through the call graph)."""
        stop = set(stop_at)
        pred: Dict[str, Tuple[Optional[str], Optional[ast.AST]]] = {}
        work = []
        for r in roots:
            if r in self.cg.funcs and r not in pred:
                pred[r] = (None, None)
                work.append(r)
        while work:
            f = work.pop(0)
            fn = self.cg.funcs[f]
            edges = [(c, ts) for c, ts, how in self.cg.edges.get(f, [])]
            if dispatch and f in dispatch:
                edges.append((None, dispatch[f]))
            for c, ts in edges:
                if c is not None and self.skip_site is not None and self.skip_site(f, c):
                    continue
                hs = self._dispatch_handlers(f) if c is None else self._enclosing_handlers(c, fn)
                if self._caught(exc, hs):
                    continue
                for t in ts:
                    if t in self.cg.funcs and t not in pred and t not in stop:
                        pred[t] = (f, c)
                        work.append(t)
        out = []
        for f, sites in origins.items():
            if f not in pred:
                continue
            fn = self.cg.funcs[f]
            for s in sites:
                if self._caught(exc, self._enclosing_handlers(s, fn)):
                    continue
                chain = []
                cur: Optional[str] = f
                while cur is not None:
                    p, c = pred[cur]
                    chain.append((cur, c))
                    cur = p
                chain.reverse()
                out.append({"function": f, "site": s, "chain": chain})
        return out

    def _dispatch_handlers(self, f: str) -> List[Set[str]]:
        """Handlers enclosing the `_parse_known_args` call inside parse_known_args (dispatch source)."""
        fn = self.cg.funcs[f]
        for c in [n for n in walk_local(fn) if isinstance(n, ast.Call)]:
            if call_leaf(c) == "_parse_known_args":
                return self._enclosing_handlers(c, fn)
        return []


def _short(n: ast.AST) -> str:
    try:
        return " ".join(ast.unparse(n).split())[:70]
    except Exception:  # pragma: no cover
        return type(n).__name__
