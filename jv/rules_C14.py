"""C14 - a class_path is checked against the declared type and built from its config.

Decided clauses (order and identity obligations of the parser-per-class construction):
  C14.a  the subclass test dominates acceptance (Subclass arm, Callable arm, Type arm)
  C14.b  one class throughout: parser, instantiation and class_path normalisation use the class that was checked
  C14.c  nested objects first, then exactly one construction per path
  C14.d  init_args validated by that class's parser (= C06.e, re-stated on adapt_class_type)
Not decided: that every accepted spec instantiates without TypeError for all class
families; short-form resolution; discard_init_args_on_class_path_change semantics.
"""

from __future__ import annotations

import ast
from typing import List, Optional, Set

from .report import Ctx
from .srcmodel import call_name, AnalysisError, call_leaf, calls_in, const_str, contains, dotted, get_kwarg, src, walk_local
from .util import body_raises, nested_defs, enclosing_trys, enclosing_withs, guard_chain, root_name, strip_not

NX = {"e"}


def _arm(fn: ast.AST, marker: str) -> ast.If:
    """The if/elif arm of adapt_typehints whose test mentions `marker`."""
    best = None
    for n in walk_local(fn):
        if isinstance(n, ast.If) and marker in ast.unparse(n.test):
            if best is None or n.lineno < best.lineno:
                best = n
    if best is None:
        raise AnalysisError(f"anchor vanished: adapt_typehints arm `{marker}`")
    return best


def guard_atoms_(node, stop):
    from .util import guard_atoms

    return guard_atoms(node, stop=stop)



def _enclosing_test(node):
    from .srcmodel import ancestors

    prev = node
    for a in ancestors(node):
        if isinstance(a, (ast.If, ast.While, ast.IfExp)) and prev is a.test:
            return a.test
        if isinstance(a, ast.stmt):
            return None
        prev = a
    return None

from .util import guard_atoms as _ga14


def run(ctx: Ctx) -> int:
    ad = ctx.func("_typehints:adapt_typehints")
    ctx.expect_locals(ad, ["val", "typehint", "val_class", "not_subclass", "subtypehints", "prev_val", "return_type"])
    g = ctx.cfg(ad)

    # ---------------- C14.a Subclass arm ---------------------------------------
    arm = _arm(ad, "inspect.isclass(typehint)")
    body = arm.body
    in_arm = lambda n: any(contains(s, n) for s in body)  # noqa: E731
    vc_def = [s for s in walk_local(ad) if in_arm(s) and isinstance(s, ast.Assign) and root_name(s.targets[0]) == "val_class" and isinstance(s.targets[0], ast.Name)]
    ctx.need(len(vc_def) == 1, "Subclass arm: val_class = import_object(resolve_class_path_by_name(typehint, ...))")
    v = vc_def[0].value
    ok = isinstance(v, ast.Call) and call_leaf(v) == "import_object" and v.args and isinstance(v.args[0], ast.Call) and call_leaf(v.args[0]) == "resolve_class_path_by_name" and root_name(v.args[0].args[0]) == "typehint"
    ctx.oblige("C14.a", ok, vc_def[0], "the class is imported from the class_path resolved against the declared type" if ok else "val_class is no longer import_object(resolve_class_path_by_name(typehint, class_path))", fn=ad)
    act = [c for c in calls_in(ad) if in_arm(c) and call_leaf(c) == "adapt_class_type"]
    ctx.need(len(act) == 1, "Subclass arm: adapt_class_type call")
    sub_tests = [c for c in calls_in(ad) if in_arm(c) and call_leaf(c) == "is_subclass_or_implements_protocol" and len(c.args) == 2 and root_name(c.args[1]) == "typehint"]
    ctx.need(sub_tests, "Subclass arm: is_subclass_or_implements_protocol(..., typehint)")
    direct = [c for c in sub_tests if root_name(c.args[0]) == "val_class"]
    ctx.need(direct, "Subclass arm: is_subclass_or_implements_protocol(val_class, typehint)")
    # the flag protocol: not_subclass = False; if not test: not_subclass = True; [callable return type may clear it]; if not_subclass: raise
    flag_if = [n for n in walk_local(ad) if in_arm(n) and isinstance(n, ast.If) and isinstance(n.test, ast.Name) and n.test.id == "not_subclass"]
    ok = len(flag_if) == 1 and not g.can_reach([t for (_, t, _l) in g.branch_edges(flag_if[0], "t")], g.cn(act) + [g.exit], exclude_labels=NX) and any(
        isinstance(b, ast.Raise) or (isinstance(b, ast.Expr) and isinstance(b.value, ast.Call) and ctx.noreturn(b.value)) for b in flag_if[0].body
    )
    ctx.oblige("C14.a", ok, flag_if[0] if flag_if else arm, "a class that failed the subclass test is rejected (NoReturn helper)" if ok else "the not_subclass branch no longer raises", fn=ad, construct="not_subclass raises")
    if ok:
        # every path from val_class definition to adapt_class_type passes the direct test
        okd = g.must_pass(g.cn(direct), g.cn(vc_def), g.cn(act), strict=True)
        # stores of the flag
        sets_true = [s for s in walk_local(ad) if in_arm(s) and isinstance(s, ast.Assign) and root_name(s.targets[0]) == "not_subclass" and isinstance(s.value, ast.Constant) and s.value.value is True]
        sets_false = [s for s in walk_local(ad) if in_arm(s) and isinstance(s, ast.Assign) and root_name(s.targets[0]) == "not_subclass" and isinstance(s.value, ast.Constant) and s.value.value is False]
        other = [s for s in walk_local(ad) if in_arm(s) and isinstance(s, ast.Assign) and root_name(s.targets[0]) == "not_subclass" and s not in sets_true and s not in sets_false]
        okf = len(sets_true) == 1 and not other
        # the True store is exactly the failing side of the direct test
        if okf:
            gch = guard_chain(sets_true[0], stop=arm)
            t0, pol0 = gch[0]
            inner, pos = strip_not(t0)
            okf = inner is direct[0] and (pol0 == pos) is False
        # a False store after the True store must be under a positive subclass test against typehint
        for s in sets_false:
            if g.can_reach(g.cn(sets_true), g.cn(s)):
                gch = guard_chain(s, stop=arm)
                tt, pp = gch[0]
                inner, pos = strip_not(tt)
                okf = okf and inner in sub_tests and (pp == pos) is True
        # the flag test dominates acceptance
        okt = g.must_pass(g.node_ids_of(flag_if[0]), g.cn(vc_def), g.cn(act), strict=True)
        ctx.oblige(
            "C14.a",
            okd and okf and okt,
            act[0],
            "every path from the import of class_path to adapt_class_type passes is_subclass_or_implements_protocol(val_class|return type, typehint) with the failing side raising" if (okd and okf and okt) else "a class_path can reach adapt_class_type without (or despite failing) the subclass test against the declared type",
            fn=ad,
            details={"direct_test_dominates": okd, "flag_protocol": okf, "flag_test_dominates": okt},
        )
    # early returns before the test are themselves type tests against typehint
    rets = [r for r in walk_local(ad) if in_arm(r) and isinstance(r, ast.Return)]
    n_ret = 0
    for r in rets:
        gch = guard_chain(r, stop=arm)
        n_ret += 1
        txt = [ast.unparse(t) for t, _ in gch]
        okr = any(("is_instance_or_supports_protocol(" in t and "typehint" in t) for t in txt) or any(t.startswith("serialize and isinstance(val, str)") for t in txt)
        ctx.oblige("C14.a", okr, r, "early return only for values already of the declared type (or serialising a string spec)" if okr else "an early return of the Subclass arm is not guarded by a type test against the declared type", fn=ad)
    ctx.floor("C14.a-returns", n_ret, 3)

    # Callable arm: a class is accepted only if callable instances or subclass of the return type
    carm = _arm(ad, "callable_origin_types")
    in_carm = lambda n: any(contains(s_, n) for s_ in carm.body)  # noqa: E731
    ctest = [n for n in walk_local(ad) if in_carm(n) and isinstance(n, ast.If) and "callable_instances(val_class)" in ast.unparse(n.test) and "partial_classes" in ast.unparse(n.test)]
    ok = len(ctest) == 1 and body_raises(ctest[0].body, ctx.noreturn) is not None
    cact = [c for c in calls_in(ad) if in_carm(c) and call_leaf(c) == "adapt_class_type" and not (len(c.args) > 1 and isinstance(c.args[1], ast.Constant) and c.args[1].value is True)]
    if ok:
        ok = bool(cact) and g.dominates(g.node_ids_of(ctest[0]), g.cn(cact))
    ctx.oblige("C14.a", ok, ctest[0] if ctest else carm, "Callable arm: a class is accepted only if its instances are callable or it is a subclass of the declared return type" if ok else "Callable arm accepts classes without the callable/return-type test", fn=ad)
    apc = ctx.func("_typehints:adapt_partial_callable_class")
    t = [n for n in walk_local(apc) if isinstance(n, ast.If) and "is_subclass(class_type, subclass_types)" in ast.unparse(n.test)]
    st = [s for s in walk_local(apc) if isinstance(s, ast.Assign) and root_name(s.targets[0]) == "partial_classes" and isinstance(s.value, ast.Constant) and s.value.value is True]
    ok = len(t) == 1 and len(st) == 1 and contains(t[0], st[0])
    ctx.oblige("C14.a", ok, t[0] if t else apc, "partial_classes is set only when the class is a subclass of the callable's return type" if ok else "partial_classes no longer depends on the subclass test", fn=apc)
    # Type arm
    tarm = _arm(ad, "typehint in {Type, type}")
    tt = [n for n in walk_local(ad) if any(contains(s_, n) for s_ in tarm.body) and isinstance(n, ast.If) and "is_subclass(val, subtypehints[0])" in ast.unparse(n.test)]
    ok = len(tt) == 1 and body_raises(tt[0].body, ctx.noreturn) is not None
    ctx.oblige("C14.a", ok, tt[0] if tt else tarm, "Type[...] arm rejects import paths that are not subclasses of the declared class" if ok else "Type[...] arm lost its subclass test", fn=ad)

    # ---------------- C14.b one class throughout -------------------------------
    norm = [s for s in walk_local(ad) if in_arm(s) and isinstance(s, ast.Assign) and isinstance(s.targets[0], ast.Subscript) and const_str(s.targets[0].slice) == "class_path" and root_name(s.targets[0].value) == "val"]
    ok = len(norm) == 1 and isinstance(norm[0].value, ast.Call) and call_leaf(norm[0].value) == "get_import_path" and root_name(norm[0].value.args[0]) == "val_class" and g.dominates(g.cn(norm), g.cn(act)) and g.dominates(g.node_ids_of(flag_if[0]) if flag_if else [], g.cn(norm))
    ctx.oblige("C14.b", ok, norm[0] if norm else arm, "class_path is normalised from the checked class (not from user text) after the subclass test" if ok else "class_path normalisation does not use the checked class", fn=ad)
    act_fn = ctx.func("_typehints:adapt_class_type")
    ctx.expect_locals(act_fn, ["value", "val_class", "parser", "init_args", "dict_kwargs", "instantiator_fn", "prev_val"])
    ga = ctx.cfg(act_fn)
    vdef = [s for s in walk_local(act_fn) if isinstance(s, ast.Assign) and isinstance(s.targets[0], ast.Name) and s.targets[0].id == "val_class"]
    ok = len(vdef) == 1 and isinstance(vdef[0].value, ast.Call) and call_leaf(vdef[0].value) == "import_object" and ast.unparse(vdef[0].value.args[0]) == "value.class_path"
    ctx.oblige("C14.b", ok, vdef[0] if vdef else act_fn, "adapt_class_type imports exactly value.class_path" if ok else "adapt_class_type's class is not import_object(value.class_path)", fn=act_fn)
    gcp = [c for c in calls_in(act_fn) if call_leaf(c) == "get_class_parser"]
    inst = [c for c in calls_in(act_fn, include_nested=True) if isinstance(c.func, ast.Name) and c.func.id == "instantiator_fn"]
    ctx.need(gcp and len(inst) >= 2, "adapt_class_type: get_class_parser / instantiator_fn calls")
    ok = all(root_name(c.args[0]) == "val_class" for c in gcp) and all(c.args and root_name(c.args[0]) == "val_class" for c in inst)
    ctx.oblige("C14.b", ok, gcp[0], "the parser and every instantiation use the same val_class" if ok else "parser and instantiation refer to different classes", fn=act_fn)
    # value.class_path is not rebound between import and use
    cp_stores = [s for s in walk_local(act_fn) if isinstance(s, ast.Assign) and ((isinstance(s.targets[0], ast.Subscript) and const_str(s.targets[0].slice) == "class_path") or (isinstance(s.targets[0], ast.Attribute) and s.targets[0].attr == "class_path")) and root_name(s.targets[0]) == "value"]
    ctx.oblige("C14.b", not cp_stores, cp_stores[0] if cp_stores else act_fn, "class_path is not rewritten inside adapt_class_type" if not cp_stores else "adapt_class_type rewrites class_path after importing the class", fn=act_fn, construct="class_path stable")

    # what is carried over from the previous value (dict_kwargs) is used only for the same class
    carry = []
    for s_ in walk_local(act_fn):
        if isinstance(s_, ast.Assign) and "prev_val" in ast.unparse(s_.value) and "dict_kwargs" in ast.unparse(s_.value) and root_name(s_.targets[0]) == "dict_kwargs":
            carry.append(s_)
    ctx.need(carry, "adapt_class_type: merge of the previous dict_kwargs")
    for s_ in carry:
        same = False
        for t, pol in guard_chain(s_):
            for cmp_ in [x for x in ast.walk(t) if isinstance(x, ast.Compare) and len(x.ops) == 1 and isinstance(x.ops[0], ast.Eq)]:
                txt = ast.unparse(cmp_)
                if "class_path" in ast.unparse(cmp_.left) and "class_path" in ast.unparse(cmp_.comparators[0]) and "prev_val" in txt and "value" in txt and pol:
                    same = True
        ctx.oblige("C14.b", same, s_, "dict_kwargs of the previous value are merged only when the class_path is unchanged" if same else "dict_kwargs configured for the previous class are merged without a same-class test: they leak into a different class when a later source changes class_path", fn=act_fn)
    # the normalised class_path re-imports to the very object that was checked
    gip = ctx.func("_util:get_import_path")
    gg = ctx.cfg(gip)
    n_ip = 0
    for lp in [n_ for n_ in walk_local(gip) if isinstance(n_, ast.For)]:
        for s_ in walk_local(lp):
            if isinstance(s_, ast.Assign) and isinstance(s_.targets[0], ast.Name) and s_.targets[0].id == "path":
                n_ip += 1
                ok = False
                for t, pol in guard_chain(s_, stop=lp):
                    for cmp_ in [x for x in ast.walk(t) if isinstance(x, ast.Compare) and len(x.ops) == 1 and isinstance(x.ops[0], (ast.Is, ast.Eq))]:
                        if pol and (root_name(cmp_.comparators[0]) == "value" or root_name(cmp_.left) == "value"):
                            ok = True
                ctx.oblige("C14.b", ok, s_, "a shorter import path is chosen only if it resolves to the same object" if ok else "a shorter import path is chosen without checking that it resolves to the same object: class_path can be rewritten to a different class of the same name", fn=gip)
    ctx.floor("C14.b-import-path-shortcuts", n_ip, 2)

    # ---------------- C14.c nested first, exactly one construction --------------
    nested = [s for s in walk_local(act_fn) if isinstance(s, ast.Assign) and root_name(s.targets[0]) == "init_args" and isinstance(s.value, ast.Call) and call_leaf(s.value) == "instantiate_classes" and root_name(s.value.func) == "parser"]
    top_inst = [c for c in calls_in(act_fn) if isinstance(c.func, ast.Name) and c.func.id == "instantiator_fn"]
    ok = len(nested) == 1 and bool(top_inst) and ga.dominates(ga.cn(nested), ga.cn(top_inst))
    ctx.oblige("C14.c", ok, nested[0] if nested else act_fn, "nested class arguments are instantiated (parser.instantiate_classes) before the class itself" if ok else "the class can be constructed before its nested class arguments", fn=act_fn)
    for c in inst:
        splat = [k.value for k in c.keywords if k.arg is None]
        txt = " ".join(ast.unparse(s) for s in splat)
        ok = "init_args" in txt and "dict_kwargs" in txt
        ctx.oblige("C14.c", ok, c, "the constructor receives init_args plus dict_kwargs" if ok else "constructor arguments are not {**init_args, **dict_kwargs}", fn=act_fn)
    # exactly one construction per path through the instantiating part
    test_inst = [n for n in walk_local(act_fn) if isinstance(n, ast.If) and isinstance(n.test, ast.Name) and n.test.id == "instantiate_classes"]
    ctx.need(test_inst, "adapt_class_type: if instantiate_classes")
    start = [t for (a, t, lab) in ga.branch_edges(test_inst[0], "t")]
    paths = []
    for s0 in start:
        paths += ga.simple_paths(s0, [ga.exit], exclude_labels={"e", "r"})
    tin = set(ga.cn(top_inst))
    partial_ret = [r for r in walk_local(act_fn) if isinstance(r, ast.Return) and isinstance(r.value, ast.Name) and r.value.id == "partial_instance"]
    no_inst_ret = [r for r in walk_local(act_fn) if isinstance(r, ast.Return) and any("instantiate" in ast.unparse(t) and "sub_add_kwargs" in ast.unparse(t) for t, _ in guard_chain(r))]
    pr, nr = set(ga.cn(partial_ret)), set(ga.cn(no_inst_ret))
    bad = None
    for p in paths:
        # only paths that stay inside the instantiating branch
        n_i = sum(1 for i in p if i in tin)
        okp = n_i == 1 or (n_i == 0 and (set(p) & pr or set(p) & nr))
        if not okp:
            bad = p
    ctx.oblige("C14.c", bool(paths) and bad is None, test_inst[0], f"each of the {len(paths)} instantiating paths constructs exactly once (or returns the partial closure / the un-instantiated spec when instantiate=False)" if bad is None and paths else "an instantiating path constructs the class zero or several times", fn=act_fn, details={"path": ga.describe_path(bad) if bad else []})
    # the partial closure constructs exactly once
    pi = [n for n in walk_local(act_fn) if isinstance(n, ast.FunctionDef) and n.name == "partial_instance"]
    ok = len(pi) == 1 and len([c for c in calls_in(pi[0]) if isinstance(c.func, ast.Name) and c.func.id == "instantiator_fn"]) == 1
    ctx.oblige("C14.c", ok, pi[0] if pi else act_fn, "the partial closure constructs exactly once per call" if ok else "partial_instance does not call instantiator_fn exactly once", fn=act_fn, construct="partial closure")
    # ClassInstantiator.__call__: exactly one instantiator per path
    ci = ctx.func("_common:ClassInstantiator.__call__")
    gci = ctx.cfg(ci)
    rets = [r for r in walk_local(ci) if isinstance(r, ast.Return)]
    ok = len(rets) == 2 and all(isinstance(r.value, ast.Call) and r.value.args and root_name(r.value.args[0]) == "class_type" for r in rets) and gci.must_pass(gci.cn(rets), [gci.entry], [gci.exit], exclude_labels=NX)
    ctx.oblige("C14.c", ok, ci, "ClassInstantiator calls exactly one instantiator with the requested class on every path" if ok else "ClassInstantiator.__call__ can return without / with several instantiations", fn=ci)
    dci = ctx.func("_common:default_class_instantiator")
    rets = [r for r in walk_local(dci) if isinstance(r, ast.Return)]
    ok = len(rets) == 1 and isinstance(rets[0].value, ast.Call) and root_name(rets[0].value.func) == "class_type" and isinstance(rets[0].value.func, ast.Name)
    ctx.oblige("C14.c", ok, dci, "the default instantiator is class_type(*args, **kwargs)" if ok else "default_class_instantiator no longer constructs class_type", fn=dci)
    gi = ctx.func("_signatures:group_instantiate_class")
    ctx.expect_locals(gi, ["instantiator_fn"])
    ic = [c for c in calls_in(gi) if isinstance(c.func, ast.Name) and c.func.id == "instantiator_fn"]
    ok = len(ic) == 1 and ast.unparse(ic[0].args[0]) == "group.group_class" and not guard_chain(ic[0])
    ctx.oblige("C14.c", ok, ic[0] if ic else gi, "a class group is constructed exactly once from group.group_class" if ok else "group_instantiate_class construction changed", fn=gi)

    # ---------------- C14.d --------------------------------------------------
    po = [c for c in calls_in(act_fn) if call_leaf(c) == "parse_object" and root_name(c.func) == "parser"]
    ok = len(po) == 1 and root_name(po[0].args[0]) == "init_args"
    if ok:
        from .util import guard_atoms

        gch = guard_atoms(po[0], stop=act_fn)
        ok = len(gch) == 1 and isinstance(gch[0][0], ast.Name) and gch[0][0].id == "serialize" and gch[0][1] is False
        # reached on every non-serialising, non-instantiating, non-NestedArg path
    ctx.oblige("C14.d", ok, po[0] if po else act_fn, "on the parsing path init_args are always parsed by the class's own parser" if ok else "init_args can bypass parser.parse_object on the parsing path", fn=act_fn)

    # ---------------- C14.f: short names resolve for every importable subclass --------------------------------
    # get_all_subclass_paths.add_subclasses walks the whole subclass tree; what is *listed* is filtered
    # (abstract, private, protocol), what is *walked* is not - a filter on the walk hides every class below it
    gasp = ctx.func("_typehints:get_all_subclass_paths")
    addf = nested_defs(gasp).get("add_subclasses")
    ctx.need(addf, "get_all_subclass_paths.add_subclasses")
    ga2 = ctx.cfg(addf)
    walk_loops = [lp for lp in walk_local(addf) if isinstance(lp, ast.For) and "__subclasses__" in ast.unparse(lp.iter) and any(isinstance(c.func, ast.Name) and c.func.id == "add_subclasses" for c in calls_in(lp))]
    appends = [c for c in calls_in(addf) if call_leaf(c) == "append"]
    ctx.need(len(walk_loops) == 1 and appends, "add_subclasses: loop over cl.__subclasses__() and the listing append")
    listing_filters = set()
    for t, pol in guard_chain(appends[0], stop=addf):
        for c in [x for x in ast.walk(t) if isinstance(x, ast.Call)]:
            if call_leaf(c) and call_leaf(c) not in ("isinstance", "hasattr", "getattr"):
                listing_filters.add(call_leaf(c))
    walk_guards = set()
    for t, pol in ga2.guards_of(ga2.cn(walk_loops[0]), exclude_labels={"e"}):
        for c in [x for x in ast.walk(t) if isinstance(x, ast.Call)]:
            if call_leaf(c):
                walk_guards.add(call_leaf(c))
    LISTING_ONLY = {"is_private", "isabstract", "is_protocol"}  # what makes a class unsuitable as a *choice*, not as a parent of choices
    WALK_ALLOWED = {"hasattr", "get_typehint_origin", "union", "is_local", "is_subclass", "get_import_path"}
    unknown = sorted(walk_guards - LISTING_ONLY - WALK_ALLOWED - listing_filters)
    if unknown:
        raise AnalysisError(f"add_subclasses: the walk over subclasses depends on {unknown}; classify it (listing filter or legitimate cut) in rules_C14.py")
    shared_f = sorted(walk_guards & (LISTING_ONLY | (listing_filters - WALK_ALLOWED)))
    ok = not shared_f and bool(listing_filters & LISTING_ONLY)
    ctx.oblige(
        "C14.f",
        ok,
        walk_loops[0],
        f"the walk over subclasses is not conditioned on the listing filters {sorted(listing_filters)}" if ok else f"the walk over subclasses is cut off by the listing filter(s) {shared_f}: a public class below a private / abstract / protocol class is never listed, so its bare name no longer resolves although its full path is accepted",
        fn=addf,
    )

    # ---------------- C14.k: whose signature describes a class --------------------------------------------------------
    # (1) __new__ replaces __init__ as the signature only if the class's __new__ is its OWN (different from that of every
    #     class behind it in the MRO): `not any(same)`
    hdn = ctx.func("_parameter_resolvers:has_dunder_new_method")
    quants = [c for c in calls_in(hdn) if isinstance(c.func, ast.Name) and c.func.id in ("any", "all") and "__new__" in ast.unparse(c)]
    ctx.need(quants, "has_dunder_new_method: quantified comparison of __new__ over the MRO")
    for c in quants:
        neg = isinstance(getattr(c, "_jv_parent", None), ast.UnaryOp) and isinstance(getattr(c, "_jv_parent").op, ast.Not)
        cmp_ = c.args[0].elt if c.args and isinstance(c.args[0], ast.GeneratorExp) else None
        same = isinstance(cmp_, ast.Compare) and isinstance(cmp_.ops[0], ast.Is)
        ok = (c.func.id == "any" and neg and same) or (c.func.id == "all" and not neg and isinstance(cmp_, ast.Compare) and isinstance(cmp_.ops[0], ast.IsNot))
        ctx.oblige("C14.k", ok, c, "a custom __new__ counts only when no class behind it in the MRO has the same one" if ok else f"`{src(c, 60)}`: a class that merely INHERITS a custom __new__ is described by the parent's __new__ signature instead of its own __init__ - valid init_args are rejected, invalid ones accepted and the constructor fails", fn=hdn)
    # (2) default instances are turned into class specs before the *args/**kwargs expansion adds inherited parameters
    gpv = ctx.func("_parameter_resolvers:ParametersVisitor.get_parameters")
    gg = ctx.cfg(gpv)
    rep = [c for c in calls_in(gpv) if call_leaf(c) == "replace_param_default_subclass_specs"]
    exp = [c for c in calls_in(gpv) if call_leaf(c) == "replace_args_and_kwargs"]
    ctx.need(rep and exp, "ParametersVisitor.get_parameters: replace_param_default_subclass_specs / replace_args_and_kwargs")
    ok = gg.dominates(gg.cn(rep), gg.cn(exp)) and not gg.can_reach(gg.cn(exp), gg.cn(rep))
    ctx.oblige("C14.k", ok, rep[0], "default instances are converted for the component's own parameters, before inherited ones are merged in" if ok else "replace_param_default_subclass_specs runs after the **kwargs expansion: an inherited parameter with an instance default trips its assertion, resolution silently falls back to assumptions and offers keywords the subclass fixes in its super().__init__ call", fn=gpv, construct="default specs before kwargs expansion")
    # (3) the public instantiate_classes accepts a plain dict: converted when the ARGUMENT is a dict
    pad = ctx.func("_deprecated:parse_as_dict_patch")
    pic = nested_defs(pad).get("patched_instantiate_classes")
    ctx.need(pic, "parse_as_dict_patch.patched_instantiate_classes")
    cp_ = pic.args.args[1].arg
    conv = [c for c in calls_in(pic) if call_leaf(c) == "_apply_actions"]
    ok = bool(conv) and all(any(isinstance(t, ast.Call) and call_leaf(t) == "isinstance" and isinstance(t.args[0], ast.Name) and t.args[0].id == cp_ and pol for t, pol in guard_atoms_(c, pic)) for c in conv)
    ctx.oblige("C14.k", ok, conv[0] if conv else pic, "a dict configuration is converted to a Namespace before classes are instantiated" if ok else "the dict -> Namespace conversion of instantiate_classes no longer depends on the argument being a dict: a configuration given as a plain dict (json.loads(parser.dump(cfg))) comes back untouched - nothing is instantiated, no error", fn=pic)

    # (4) a class is a fixed dataclass GROUP only if every class behind it is a dataclass (mixed inheritance - a plain
    #     class deriving from a dataclass, a dataclass deriving from a plain class - stays a sub-classable type whose
    #     class_path can be chosen)
    idl = ctx.func("_common:is_dataclass_like")
    quant = [c for c in calls_in(idl) if isinstance(c.func, ast.Name) and c.func.id in ("all", "any") and any(call_leaf(x) == "is_dataclass" for x in calls_in(c))]
    ok = bool(quant) and all(c.func.id == "all" and c.args and isinstance(c.args[0], ast.GeneratorExp) for c in quant) and not [c for c in calls_in(idl) if call_leaf(c) == "is_dataclass" and not any(c in ast.walk(q) for q in quant)]
    ctx.oblige("C14.k", ok, quant[0] if quant else idl, "dataclass-likeness is decided over the whole MRO" if ok else "is_dataclass_like looks at the class alone (dataclasses.is_dataclass is true for anything that INHERITS __dataclass_fields__): a dataclass deriving from a plain class becomes a fixed group - every class_path of a valid subclass is refused, a lazy_instance default of a subclass silently builds the base class", fn=idl, construct="dataclass-like over the MRO")

    # ---------------- C14.j: every class argument is visited by the merge-time discard ----------------------------
    # ActionTypeHint.discard_init_args_on_class_path_change walks a key list by index and prunes the entries nested
    # under a handled class argument; the list it continues on must still start with the visited prefix, or the walk
    # skips the sibling that follows
    dmw = ctx.func("_typehints:ActionTypeHint.discard_init_args_on_class_path_change")
    wl = [w for w in walk_local(dmw) if isinstance(w, ast.While) and isinstance(w.test, ast.Compare) and isinstance(w.test.left, ast.Name) and isinstance(w.test.comparators[0], ast.Call) and call_leaf(w.test.comparators[0]) == "len" and isinstance(w.test.comparators[0].args[0], ast.Name)]
    ctx.need(len(wl) == 1, "discard_init_args_on_class_path_change: while <i> < len(<keys>)")
    iv, kv = wl[0].test.left.id, wl[0].test.comparators[0].args[0].id
    rebinds = [s for s in walk_local(wl[0]) if isinstance(s, ast.Assign) and any(isinstance(t, ast.Name) and t.id == kv for t in s.targets)]
    for s in rebinds:
        v = s.value
        pre = v.left if isinstance(v, ast.BinOp) and isinstance(v.op, ast.Add) else None
        ok = (
            isinstance(pre, ast.Subscript)
            and isinstance(pre.value, ast.Name)
            and pre.value.id == kv
            and isinstance(pre.slice, ast.Slice)
            and pre.slice.lower is None
            and pre.slice.upper is not None
            and ast.unparse(pre.slice.upper).replace(" ", "") in (f"{iv}+1", f"1+{iv}")
        )
        ctx.oblige("C14.j", ok, s, f"the pruned key list keeps the visited prefix `{kv}[:{iv} + 1]`" if ok else f"`{src(s, 70)}` rebuilds `{kv}` without the visited prefix while `{iv}` keeps counting: the entry after a handled class argument is never visited, so a later sibling keeps the init_args of its PREVIOUS class after a class_path change (merged configurations are rejected on re-parse)", fn=dmw)
    incs = [s for s in walk_local(wl[0]) if isinstance(s, ast.AugAssign) and isinstance(s.target, ast.Name) and s.target.id == iv]
    ok = len(incs) == 1 and not guard_chain(incs[0], stop=wl[0])
    ctx.oblige("C14.j", ok, incs[0] if incs else wl[0], "the index advances by one on every iteration" if ok else "the index of the key walk does not advance unconditionally", fn=dmw, construct="index advances")

    # ---------------- C14.i: which classes' parameters a class inherits ------------------------------------------
    # ast_is_supported_super_call records where in the MRO an explicit `super(X, self).__init__` continues: it
    # enumerates a SLICE of the class list (classes[idx:]) and has to store the absolute position idx + offset
    assc = ctx.func("_parameter_resolvers:ast_is_supported_super_call")
    for lp_s in [lp for lp in walk_local(assc) if isinstance(lp, ast.For) and isinstance(lp.iter, ast.Call) and call_leaf(lp.iter) == "enumerate" and lp.iter.args and isinstance(lp.iter.args[0], ast.Subscript) and isinstance(lp.iter.args[0].slice, ast.Slice) and lp.iter.args[0].slice.lower is not None]:
        base_seq = ast.unparse(lp_s.iter.args[0].value)
        start = ast.unparse(lp_s.iter.args[0].slice.lower)
        off = lp_s.target.elts[0].id if isinstance(lp_s.target, ast.Tuple) and isinstance(lp_s.target.elts[0], ast.Name) else None
        sets_ = [c for c in calls_in(lp_s) if call_leaf(c) == "set" and c.args and isinstance(c.args[0], ast.Tuple) and any(ast.unparse(e) == base_seq for e in c.args[0].elts)]
        for c in sets_:
            idx_e = [e for e in c.args[0].elts if ast.unparse(e) != base_seq]
            ok = bool(idx_e) and all(isinstance(e, ast.BinOp) and isinstance(e.op, ast.Add) and {ast.unparse(e.left), ast.unparse(e.right)} == {start, off} for e in idx_e)
            ctx.oblige(
                "C14.i",
                ok,
                c,
                f"the position stored with `{base_seq}` is absolute (`{start} + {off}`)" if ok else f"`{src(c, 60)}` stores the offset inside the slice `{base_seq}[{start}:]` as if it were a position in `{base_seq}`: for an explicit super(X, self).__init__ in an intermediate class the resolver continues at the wrong class - parameters of a deliberately skipped base are offered, accepted, and the constructor fails with an unexpected keyword",
                fn=assc,
            )

    # ---------------- C14.h: a class implements a Protocol only if it matches EVERY member ------------------------
    ipr = ctx.func("_typehints:implements_protocol")
    ploops = [lp for lp in walk_local(ipr) if isinstance(lp, ast.For)]
    ctx.need(len(ploops) >= 1, "implements_protocol: loop over the protocol's members")
    lp_ = ploops[0]
    inner_rets = [r for r in walk_local(lp_) if isinstance(r, ast.Return)]
    pos_in_loop = [r for r in inner_rets if not (isinstance(r.value, ast.Constant) and r.value.value is False)]
    has_t = [n_ for n_ in walk_local(lp_) if isinstance(n_, ast.If) and any(isinstance(c, ast.Call) and call_leaf(c) == "hasattr" for c in ast.walk(n_.test))]
    from .util import branch_when

    missing_ok = bool(has_t) and all(any(isinstance(s_, ast.Return) and isinstance(s_.value, ast.Constant) and s_.value.value is False for s_ in branch_when(n_, False)) for n_ in has_t)
    after = [r for r in ipr.body[ipr.body.index(lp_) + 1 :] if isinstance(r, ast.Return)] if lp_ in ipr.body else []
    ok = not pos_in_loop and len(inner_rets) >= 3 and missing_ok and bool(after)
    ctx.oblige(
        "C14.h",
        ok,
        (pos_in_loop or has_t or [lp_])[0],
        "implements_protocol rejects on the first member that is missing or differs and accepts only after all members were compared" if ok else "the member loop of implements_protocol is no longer a for-all: it accepts after the first matching member, or skips members the class does not have - a class implementing only part of a multi-method Protocol is accepted for a parameter of that Protocol type",
        fn=ipr,
        construct="protocol check is a for-all",
    )

    # ---------------- C14.g: a required init parameter is always offered ----------------------------------------
    # _add_signature_parameter leaves out private parameters (leading underscore) - but only optional ones: a
    # required `_x` that is not offered can neither be given (rejected as unknown) nor omitted (TypeError at build)
    asp = ctx.func("_signatures:SignatureArguments._add_signature_parameter")
    req_defs = [s for s in walk_local(asp) if isinstance(s, ast.Assign) and isinstance(s.targets[0], ast.Name) and isinstance(s.value, ast.Compare) and "inspect_empty" in ast.unparse(s.value) and isinstance(s.value.ops[0], ast.Eq)]
    ctx.need(req_defs, "_add_signature_parameter: <is_required> = default == inspect_empty")
    rq = req_defs[0].targets[0].id
    priv = [n_ for n_ in walk_local(asp) if isinstance(n_, ast.Compare) and isinstance(n_.left, ast.Subscript) and isinstance(n_.left.slice, ast.Constant) and n_.left.slice.value == 0 and const_str(n_.comparators[0]) == "_"]
    ctx.need(priv, "_add_signature_parameter: name[0] == '_'")
    for pc_ in priv:
        par = getattr(pc_, "_jv_parent", None)
        ok = isinstance(par, ast.BoolOp) and isinstance(par.op, ast.And) and any(isinstance(v, ast.UnaryOp) and isinstance(v.op, ast.Not) and isinstance(v.operand, ast.Name) and v.operand.id == rq for v in par.values)
        ctx.oblige("C14.g", ok, pc_, f"private parameters are left out only when they are optional (`not {rq} and ...`)" if ok else f"the private-name skip no longer requires `not {rq}`: a required init parameter named `_x` is not offered - giving it is rejected as an unknown key, omitting it is accepted and the constructor fails with a missing argument", fn=asp)

    # ---------------- C14.e: init_args kept across a class_path change are valid for the new class -----------
    # discard_init_args_on_class_path_change keeps an old init_arg only if the NEW class's parser accepts it; the
    # test is `_check_value_key` raising or not.  _check_value_key reads the lenient_check context variable and
    # accepts None unchecked when it is on, so a caller that uses it as a decision procedure has to pin it off.
    dia = ctx.func("_typehints:discard_init_args_on_class_path_change")
    cvk = ctx.func("_core:ArgumentParser._check_value_key")
    reads_lenient = any(call_leaf(c) == "get" and isinstance(c.func, ast.Attribute) and dotted(c.func.value) == "lenient_check" for c in calls_in(cvk))
    checks = [c for c in calls_in(dia) if call_leaf(c) == "_check_value_key"]
    ctx.need(checks, "discard_init_args_on_class_path_change: call of _check_value_key")
    for c in checks:
        swallowing = [t for t, part in enclosing_trys(c) if part == "body" and any(not any(isinstance(x, ast.Raise) for x in ast.walk(h)) for h in t.handlers)]
        pinned = False
        for w, item in enclosing_withs(c, stop=dia):
            ce = item.context_expr
            if isinstance(ce, ast.Call) and call_leaf(ce) == "parser_context":
                kw = get_kwarg(ce, "lenient_check")
                if isinstance(kw, ast.Constant) and kw.value is False:
                    pinned = True
        ok = bool(swallowing) and (pinned or not reads_lenient)
        ctx.oblige(
            "C14.e",
            ok,
            c,
            "the validity test for a kept init_arg runs with lenient_check pinned to False (a None value is checked against the new class's parameter type)" if ok else "the validity test for a kept init_arg runs under the caller's lenient_check: inside lenient contexts _check_value_key accepts None unchecked, so an old `p=None` survives a change to a class whose `p` does not accept None",
            fn=dia,
        )
    # every component of a class spec that belongs to the CLASS (what is_subclass_spec allows besides class_path and
    # metadata) is dealt with when the class changes - configurations are merged leaf by leaf, so what is not removed
    # from the previous value survives into the new class's spec
    iss = ctx.func("_typehints:is_subclass_spec")
    allowed = set()
    for n_ in ast.walk(iss):
        if isinstance(n_, ast.Set) and all(isinstance(e, ast.Constant) and isinstance(e.value, str) for e in n_.elts) and any(e.value == "class_path" for e in n_.elts):
            allowed = {e.value for e in n_.elts}
    ctx.need({"class_path", "init_args"} <= allowed, "is_subclass_spec: the set of keys a spec may have")
    parts = sorted(k for k in allowed if k != "class_path" and not k.startswith("__"))
    acall = ctx.func("_typehints:ActionTypeHint.__call__")
    for part in parts:
        in_merge = any(isinstance(n_, ast.Constant) and n_.value == part for n_ in ast.walk(dia))
        removed_merge = any((isinstance(c, ast.Call) and call_leaf(c) == "pop" and ((c.args and const_str(c.args[0]) == part) or part in ast.unparse(c.func))) for c in calls_in(dia))
        in_argv = any(isinstance(n_, ast.Constant) and n_.value == part for n_ in ast.walk(acall))
        ok = in_merge and removed_merge and in_argv
        ctx.oblige(
            "C14.e",
            ok,
            dia,
            f"`{part}` of the previous class is dealt with on a class_path change (merge path and command line path)" if ok else f"`{part}` of the previous spec is not dealt with when the class_path changes ({'merge path' if not (in_merge and removed_merge) else 'command line path'}): the value merged leaf by leaf keeps the old class's `{part}`, and the new class is built with arguments it does not accept",
            fn=dia,
            construct=f"class change handles {part}",
        )
    pops = [c for c in calls_in(dia) if call_leaf(c) == "pop" and "init_args" in ast.unparse(c.func)]
    ok = bool(pops)
    if ok:
        gch = guard_chain(pops[0], stop=dia)
        inner = gch[0] if gch else None
        ok = inner is not None and isinstance(inner[0], ast.UnaryOp) and isinstance(inner[0].op, ast.Not) and inner[1] and isinstance(inner[0].operand, ast.Name)
        if ok:
            flag = inner[0].operand.id
            resets = [s for s in walk_local(dia) if isinstance(s, ast.Assign) and any(isinstance(t, ast.Name) and t.id == flag for t in s.targets) and isinstance(s.value, ast.Constant) and s.value.value is None]
            ok = any(any(part == "handler" for _, part in enclosing_trys(s)) for s in resets) and any(isinstance(s, ast.Assign) and any(isinstance(t, ast.Name) and t.id == flag for t in s.targets) and isinstance(s.value, ast.Call) and call_leaf(s.value) == "_find_action" for s in walk_local(dia))
    ctx.oblige("C14.e", ok, pops[0] if pops else dia, "an old init_arg is discarded when the new class has no such parameter or its parser rejects the value" if ok else "the discard condition of discard_init_args_on_class_path_change changed (no longer: unknown to the new class, or rejected by it)", fn=dia, construct="discard condition")

    # ---------------- C14.l: the implicit class of a short form is the DECLARED type, unless that is abstract ------------
    ath14 = ctx.func("_typehints:adapt_typehints")
    thp = ath14.args.args[1].arg if len(ath14.args.args) > 1 else "typehint"
    n_abs = 0
    for c in calls_in(ath14):
        if call_name(c) == "inspect.isabstract" and c.args:
            at = [t for t, pol in _ga14(c, stop=ath14)]
            sib = [x for n_ in ast.walk(_enclosing_test(c)) for x in [n_] if isinstance(x, ast.Call) and call_leaf(x) == "is_protocol"] if _enclosing_test(c) is not None else []
            if not sib:
                continue
            n_abs += 1
            ok = ast.unparse(c.args[0]) == ast.unparse(sib[0].args[0])
            ctx.oblige("C14.l", ok, c, "abstractness and protocol-ness are asked of the same (declared) type" if ok else f"`{ast.unparse(c)}` asks whether `{ast.unparse(c.args[0])}` is abstract, next to `{ast.unparse(sib[0])}` about the declared type: an abstract declared class becomes the implicit class_path of a short form (`--x.a=1`), the parse accepts it and instantiate_classes raises TypeError", fn=ath14)
    ctx.floor("C14.l-abstract-tests", n_abs, 1)

    return ctx.finish(
        explanation=(
            "Dominance/guard checks in the Subclass, Callable and Type arms of adapt_typehints and in adapt_class_type: the subclass test against the declared type dominates acceptance "
            "(including the not_subclass flag protocol), class_path is normalised from the checked class, parser and instantiation use the same class, nested objects are built first and "
            "every instantiating path constructs exactly once. Order and identity obligations only; that every accepted spec instantiates for all class families is not decided."
        ),
        rule_text="one obligation per guard / identity / path family; instantiating paths enumerated exhaustively (simple paths)",
    )
