"""C08 - parse, validate, dump and instantiate never modify what they are given.

Decided clauses:
  C08.a  interprocedural parameter-mutation summaries (E5) for the public API and
         for the value adapters: no write reaches an object the caller owns
         (levels TOP / INTERIOR); possible writes below tuples/sets are listed as
         observations (the copies made by clone()/strip_meta() stop at tuples)
  C08.b  process-global state (cwd, argparse.Namespace, os.environ) is written
         only by its owners and restored on every path
  C08.c  declared defaults leave the parser only through a copy and are written
         only by the set-up API
Not decided: "instantiating twice builds distinct objects" beyond the structural
facts above.
"""

from __future__ import annotations

import ast
from typing import List

from .effects import DECLARED_DEFAULT, INTERIOR, TOP, UT, check_param_not_mutated, get_effects
from .report import Ctx
from .shared_rules import check_global_state_restore, check_recreate_branches
from .srcmodel import call_leaf, calls_in, contains, dotted, src, walk_local
from .util import enclosing_trys, guard_chain, root_name

PUBLIC = [
    ("_core:ArgumentParser.parse_args", ["args", "namespace"]),
    ("_core:ArgumentParser.parse_object", ["cfg_obj", "cfg_base"]),
    ("_core:ArgumentParser.parse_env", ["env"]),
    ("_core:ArgumentParser.validate", ["cfg"]),
    ("_core:ArgumentParser.dump", ["cfg"]),
    ("_core:ArgumentParser.save", ["cfg"]),
    ("_core:ArgumentParser.merge_config", ["cfg_from", "cfg_to"]),
    ("_core:ArgumentParser.strip_unknown", ["cfg"]),
    ("_core:ArgumentParser.instantiate_classes", ["cfg"]),
    ("_core:ArgumentParser.get_config_files", ["cfg"]),
]
# value adapters: regression guards for the in-place writes repaired on this tree
ADAPTERS = [
    ("_typehints:adapt_typehints", "val", (TOP, INTERIOR)),
    ("_typehints:adapt_typehints", "default", (TOP, INTERIOR)),
    # adapt_classes_any still edits the init_args namespace of a spec in place (library-owned copies only: no
    # public call hands it a caller-owned namespace); guarded at TOP, where the repaired list/dict writes were
    ("_typehints:adapt_classes_any", "val", (TOP,)),
    ("_typehints:adapt_class_type", "value", (TOP, INTERIOR)),
    ("_typehints:subclass_spec_as_namespace", "val", (TOP, INTERIOR)),
    ("_typehints:ActionTypeHint.instantiate_classes", "value", (TOP,)),
    ("_typehints:ActionTypeHint.serialize", "value", (TOP,)),
    ("_typehints:ActionTypeHint._check_type", "value", (TOP,)),
    # jsonnet external variables: parse_string / parse_path(ext_vars=d) hand the caller's dict down through the
    # loader table (a dynamic dispatch the call graph does not follow), so the receiving end is checked itself
    ("_jsonnet:ActionJsonnet.split_ext_vars", "ext_vars", (TOP, INTERIOR)),
    ("_jsonnet:ActionJsonnet.parse", "ext_vars", (TOP, INTERIOR)),
]
DEFAULT_WRITERS = {
    "_core:ActionsContainer.set_defaults": "set-up API that declares defaults",
    "_typehints:ActionTypeHint.__init__": "normalisation of the declared default when the argument is added",
    "_jsonnet:ActionJsonnet._check_ext_vars_action": "argument set-up (ext_vars default {})",
    "_formatters:DefaultHelpFormatter._expand_help": "temporary default for help rendering, restored afterwards",
}


def run(ctx: Ctx) -> int:
    eff = get_effects(ctx)
    ctx.analysed["call_graph"] = dict(eff.cg.stats)
    ctx.analysed["summarised_functions"] = len(eff.analysed)
    ctx.analysed["fixpoint_iterations"] = eff.iterations

    # ---------------- C08.a ---------------------------------------------------
    observations: List[dict] = []
    n = 0
    for fref, params in PUBLIC:
        for p in params:
            n += 1
            check_param_not_mutated(
                ctx,
                "C08.a",
                fref,
                p,
                why_ok=f"no write reaches the caller's `{p}` (nor an object inside it)",
                why_bad=f"the caller's `{p}` (or an object inside it) is written to",
            )
            lvl = eff.mut.get(fref, {}).get(p)
            if lvl == UT:
                observations.append({"entry": fref, "param": p, "note": "copied down to tuples/sets only; an object read out of the copy is written in place (real only for a container below a tuple)", "chain": eff.chain(fref, p)})
    for fref, p, lv in ADAPTERS:
        n += 1
        check_param_not_mutated(
            ctx,
            "C08.a",
            fref,
            p,
            levels=lv,
            why_ok=f"the adapter does not write into the `{p}` it is given",
            why_bad=f"the adapter writes into the `{p}` it is given (callers hand it objects from the caller's configuration, also below tuples where clone() does not copy)",
        )
    # _check_value_key itself: the plain `type=` arm builds a new list (its jsonschema / jsonnet siblings still
    # write into nargs lists, which are library-owned copies on every public path - listed as observation)
    cvk = ctx.func("_core:ArgumentParser._check_value_key")
    st_ = [s for s in walk_local(cvk) if isinstance(s, (ast.Assign, ast.AugAssign)) and any(isinstance(t, ast.Subscript) and root_name(t.value) == "value" for t in (s.targets if isinstance(s, ast.Assign) else [s.target]))]
    ctx.oblige("C08.a", not st_, st_[0] if st_ else cvk, "_check_value_key does not store into the value it is given" if not st_ else "_check_value_key writes converted elements back into the list it was given", fn=cvk, construct="no store into value")
    lv_ = eff.mut.get("_core:ArgumentParser._check_value_key", {}).get("value")
    if lv_:
        observations.append({"entry": "_core:ArgumentParser._check_value_key", "param": "value", "note": "sibling _check_type implementations (jsonschema / jsonnet) write into nargs lists in place; every public path hands them library-owned copies", "chain": eff.chain("_core:ArgumentParser._check_value_key", "value")})
    ctx.floor("C08.a", n, 18)
    ctx.extra["under_tuple_observations"] = observations

    # the copy primitives the summaries rely on really copy namespaces, dicts and lists (not tuples / sets)
    kinds = check_recreate_branches(ctx, "C08.a")
    ctx.extra["copy_model"] = {"recreate_branches_copies": sorted(kinds), "stops_at": "tuple, set, OrderedDict and other objects"}
    cl = ctx.func("_namespace:Namespace.clone")
    ok = any(isinstance(r.value, ast.Call) and call_leaf(r.value) == "recreate_branches" and root_name(r.value.args[0]) == "self" for r in walk_local(cl) if isinstance(r, ast.Return))
    ctx.oblige("C08.a", ok, cl, "Namespace.clone() is recreate_branches(self)" if ok else "Namespace.clone() no longer copies through recreate_branches", fn=cl)
    sm = ctx.func("_namespace:strip_meta")
    lv_sm = eff.ret.get("_namespace:strip_meta", {}).get("cfg", set())
    ok = bool(lv_sm) and lv_sm <= {"DEEP0"}
    ctx.oblige("C08.a", ok, sm, "strip_meta() always returns a copy of its argument (return summary: deep copy down to tuples)" if ok else f"strip_meta() can return its argument uncopied (return aliases: {sorted(lv_sm)})", fn=sm)

    # copies at the API boundary are still there (the summaries depend on them; stated as explicit obligations
    # so that a removed clone()/strip_meta() is named directly)
    for fref, var, copy_leaves in (
        ("_core:ArgumentParser.validate", "cfg", {"clone"}),
        ("_core:ArgumentParser.dump", "cfg", {"strip_meta"}),
        ("_core:ArgumentParser.instantiate_classes", "cfg", {"strip_meta"}),
        ("_core:ArgumentParser.strip_unknown", "cfg", {"clone"}),
        ("_core:ArgumentParser.merge_config", "cfg_from", {"clone"}),
        ("_core:ArgumentParser.merge_config", "cfg_to", {"clone"}),
        ("_core:ArgumentParser.parse_args", "args", {"list"}),
    ):
        fn = ctx.func(fref)
        g = ctx.cfg(fn)
        rebinds = [
            s
            for s in walk_local(fn)
            if isinstance(s, ast.Assign)
            and any(isinstance(t, ast.Name) and t.id == var for t in s.targets)
            and ((isinstance(s.value, ast.Call) and call_leaf(s.value) in copy_leaves) or (isinstance(s.value, ast.Subscript) and isinstance(s.value.slice, ast.Slice)))
        ]
        ok = bool(rebinds)
        if ok:
            # the rebinding dominates every later use of the variable in a call
            uses = [c for c in calls_in(fn) if any(isinstance(a, ast.Name) and a.id == var for a in list(c.args) + [k.value for k in c.keywords]) and not any(contains(r, c) for r in rebinds)]
            uses = [c for c in uses if call_leaf(c) not in ("isinstance", "error", "debug", "all", "deprecated_skip_check")]
            ok = g.dominates(g.cn(rebinds), g.cn(uses)) if uses else True
        ctx.oblige("C08.a", ok, rebinds[0] if rebinds else fn, f"`{var}` is replaced by its copy ({'/'.join(sorted(copy_leaves))}) before it is used" if ok else f"`{var}` is used without (or before) being copied", fn=fn, construct=f"{var} copied at entry")

    # ---------------- C08.b ---------------------------------------------------
    check_global_state_restore(ctx, "C08.b")

    # ---------------- C08.c ---------------------------------------------------
    gd = ctx.func("_core:ArgumentParser.get_defaults")
    ctx.expect_locals(gd, ["cfg", "action"])
    stores = [s for s in walk_local(gd) if isinstance(s, ast.Assign) and isinstance(s.targets[0], ast.Subscript) and root_name(s.targets[0].value) == "cfg" and any(isinstance(n, ast.Attribute) and n.attr == "default" for n in ast.walk(s.value))]
    if not stores:
        # the store goes through a local: find `<local> = action.default` and the store of that local
        via = [s_ for s_ in walk_local(gd) if isinstance(s_, ast.Assign) and isinstance(s_.targets[0], ast.Name) and isinstance(s_.value, ast.Attribute) and s_.value.attr == "default"]
        for v_ in via:
            st2 = [s_ for s_ in walk_local(gd) if isinstance(s_, ast.Assign) and isinstance(s_.targets[0], ast.Subscript) and root_name(s_.targets[0].value) == "cfg" and isinstance(s_.value, ast.Name) and s_.value.id == v_.targets[0].id]
            copies = [s_ for s_ in walk_local(gd) if isinstance(s_, ast.Assign) and isinstance(s_.targets[0], ast.Name) and s_.targets[0].id == v_.targets[0].id and isinstance(s_.value, ast.Call) and call_leaf(s_.value) in ("recreate_branches", "deepcopy")]
            from .util import guard_atoms as _ga8

            for st_ in st2:
                ok = bool(copies) and all(not _ga8(c_, stop=gd) or _ga8(c_, stop=gd) == _ga8(st_, stop=gd) for c_ in copies) and ctx.cfg(gd).must_pass(ctx.cfg(gd).cn(copies), ctx.cfg(gd).cn(v_), ctx.cfg(gd).cn(st_), exclude_labels={"e"}, strict=True)
                ctx.oblige("C08.c", ok, st_, "declared defaults enter the defaults namespace through a copy on every path" if ok else "a declared default reaches the returned configuration without a copy on some path (the copy is conditional on the default's class): a dict default is shared with the parse result, values parsed into it stay in the parser's declared default for every later parse", fn=gd)
                stores.append(st_)
    ctx.need(stores, "get_defaults: cfg[action.dest] = <copy>(action.default)")
    stores = [s_ for s_ in stores if any(isinstance(n, ast.Attribute) and n.attr == "default" for n in ast.walk(s_.value))]
    for s in stores:
        v = s.value
        ok = isinstance(v, ast.Call) and call_leaf(v) in ("recreate_branches", "deepcopy") and v.args and isinstance(v.args[0], ast.Attribute) and v.args[0].attr == "default"
        ctx.oblige("C08.c", ok, s, "declared defaults enter the defaults namespace through recreate_branches (a copy)" if ok else "a declared default object is placed in the returned configuration without a copy: callers that edit the result edit the parser's defaults", fn=gd)
    n_w = 0
    for fq, fn in ctx.repo.all_funcs():
        for s in walk_local(fn):
            if isinstance(s, (ast.Assign, ast.AugAssign, ast.AnnAssign)):
                tgs = s.targets if isinstance(s, ast.Assign) else [s.target]
                for t in tgs:
                    if isinstance(t, ast.Attribute) and t.attr == "default" and not (isinstance(t.value, ast.Name) and t.value.id in ("param",)):
                        if fq.startswith(("_parameter_resolvers:", "_stubs_resolver:", "_postponed_annotations:", "_deprecated:")):
                            continue
                        n_w += 1
                        ok = fq in DEFAULT_WRITERS
                        ctx.oblige("C08.c", ok, s, f"declared default written by its owner ({DEFAULT_WRITERS.get(fq)})" if ok else "an action's declared default is overwritten outside the set-up API", fn=fn)
                    if isinstance(t, ast.Subscript) and dotted(t.value) in ("self._defaults", "parser._defaults"):
                        ok = fq == "_core:ActionsContainer.set_defaults"
                        ctx.oblige("C08.c", ok, s, "parser._defaults written only by set_defaults" if ok else "parser._defaults written outside set_defaults", fn=fn)
    ctx.floor("C08.c-default-writers", n_w, 4)
    # _expand_help restores the temporary default
    eh = ctx.func("_formatters:DefaultHelpFormatter._expand_help")
    g = ctx.cfg(eh)
    saves = [s for s in walk_local(eh) if isinstance(s, ast.Assign) and isinstance(s.value, ast.Attribute) and s.value.attr == "default" and isinstance(s.targets[0], ast.Name)]
    ok = bool(saves)
    if ok:
        sv = saves[0].targets[0].id
        restores = [s for s in walk_local(eh) if isinstance(s, ast.Assign) and any(isinstance(t, ast.Attribute) and t.attr == "default" for t in s.targets) and isinstance(s.value, ast.Name) and s.value.id == sv]
        temps = [s for s in walk_local(eh) if isinstance(s, ast.Assign) and any(isinstance(t, ast.Attribute) and t.attr == "default" for t in s.targets) and s not in restores]
        ok = bool(restores) and bool(temps) and g.dominates(g.cn(saves), g.cn(temps)) and g.must_pass(g.cn(restores), g.cn(temps), [g.exit], exclude_labels={"e", "r"}, strict=True)
        in_finally = any(part == "finalbody" for r in restores for _, part in enclosing_trys(r))
        if ok and not in_finally:
            ctx.notes.append("observation (not a violation): _expand_help restores action.default on the normal path only; no input is known that raises between the temporary assignment and the restore")
    ctx.oblige("C08.c", ok, eh, "the temporary default used while rendering help is restored on every normal path" if ok else "_expand_help can leave the temporary default in place", fn=eh, construct="expand_help restore")

    # ---------------- C08.d: no live default instances ----------------------------
    nd = ctx.func("_typehints:ActionTypeHint.normalize_default")
    ctx.expect_locals(nd, ["default", "default_type", "is_subclass_type"])
    rz = [r for r in walk_local(nd) if isinstance(r, ast.Raise)]
    ok = bool(rz)
    if ok:
        txt = " ".join(ast.unparse(t) for t, pol in guard_chain(rz[0]))
        ok = "allow_default_instance" in txt and "is_subclass_type" in txt and "is_subclass_typehint(default_type)" in txt.replace("self.", "")
    lazy = [s_ for s_ in walk_local(nd) if isinstance(s_, ast.Assign) and isinstance(s_.value, ast.Call) and call_leaf(s_.value) == "lazy_get_init_data"]
    ok = ok and bool(lazy)
    ctx.oblige("C08.d", ok, rz[0] if rz else nd, "an instance given as default of a class-typed argument is turned into a class_path/init_args spec (lazy instance) or rejected: instantiate_classes always builds from a spec, never hands out a shared live default" if ok else "live default instances of class-typed arguments are accepted: every instantiate_classes call would return the same object", fn=nd, construct="no live default instances")

    ctx.assumptions += [
        "external callees do not mutate their arguments except through the mutating-method vocabulary (append, extend, insert, pop, remove, clear, update, setdefault, sort, ...)",
        "closure captures of nested functions are treated as unrelated to the enclosing function's parameters",
        "isinstance tests refine the possible container types of a local along each branch; a subscript store on a value that cannot be a dict/Namespace/list cannot mutate",
        f"call graph: {eff.cg.stats['resolved']} of {eff.cg.stats['calls']} call sites resolved into the package ({eff.cg.stats['imprecise']} imprecise by name, {eff.cg.stats['unresolved']} unresolved expressions); the rest are external",
    ]
    return ctx.finish(
        explanation=(
            "Effect analysis: an alias/mutation summary (which parameter may be written, at which depth) is computed for every function reachable from the public API to a fixpoint over "
            "the call graph, with copy semantics of clone/recreate_branches/strip_meta (deep except below tuples), list()/dict()/Namespace() (shallow) and deepcopy; the public parameters "
            "and the value adapters must have no TOP/INTERIOR write. Plus: restore-on-all-paths for cwd / argparse.Namespace, ownership of os.chdir / os.environ / argparse attributes, and "
            "declared defaults copied on the way out and written only by the set-up API. Decides 'does this call write to an object it did not create' for every path of the code; "
            "instance freshness of instantiate_classes is not decided."
        ),
        rule_text="one obligation per (entry point, parameter) summary, per API-boundary copy, per global-state writer and per default writer; chains are reported from the entry to the storing statement",
    )
