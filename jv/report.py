"""Check context: obligations, findings, known findings, evidence, exit protocol."""

from __future__ import annotations

import ast
import json
import os
import time
from typing import Any, Callable, Dict, List, Optional

from .cfg import CFG, NoReturnOracle
from .srcmodel import AnalysisError, Repo, construct_key, enclosing_function, loc, qualname, src

VERIF_DIR = os.path.dirname(os.path.dirname(os.path.abspath(__file__)))
KNOWN_FINDINGS = os.path.join(VERIF_DIR, "known_findings.json")


class Obligation:
    __slots__ = ("rule", "site", "ok", "why", "nontrivial", "key")

    def __init__(self, rule: str, site: str, ok: bool, why: str, nontrivial: bool, key: str):
        self.rule, self.site, self.ok, self.why, self.nontrivial, self.key = rule, site, ok, why, nontrivial, key

    def as_dict(self) -> Dict[str, Any]:
        return {"rule": self.rule, "site": self.site, "verdict": "holds" if self.ok else "FAILS", "why": self.why}


class Finding:
    def __init__(self, rule: str, function: str, construct: str, message: str, location: str, details: Optional[Dict[str, Any]] = None):
        self.rule = rule
        self.function = function
        self.construct = construct
        self.message = message
        self.location = location
        self.details = details or {}

    @property
    def key(self) -> str:
        return f"{self.rule}|{self.function}|{self.construct}"

    def as_dict(self) -> Dict[str, Any]:
        return {
            "rule": self.rule,
            "function": self.function,
            "construct": self.construct,
            "key": self.key,
            "message": self.message,
            "location": self.location,
            "details": self.details,
        }


class Ctx:
    """Per-run context shared by all rules of one property."""

    def __init__(self, prop: str, tier: str = "quick", repo: Optional[Repo] = None):
        self.prop = prop
        self.tier = tier
        self.t0 = time.time()
        self.repo = repo or Repo()
        self._noreturn: Optional[NoReturnOracle] = None
        self._cfgs: Dict[int, CFG] = {}
        self.obligations: List[Obligation] = []
        self.findings: List[Finding] = []
        self.analysed: Dict[str, Any] = {"functions": set(), "call_sites": 0, "units": len(self.repo.modules)}
        self.trusted_base: List[str] = []
        self.assumptions: List[str] = []
        self.notes: List[str] = []
        self.floors: Dict[str, List[int]] = {}
        self.deferred_floors: set = set()
        self.extra: Dict[str, Any] = {}

    # -------------------------------------------------------------- engines
    @property
    def noreturn(self) -> NoReturnOracle:
        if self._noreturn is None:
            self._noreturn = NoReturnOracle(self.repo)
        return self._noreturn

    def cfg(self, fn: ast.AST) -> CFG:
        g = self._cfgs.get(id(fn))
        if g is None:
            g = CFG(fn, self.noreturn)
            self._cfgs[id(fn)] = g
        self.analysed["functions"].add(qualname(fn))
        return g

    def func(self, ref: str) -> ast.AST:
        fn = self.repo.func(ref)
        self.analysed["functions"].add(ref)
        return fn

    # ---------------------------------------------------------- obligations
    def oblige(
        self,
        rule: str,
        ok: bool,
        node: Optional[ast.AST],
        why: str,
        *,
        fn: Optional[ast.AST] = None,
        site: Optional[str] = None,
        construct: Optional[str] = None,
        nontrivial: bool = True,
        details: Optional[Dict[str, Any]] = None,
        function: Optional[str] = None,
    ) -> bool:
        """Record one obligation; a failing one becomes a finding."""
        if fn is None and node is not None:
            fn = enclosing_function(node)
        fq = function or (qualname(fn) if fn is not None else "<module>")
        if construct is None:
            construct = construct_key(node, fn) if node is not None else (site or rule)
        where = loc(node, fn) if node is not None else (site or "")
        sitetxt = site or f"{fq} :: {src(node) if node is not None else construct}"
        self.obligations.append(Obligation(rule, sitetxt, ok, why, nontrivial, f"{rule}|{fq}|{construct}"))
        if not ok:
            self.findings.append(Finding(rule, fq, construct, why, where, details))
        return ok

    def floor(self, rule: str, got: int, want: int, defer: bool = False) -> None:
        """Vacuity floor: the rule must have matched at least `want` instances.  A missed floor ends the run as
        ANALYSIS-ERROR at once; with defer=True it is judged in finish(), where a violation found by a LATER rule
        about the same construct (the edit that removed the instance) is the more specific report."""
        self.floors[rule] = [got, want]
        if got < want and not defer:
            raise AnalysisError(f"rule {rule} matched {got} instance(s), below the floor of {want} confirmed by hand")
        if defer:
            self.deferred_floors.add(rule)

    def expect_locals(self, fn: ast.AST, names) -> None:
        """The rule about to run identifies statements through these local variable names.  If one of them no
        longer exists in the function (renamed / removed by a refactoring) the rule cannot be evaluated: that is
        an ANALYSIS-ERROR (the rule must be re-anchored), never a violation."""
        from .srcmodel import local_names, qualname

        have = set(local_names(fn))
        missing = [n for n in names if n not in have]
        if missing:
            raise AnalysisError(f"anchor vanished: local variable(s) {missing} of {qualname(fn)} (renamed or removed); the rule that reads them must be re-anchored")

    def need(self, cond: Any, what: str) -> Any:
        if not cond:
            raise AnalysisError(f"anchor vanished: {what}")
        return cond

    # ------------------------------------------------------------- finishing
    def finish(self, explanation: str, rule_text: str, level: str = "other") -> int:
        known = load_known(self.prop)
        known_keys = {k["key"]: k for k in known if k.get("status", "known") == "known"}
        new: List[Finding] = []
        listed: List[Finding] = []
        seen_keys = set()
        for f in self.findings:
            if f.key in seen_keys:
                continue
            seen_keys.add(f.key)
            (listed if f.key in known_keys else new).append(f)
        missed = [f"rule {r} matched {g} instance(s), below the floor of {w} confirmed by hand" for r, (g, w) in sorted(self.floors.items()) if g < w and r in self.deferred_floors]
        if missed and not new:
            raise AnalysisError("; ".join(missed))
        for m in missed:
            self.notes.append("floor missed (reported together with the violation found): " + m)

        wall = time.time() - self.t0
        n_obl = len(self.obligations)
        distinct = len({o.key for o in self.obligations if o.nontrivial})
        samples = [o.as_dict() for o in self.obligations if not o.ok][:6]
        # spread samples over rules
        by_rule: Dict[str, List[Obligation]] = {}
        for o in self.obligations:
            by_rule.setdefault(o.rule, []).append(o)
        for rule in sorted(by_rule):
            for o in by_rule[rule][:2]:
                if len(samples) < 16 and o.as_dict() not in samples:
                    samples.append(o.as_dict())
        an = dict(self.analysed)
        an["functions"] = len(an["functions"])
        an["functions_in_package"] = self.repo.n_functions()
        coverage: Dict[str, Any] = {
            "explanation": explanation,
            "rule": rule_text,
            "evaluations": n_obl,
            "distinct_nontrivial": distinct,
            "obligations": n_obl,
            "discharged": sum(1 for o in self.obligations if o.ok),
            "samples": samples,
            "exhaustive": True,
            "analysed": an,
            "per_rule": {r: {"obligations": len(v), "failed": sum(1 for o in v if not o.ok)} for r, v in sorted(by_rule.items())},
            "floors": {r: {"matched": g, "floor": w} for r, (g, w) in sorted(self.floors.items())},
            "trusted_base": self.trusted_base,
            "checker_cmd": f"/venv/bin/python -m jv.check {self.prop} --tier {self.tier}",
            "repo_digest": self.repo.digest,
            "known_findings_reported": [f.key for f in listed],
            "new_findings": [f.as_dict() for f in new],
            "notes": self.notes,
        }
        coverage.update(self.extra)
        ev = {
            "property_id": self.prop,
            "tier": self.tier,
            "seed": int(os.environ.get("VERIF_SEED", "0") or 0),
            "level": level,
            "coverage": coverage,
            "assumptions": self.assumptions,
            "wall_s": round(wall, 3),
            "violations": len(new),
        }
        write_evidence(self.prop, ev)

        print(f"[{self.prop}] tier={self.tier} repo={self.repo.root} digest={self.repo.digest}")
        print(
            f"[{self.prop}] analysed: {an['units']} modules, {an['functions']} functions consulted "
            f"(of {an['functions_in_package']}), {n_obl} obligations ({distinct} distinct non-trivial), "
            f"{coverage['discharged']} discharged"
        )
        for r, v in coverage["per_rule"].items():
            fl = coverage["floors"].get(r)
            print(f"[{self.prop}]   rule {r}: {v['obligations']} obligations, {v['failed']} failed" + (f" (floor {fl['floor']}, matched {fl['matched']})" if fl else ""))
        for f in listed:
            k = known_keys[f.key]
            print(f"KNOWN-FINDING: property={self.prop} {k.get('id', '')} {k.get('what', f.message)} [{f.key}]")
        stale = [k for key, k in known_keys.items() if key not in seen_keys and k.get("tier", "quick") in ("quick", self.tier)]
        for k in stale:
            print(f"[{self.prop}] note: listed known finding no longer reported: {k.get('id', '')} {k['key']}")
        rc = 0
        if new:
            rdir = os.path.join(os.environ.get("JV_EVIDENCE_DIR") or os.path.join(VERIF_DIR, "evidence"), "replay")
            os.makedirs(rdir, exist_ok=True)
            for i, f in enumerate(new):
                rp = os.path.join(rdir, f"{self.prop}-{i}.json")
                with open(rp, "w") as fh:
                    json.dump({"property": self.prop, **f.as_dict(), "repo": self.repo.root}, fh, indent=1)
                print(f"[{self.prop}] {f.location}: rule {f.rule}: {f.function}: {f.message}")
                print(f"[{self.prop}]     construct: {f.construct}")
                print(f"VIOLATION property={self.prop} replay={rp}")
            rc = 1
        print(f"[{self.prop}] {'FAIL' if rc else 'ok'} in {wall:.2f}s")
        return rc


def load_known(prop: str) -> List[Dict[str, Any]]:
    if not os.path.exists(KNOWN_FINDINGS):
        return []
    with open(KNOWN_FINDINGS) as f:
        data = json.load(f)
    return [k for k in data.get("findings", []) if k.get("property") == prop]


def write_evidence(prop: str, ev: Dict[str, Any]) -> None:
    out = os.environ.get("JV_EVIDENCE_DIR") or os.path.join(VERIF_DIR, "evidence")
    os.makedirs(out, exist_ok=True)
    with open(os.path.join(out, f"{prop}.json"), "w") as f:
        json.dump(ev, f, indent=1, default=_json_default)
        f.write("\n")


def _json_default(o: Any) -> Any:
    if isinstance(o, (set, frozenset)):
        return sorted(o)
    return str(o)
