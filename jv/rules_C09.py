"""C09 - a parser's answers do not depend on what it was asked before.

Decided clauses (the anchored carriers of state between calls):
  C09.a  context-variable discipline: every ContextVar.set is scoped (token reset
         in a finally that covers the yield, on normal and exceptional exits),
         extent-nested under a scoped manager, or - for the three variables set
         without reset - written before every read (the reader can only run inside
         a `with` of the setter)
  C09.b  pending-request attributes (print_config) are deleted by their consumer
         before exiting and discarded whenever a parse error is reported
  C09.c  shared mutable objects (mutable ContextVar defaults, mutable default
         parameters, class-level mutable attributes) are never written in place
  C09.d  terminal (exiting) actions do not modify the parser, themselves or the namespace
  C09.e  per-parse scratch state: parser.args is written before it is read; a new
         class parser is built for every adaptation; the lazily added shtab action is idempotent
Not decided: equality with a fresh parser over all histories.
"""

from __future__ import annotations

import ast
from typing import Dict, List, Optional, Set, Tuple

from .effects import DECLARED_DEFAULT, INTERIOR, PUBLIC_ROOTS, TOP, get_effects
from .report import Ctx
from .rules_C01 import polarity
from .shared_rules import contextvar_table
from .srcmodel import AnalysisError, FuncNode, call_leaf, call_name, calls_in, const_str, contains, dotted, enclosing_function, func_params, get_kwarg, qualname, src, walk_local
from .util import handler_type_names as handler_names
from .util import enclosing_trys, enclosing_withs, guard_chain, root_name

UNSCOPED_EXPECTED = {"parse_kwargs", "subclass_arg_parser", "dump_kwargs"}


def _is_contextmanager(fn: ast.AST) -> bool:
    return any(dotted(d) in ("contextmanager", "contextlib.contextmanager") for d in getattr(fn, "decorator_list", []))


def _inside_with_of(call: ast.Call, manager_leaves: Set[str]) -> bool:
    for w, item in enclosing_withs(call):
        ce = item.context_expr
        if isinstance(ce, ast.Call) and call_leaf(ce) in manager_leaves:
            return True
    return False


def run(ctx: Ctx) -> int:
    repo = ctx.repo
    cvs = contextvar_table(repo)
    ctx.floor("C09.a-contextvars", len(cvs), 20)

    # ---------------- C09.a ---------------------------------------------------
    set_sites: List[Tuple[str, ast.AST, ast.Call, str]] = []
    for fq, fn in repo.all_funcs():
        if fq.startswith("_deprecated:"):
            continue
        for c in calls_in(fn):
            if call_leaf(c) == "set" and isinstance(c.func, ast.Attribute) and isinstance(c.func.value, ast.Name):
                v = c.func.value.id
                if v in cvs or v == "context_var":
                    set_sites.append((fq, fn, c, v))
    ctx.floor("C09.a-set-sites", len(set_sites), 18)
    # a restore is `reset(token)`: a `set(...)` inside a finally block puts a FIXED value back, not the previous one -
    # a nested use of the same manager wipes out the value of the enclosing one
    for fq, fn, c, v in set_sites:
        if any(part == "finalbody" for _, part in enclosing_trys(c)):
            ctx.oblige("C09.a", False, c, f"{v}.set(...) in a finally block is not a restore: when this manager is used inside another use of itself (nested serialisation of list items) the outer value is replaced by a constant for the rest of the outer call", fn=fn)
    scoped_managers: Dict[str, Set[str]] = {}  # var -> manager function names
    unscoped: Dict[str, List[Tuple[str, ast.AST, ast.Call]]] = {}
    nested_candidates = []
    for fq, fn, c, v in set_sites:
        g = ctx.cfg(fn)
        # token binding
        tok = None
        for s in walk_local(fn):
            if isinstance(s, ast.Assign) and s.value is c and isinstance(s.targets[0], ast.Name):
                tok = s.targets[0].id
        yields = [n for n in walk_local(fn) if isinstance(n, ast.Expr) and isinstance(n.value, ast.Yield)] + [n for n in walk_local(fn) if isinstance(n, ast.Assign) and isinstance(n.value, ast.Yield)]
        if tok and _is_contextmanager(fn) and yields:
            resets = [r for r in calls_in(fn) if call_leaf(r) == "reset" and isinstance(r.func, ast.Attribute) and r.args and root_name(r.args[0]) == tok and any(part == "finalbody" for _, part in enclosing_trys(r))]
            ok, how = False, ""
            if resets and root_name(resets[0].func) in (v, "context_var"):
                if any(isinstance(a, ast.For) for a in _ancestors_in(resets[0], fn)):
                    # tokens collected in a list and reset in a loop (parser_context)
                    loop = [a for a in _ancestors_in(resets[0], fn) if isinstance(a, ast.For)][0]
                    lst = root_name(loop.iter)
                    app = [a for a in calls_in(fn) if call_leaf(a) == "append" and root_name(a.func) == lst and tok in [n.id for n in ast.walk(a) if isinstance(n, ast.Name)]]
                    set_loop = [a for a in _ancestors_in(c, fn) if isinstance(a, ast.For)]
                    ok = bool(app) and bool(set_loop) and g.must_pass(g.cn(app), g.cn(c), g.node_ids_of(set_loop[0]) + g.cn(yields), exclude_labels={"e"}, strict=True)
                    # from the yield, every exit passes the reset loop
                    ok = ok and g.must_pass(g.node_ids_of(loop), g.cn(yields), [g.exit, g.xexit], strict=True)
                    how = f"token appended to `{lst}`, every token reset in a finally loop that covers the yield"
                else:
                    # flag-sensitive: `if token:` around the reset is true whenever the set ran
                    removed = set()
                    for r in resets:
                        for t, pol in guard_chain(r):
                            if isinstance(t, ast.Name) and t.id == tok and pol:
                                for nid in g.by_ast.get(id(t), []):
                                    for tt, lab in g.nodes[nid].succ:
                                        if lab == "f":
                                            removed.add((nid, tt, lab))
                    starts = [t for i in g.cn(c) for t, lab in g.nodes[i].succ if lab != "e"]
                    # obligation anchored at the yield: paths set -> yield -> (any exit) must pass the reset
                    via_yield = g.reachable(starts, include_srcs=True) & set(g.cn(yields))
                    reach = g.reachable(sorted(via_yield), removed=g.cn(resets), removed_edges=removed, include_srcs=False)
                    ok = bool(via_yield) and g.exit not in reach and g.xexit not in reach
                    how = "token reset in a finally covering the yield (normal and exceptional exits)"
            ctx.oblige("C09.a", ok, c, f"{v}.set is scoped: {how}" if ok else f"{v}.set keeps a token but the reset does not cover every exit of the manager after the yield: the value set here can leak into later calls", fn=fn)
            if ok:
                scoped_managers.setdefault(v, set()).add(fn.name)
                if v == "context_var":
                    for name in cvs:
                        scoped_managers.setdefault(name, set()).add(fn.name)
        else:
            nested_candidates.append((fq, fn, c, v))
    # extent-nested / unscoped
    callers = {}
    for fq, fn in repo.all_funcs():
        for c in calls_in(fn):
            l = call_leaf(c)
            if l:
                callers.setdefault(l, []).append((fq, fn, c))
    for fq, fn, c, v in nested_candidates:
        mgrs = scoped_managers.get(v, set())
        # every in-package call of the enclosing function is (transitively, <= 3 levels) inside a `with` of a scoped manager of v
        def guarded(f: ast.AST, depth: int, seen: Set[int]) -> bool:
            sites = [(q, ff, cc) for q, ff, cc in callers.get(f.name, []) if ff is not f]
            if not sites:
                return False
            for q, ff, cc in sites:
                if _inside_with_of(cc, mgrs):
                    continue
                if depth <= 0 or id(ff) in seen:
                    return False
                if not guarded(ff, depth - 1, seen | {id(ff)}):
                    return False
            return True

        if mgrs and not _is_contextmanager(fn) and guarded(fn, 4, {id(fn)}):
            ctx.oblige("C09.a", True, c, f"{v}.set without token is extent-nested: every caller runs inside `with {'/'.join(sorted(mgrs))}(...)`, whose reset restores the variable", fn=fn)
        else:
            unscoped.setdefault(v, []).append((fq, fn, c))
    got_unscoped = set(unscoped)
    extra_unscoped = sorted(got_unscoped - UNSCOPED_EXPECTED)
    for v in extra_unscoped:
        fq, fn, c = unscoped[v][0]
        ctx.oblige("C09.a", False, c, f"{v}.set is neither reset nor nested under a scoped manager: the value survives the call and is visible to later, unrelated calls", fn=fn)

    # write-before-read for the three variables that are set without reset
    def wbr(var: str, manager: str, gate_leaf: str, readers_expected: Set[str]):
        """every in-package call of `gate_leaf` is inside `with <manager>(...)`; the readers of var are
        exactly functions that argparse dispatches to from within the gate."""
        sites = [(q, f, c) for q, f, c in callers.get(gate_leaf, []) if not q.startswith(("_deprecated:", "_completions:"))]
        if not sites:
            raise AnalysisError(f"anchor vanished: calls of {gate_leaf}")
        for q, f, c in sites:
            ok = _inside_with_of(c, {manager})
            ctx.oblige("C09.a", ok, c, f"{gate_leaf}(...) runs inside `with {manager}(...)`: {var} is written before argparse can dispatch to its readers" if ok else f"{gate_leaf}(...) is called outside `with {manager}(...)`: readers of {var} would see the value left by an earlier parse", fn=f)
        readers = set()
        for q, f in repo.all_funcs():
            for c in calls_in(f):
                if call_leaf(c) == "get" and isinstance(c.func, ast.Attribute) and isinstance(c.func.value, ast.Name) and c.func.value.id == var and not c.args:
                    readers.add(q)
        extra = sorted(readers - readers_expected)
        ctx.oblige("C09.a", not extra, None, f"{var} is read only by {sorted(readers)} (dispatched by argparse from inside the gate)" if not extra else f"{var} has readers outside the dispatch extent of its setter: {extra}", site=f"readers of {var}", construct=f"readers of {var}", function="<package>")

    if "parse_kwargs" in unscoped:
        wbr("parse_kwargs", "parse_kwargs_context", "parse_known_args", {"_actions:_ActionSubCommands.__call__"})
    if "subclass_arg_parser" in unscoped:
        wbr("subclass_arg_parser", "subclass_arg_context", "_parse_known_args", {"_typehints:ActionTypeHint.parse_argv_item"})
        # parse_argv_item is only called from the argparse hook _parse_optional
        pai = [q for q, f, c in callers.get("parse_argv_item", [])]
        ok = set(pai) <= {"_core:ArgumentParser._parse_optional"}
        ctx.oblige("C09.a", ok, None, "parse_argv_item is only called from the argparse hook _parse_optional" if ok else f"parse_argv_item has other callers: {sorted(pai)}", site="callers of parse_argv_item", construct="callers of parse_argv_item", function="<package>")
    if "dump_kwargs" in unscoped:
        # readers run only when serialising; every entry into serialising adaptation sets the variable first
        for ref in ("_typehints:adapt_typehints", "_typehints:adapt_class_type"):
            fn = ctx.func(ref)
            for c in calls_in(fn):
                if call_leaf(c) == "get" and isinstance(c.func, ast.Attribute) and root_name(c.func) == "dump_kwargs" and not c.args:
                    ct, cf = polarity(c, fn)
                    ok = ct and not cf
                    ctx.oblige("C09.a", ok, c, "dump_kwargs is read only while serialising" if ok else "dump_kwargs is read on the parsing path, where nothing sets it", fn=fn)
        n_ser = 0
        for q, f in repo.all_funcs():
            if q.startswith("_deprecated:"):
                continue
            for c in calls_in(f):
                lf = call_leaf(c)
                ser = None
                if lf == "adapt_typehints":
                    ser = get_kwarg(c, "serialize") or (c.args[2] if len(c.args) > 2 else None)
                elif lf in ("adapt_class_type", "adapt_classes_any"):
                    ser = c.args[1] if len(c.args) > 1 else get_kwarg(c, "serialize")
                if ser is None:
                    continue
                if isinstance(ser, ast.Constant) and ser.value is True:
                    n_ser += 1
                    inside_family = q.split(":")[1].split(".")[0] in ("adapt_typehints", "adapt_class_type", "adapt_classes_any")
                    ok = _inside_with_of(c, {"dump_kwargs_context"}) or inside_family
                    ctx.oblige("C09.a", ok, c, "serialising adaptation is entered inside dump_kwargs_context (or from within the adapters, already inside it)" if ok else "serialising adaptation is entered without setting dump_kwargs: the kwargs of an earlier dump would be used", fn=f)
        ctx.floor("C09.a-serialising-entries", n_ser, 2)
    ctx.extra["contextvars"] = {"declared": len(cvs), "set_sites": len(set_sites), "scoped_managers": {k: sorted(v) for k, v in scoped_managers.items() if k != "context_var"}, "unscoped": sorted(unscoped)}

    # ---------------- C09.b ---------------------------------------------------
    # discovery: attributes stored on a parser by an Action.__call__ and tested with hasattr elsewhere
    stored: Dict[str, Tuple[str, ast.AST]] = {}
    for fq, fn in repo.all_funcs():
        if fn.name == "__call__" and "parser" in func_params(fn):
            for s in walk_local(fn):
                if isinstance(s, ast.Assign) and isinstance(s.targets[0], ast.Attribute) and root_name(s.targets[0]) == "parser":
                    stored[s.targets[0].attr] = (fq, s)
    tested: Dict[str, List[Tuple[str, ast.AST]]] = {}
    for fq, fn in repo.all_funcs():
        for c in calls_in(fn):
            if call_leaf(c) == "hasattr" and isinstance(c.func, ast.Name) and len(c.args) == 2 and const_str(c.args[1]) in stored:
                tested.setdefault(const_str(c.args[1]), []).append((fq, fn))
    flags = sorted(a for a in stored if a in tested)
    ctx.floor("C09.b-request-flags", len(flags), 1)
    for a in flags:
        consumers = [(fq, fn) for fq, fn in tested[a] if any(call_leaf(c) == "exit" for c in calls_in(fn))]
        ctx.need(consumers, f"consumer of request flag {a}")
        for fq, fn in consumers:
            g = ctx.cfg(fn)
            dels = [c for c in calls_in(fn) if call_leaf(c) == "delattr" and len(c.args) == 2 and const_str(c.args[1]) == a]
            exits = [c for c in calls_in(fn) if call_leaf(c) == "exit" and root_name(c.func) == "parser"]
            ok = bool(dels) and g.dominates(g.cn(dels), g.cn(exits))
            ctx.oblige("C09.b", ok, exits[0] if exits else fn, f"the pending `{a}` request is deleted before the process exit it causes" if ok else f"the consumer exits while the `{a}` request is still stored on the parser", fn=fn)
        # discarded whenever a parse error is reported
        err = ctx.func("_core:ArgumentParser.error")
        ge = ctx.cfg(err)
        discarders = set()
        for fq, fn in repo.all_funcs():
            if any(call_leaf(c) == "delattr" and len(c.args) == 2 and const_str(c.args[1]) == a for c in calls_in(fn)) and any(isinstance(n, ast.While) or "parent_parser" in ast.unparse(n) for n in walk_local(fn) if isinstance(n, (ast.While, ast.Assign))):
                if (fq, fn) not in consumers:
                    discarders.add(fn.name)
        dcalls = [c for c in calls_in(err) if call_leaf(c) in discarders]
        leaving = [r for r in walk_local(err) if isinstance(r, ast.Raise)] + [c for c in calls_in(err) if call_leaf(c) in ("exit", "_error_handler")]  # a user error handler may raise or exit itself
        ctx.need(set(ge.cn(leaving)) <= ge.live_nodes() and set(ge.cn(dcalls)) <= ge.live_nodes(), "ArgumentParser.error: the leaving points and the discard call are reachable in the CFG (a dominance claim about dead code is vacuous)")
        ok = bool(dcalls) and ge.dominates(ge.cn(dcalls), ge.cn(leaving)) and all(c.args and root_name(c.args[0]) == "self" for c in dcalls)
        ctx.oblige("C09.b", ok, dcalls[0] if dcalls else err, f"every reported parse error first discards a pending `{a}` request (walking up to the root parser)" if ok else f"a parse error leaves a pending `{a}` request on the parser: the next successful parse prints the configuration and exits", fn=err, construct=f"discard {a} on error")

        # ... and whenever an action ENDS the parse by exiting (--help, --version, --print_shtab run inside argparse's
        # _parse_known_args): the call is under a handler for SystemExit that discards the request and re-raises
        # (F50: after parse_args(['--print_config', '--help']) the next parse printed the config and exited)
        pka = ctx.func("_core:ArgumentParser.parse_known_args")
        inner_calls = [c for c in calls_in(pka) if call_leaf(c) == "_parse_known_args"]
        ctx.need(inner_calls, "parse_known_args: self._parse_known_args(...)")
        for c in inner_calls:
            hs_ = [h for t, part in enclosing_trys(c) if part == "body" for h in t.handlers if h.type is None or set(handler_names(h)) & {"SystemExit", "BaseException"}]
            from .util import guard_atoms as _ga9

            # the discard is unconditional inside the handler: an exit with status 0 (--help, --version) is an exit too
            good_h = [h for h in hs_ if any(call_leaf(x) in discarders and x.args and root_name(x.args[0]) == "self" and not _ga9(x, stop=h) for x in calls_in(h)) and any(isinstance(r, ast.Raise) and r.exc is None for r in ast.walk(h))]
            ok = bool(good_h)
            ctx.oblige("C09.b", ok, good_h[0] if good_h else c, f"an exiting action inside the argument loop first discards a pending `{a}` request" if ok else f"an action that exits inside the argument loop (--help, --version) leaves a pending `{a}` request on the parser: after parse_args(['--print_config', '--help']) the next successful parse prints the configuration and exits", fn=pka, construct=f"discard {a} on exit from the argument loop")

        # ... and on EVERY way out of the argument loop, not only SystemExit: a user type function may raise anything
        # (type=os.listdir -> FileNotFoundError; an omegaconf --cfg file -> InterpolationKeyError); the handler that
        # discards and re-raises must catch every exception
        for c in inner_calls:
            hs_all = [h for t, part in enclosing_trys(c) if part == "body" for h in t.handlers if any(call_leaf(x) in discarders for x in calls_in(h)) and any(isinstance(r, ast.Raise) and r.exc is None for r in ast.walk(h))]
            wide = [h for h in hs_all if h.type is None or set(handler_names(h)) & {"BaseException"}]
            ok = bool(wide)
            ctx.oblige("C09.b", ok, wide[0] if wide else (hs_all[0] if hs_all else c), f"whatever exception ends the argument loop, a pending `{a}` request is discarded first" if ok else f"the handler that discards a pending `{a}` request around the argument loop catches only {sorted(set(n for h in hs_all for n in handler_names(h)))}: p.add_argument('--dir', type=os.listdir); p.parse_args(['--print_config', '--dir=/nonexistent']) raises FileNotFoundError with the request still pending, and the next p.parse_args(['--a=2']) prints the configuration and exits", fn=pka, construct=f"discard {a} on any exception from the argument loop")
        # the request is taken off the parser BEFORE it is served: a dump that fails (RepresenterError for a value yaml cannot
        # represent) must not leave a half-consumed request behind ({'skip_none': ...} without 'key' -> the next parse
        # fails with KeyError 'key')
        pcr = ctx.func("_actions:_ActionPrintConfig.print_config_if_requested")
        gpcr = ctx.cfg(pcr)
        dumps_ = [c for c in calls_in(pcr) if call_leaf(c) == "dump"]
        dels_ = [c for c in calls_in(pcr) if (call_leaf(c) == "delattr" and len(c.args) == 2 and const_str(c.args[1]) == a)] + [d_ for d_ in walk_local(pcr) if isinstance(d_, ast.Delete) and any(isinstance(t, ast.Attribute) and t.attr == a for t in d_.targets)]
        ctx.need(dumps_, "print_config_if_requested: subparser.dump(...)")
        ok = bool(dels_) and gpcr.dominates(gpcr.cn(dels_), gpcr.cn(dumps_))
        ctx.oblige("C09.b", ok, dels_[0] if dels_ else pcr, f"the `{a}` request is removed from the parser before the dump that serves it can fail" if ok else f"the `{a}` attribute is removed only after the dump: when the dump raises (a default that yaml cannot represent) the request stays on the parser without its 'key' / 'subparser' entries, and the next parse_args fails with ArgumentError: 'key'", fn=pcr, construct=f"{a} detached before it is served")

        # a parse method called, while a parse is running, on the parser THAT WAS HANDED IN (the one that may hold the
        # pending request) must not serve the request: such calls run under skip_print_config()
        # (F51: --print_config before --cfg printed the file's content alone from inside apply_config)
        n_nested = 0
        for fq, fn in repo.all_funcs():
            if fq.startswith(("_deprecated:", "_cli:", "_core:")):
                continue
            params_ = set(func_params(fn))
            for c in calls_in(fn):
                if call_leaf(c) not in ("parse_path", "parse_string", "parse_object", "parse_env") or not isinstance(c.func, ast.Attribute) or not isinstance(c.func.value, ast.Name):
                    continue
                recv = c.func.value.id
                if recv not in params_ or any(isinstance(s_, ast.Assign) and any(isinstance(t, ast.Name) and t.id == recv for t in s_.targets) for s_ in walk_local(fn)):
                    continue
                n_nested += 1
                ok = any(isinstance(it.context_expr, ast.Call) and call_leaf(it.context_expr) == "skip_print_config" for _w, it in enclosing_withs(c, fn))
                ctx.oblige("C09.b", ok, c, f"`{src(c, 40)}` on the handed-in parser cannot serve a pending `{a}` request" if ok else f"`{src(c, 50)}` parses with the parser that may hold a pending `{a}` request, outside skip_print_config(): with --print_config BEFORE --cfg the nested parse prints the file's content alone and exits - later arguments and the defaults are never applied", fn=fn, construct="nested parse on the handed-in parser")
        ctx.floor("C09.b-nested-parses", n_nested, 2)

        # every walk along parent_parser that handles the flag advances unconditionally and its loop
        # condition does not depend on the flag (the request lives on the root parser only)
        for fq, fn in repo.all_funcs():
            if not (fn.name in discarders or any(call_leaf(c) == "hasattr" and len(c.args) == 2 and const_str(c.args[1]) == a for c in calls_in(fn))):
                continue
            for lp in [n for n in walk_local(fn) if isinstance(n, ast.While)]:
                adv = [s for s in walk_local(lp) if isinstance(s, ast.Assign) and "parent_parser" in ast.unparse(s.value) and isinstance(s.targets[0], ast.Name)]
                if not adv:
                    continue
                gl = ctx.cfg(fn)
                test_flag = any(isinstance(x, ast.Constant) and x.value == a for x in ast.walk(lp.test))
                starts_l = [t for (_, t, _l) in gl.branch_edges(lp, "t")]
                head_l = gl.node_ids_of(lp)
                rets_l = [r for r in walk_local(lp) if isinstance(r, ast.Return)]
                ok = not test_flag and gl.must_pass(gl.cn(adv) + gl.cn(rets_l), starts_l, head_l, exclude_labels={"e"})
                ctx.oblige("C09.b", ok, lp, f"the walk up the parser chain in {fn.name} visits every ancestor (condition independent of `{a}`, unconditional advance)" if ok else f"the walk up the parser chain in {fn.name} stops at the first parser without `{a}`: a request stored on the root parser is not reached from a sub-parser", fn=fn)

    # ---------------- C09.c / C09.d (E5) ---------------------------------------
    eff = get_effects(ctx)
    n_c = 0
    for r in PUBLIC_ROOTS:
        if r not in eff.cg.funcs:
            continue
        for origin, lvl in sorted(eff.mut.get(r, {}).items()):
            if not origin.startswith("g:"):
                continue
            if origin == DECLARED_DEFAULT:
                # the declared default of an action lives as long as the parser: a write to it or to anything
                # inside it changes what every later call sees
                if lvl not in (TOP, INTERIOR):
                    continue
            elif lvl != TOP:
                # every tracked shared object is declared as an empty literal: an object inside it can only be
                # written after something was stored into it, and that store is the TOP-level write reported here
                continue
            n_c += 1
            prim = eff.primitive(r, origin)
            ctx.oblige(
                "C09.c",
                False,
                None,
                f"{origin[2:]} is written in place; chain: " + " -> ".join(eff.chain(r, origin)[:6]),
                site=f"{r} writes {origin[2:]}",
                construct=f"{origin[2:]} written in {prim.fref if prim else '?'}",
                function=r,
                details={"chain": eff.chain(r, origin)},
            )
    shared = sorted(eff.shared_globals)
    ctx.oblige("C09.c", True, None, f"shared mutable objects tracked: ContextVar defaults {shared}, mutable default parameters, class-level mutable attributes; {n_c} in-place writes found from {len(PUBLIC_ROOTS)} entry points", site="shared mutable objects", construct="shared objects tracked", function="<package>")
    ctx.floor("C09.c-tracked-globals", len(shared), 4)

    # the action's own sub_add_kwargs dict (shared by every later parse) is not written while adapting values
    from .effects import check_param_not_mutated

    for fref in ("_typehints:adapt_typehints", "_typehints:adapt_class_type", "_typehints:adapt_classes_any", "_typehints:ActionTypeHint.get_class_parser"):
        check_param_not_mutated(
            ctx,
            "C09.c",
            fref,
            "sub_add_kwargs",
            why_ok="the action's sub_add_kwargs (shared by all later parses) is not written while a value is adapted",
            why_bad="the action's own sub_add_kwargs dict (or a set inside it) is written while a value is adapted: the entry stays for every later parse on this parser",
        )

    # copy-on-write of the parser's own tables: a local that aliases an attribute of a long-lived object
    # (`x = self.attr [or {}]`) is rebound to a copy on every path before it is written in place
    MUTATORS = {"update", "append", "add", "extend", "pop", "clear", "setdefault", "insert", "remove", "discard", "popitem", "sort", "reverse"}
    FRESH_CALLS = {"copy", "deepcopy", "dict", "list", "set", "sorted", "clone"}
    n_alias = 0
    for fq, fn in repo.all_funcs():
        aliases: Dict[str, List[ast.Assign]] = {}
        for s in walk_local(fn):
            if isinstance(s, ast.Assign) and len(s.targets) == 1 and isinstance(s.targets[0], ast.Name):
                v = s.value.values[0] if isinstance(s.value, ast.BoolOp) and isinstance(s.value.op, ast.Or) else s.value
                if isinstance(v, ast.Attribute) and dotted(v) and root_name(v) in ("self", "parser", "action", "cls"):
                    aliases.setdefault(s.targets[0].id, []).append(s)
        for x, defs in aliases.items():
            muts: List[ast.AST] = [c for c in calls_in(fn) if call_leaf(c) in MUTATORS and isinstance(c.func, ast.Attribute) and isinstance(c.func.value, ast.Name) and c.func.value.id == x]
            for s in walk_local(fn):
                if isinstance(s, (ast.Assign, ast.AugAssign, ast.Delete)):
                    tgs = [s.target] if isinstance(s, ast.AugAssign) else s.targets
                    if any(isinstance(t, ast.Subscript) and isinstance(t.value, ast.Name) and t.value.id == x for t in tgs):
                        muts.append(s)
            if not muts:
                continue
            gf = ctx.cfg(fn)
            fresh = [
                s
                for s in walk_local(fn)
                if isinstance(s, ast.Assign)
                and any(isinstance(t, ast.Name) and t.id == x for t in s.targets)
                and s not in defs
                and (isinstance(s.value, (ast.Dict, ast.List, ast.Set, ast.DictComp, ast.ListComp, ast.SetComp)) or (isinstance(s.value, ast.Call) and call_leaf(s.value) in FRESH_CALLS))
            ]
            for m in muts:
                n_alias += 1
                ok = gf.must_pass(gf.cn(fresh), gf.cn(defs), gf.cn(m), exclude_labels={"e"}, strict=True)
                path = None if ok else gf.find_path(gf.cn(defs), gf.cn(m), removed=gf.cn(fresh), exclude_labels={"e"})
                ctx.oblige(
                    "C09.c",
                    ok,
                    m,
                    f"`{x}` (read from `{ast.unparse(defs[0].value)}`) is rebound to a copy on every path before this in-place write" if ok else f"`{x}` can still be the object stored in `{ast.unparse(defs[0].value)}` when it is written in place here: the long-lived object's own table keeps the entry for every later call",
                    fn=fn,
                    details={"path": gf.describe_path(path)},
                )
    ctx.floor("C09.c-alias-writes", n_alias, 2)

    terminal = []
    for q in sorted(ctx.noreturn.noreturn_quals):
        fn = repo.func(q)
        if any(call_leaf(c) == "exit" and root_name(c.func) == "parser" for c in calls_in(fn)):
            terminal.append(q)
    ctx.floor("C09.d-terminal-actions", len(terminal), 2)
    for q in terminal:
        fn = repo.func(q)
        for p in func_params(fn):
            lvl = eff.mut.get(q, {}).get(p)
            bad = lvl in (TOP, INTERIOR) and p not in ("kwargs",)
            ctx.oblige(
                "C09.d",
                not bad,
                None,
                f"terminal action {q.split(':')[1]} does not modify `{p}`" if not bad else f"terminal action {q.split(':')[1]} modifies `{p}` before exiting; a long-lived process that catches SystemExit keeps using the modified object; chain: " + " -> ".join(eff.chain(q, p)[:5]),
                site=f"{q}({p})",
                construct=f"{p} read-only in terminal action",
                function=q,
                details={"chain": eff.chain(q, p)},
            )

    # ---------------- C09.e ---------------------------------------------------
    pa = ctx.func("_core:ArgumentParser.parse_args")
    g = ctx.cfg(pa)
    st = [s for s in walk_local(pa) if isinstance(s, ast.Assign) and any(isinstance(t, ast.Attribute) and t.attr == "args" and root_name(t) == "self" for t in s.targets)]
    pk = [c for c in calls_in(pa) if call_leaf(c) == "parse_known_args"]
    ok = bool(st) and bool(pk) and g.dominates(g.cn(st), g.cn(pk))
    ctx.oblige("C09.e", ok, st[0] if st else pa, "parser.args is assigned before argparse can dispatch to its reader (class help)" if ok else "parser.args can be read by the class help action before this parse assigned it", fn=pa)
    gcp = ctx.func("_typehints:ActionTypeHint.get_class_parser")
    ctx.expect_locals(gcp, ["parser", "kwargs"])
    ctor = [s for s in walk_local(gcp) if isinstance(s, ast.Assign) and root_name(s.targets[0]) == "parser" and isinstance(s.value, ast.Call) and ast.unparse(s.value.func) == "type(parser)"]
    rets = [r for r in walk_local(gcp) if isinstance(r, ast.Return)]
    cache = [s for s in walk_local(gcp) if isinstance(s, ast.Assign) and isinstance(s.targets[0], ast.Subscript) and root_name(s.targets[0].value) not in ("kwargs",)]
    glob = [n for n in walk_local(gcp) if isinstance(n, (ast.Global, ast.Nonlocal))]
    ok = len(ctor) == 1 and all(root_name(r.value) == "parser" for r in rets) and not cache and not glob and ctx.cfg(gcp).dominates(ctx.cfg(gcp).cn(ctor), ctx.cfg(gcp).cn(rets))
    ctx.oblige("C09.e", ok, ctor[0] if ctor else gcp, "a new class parser is constructed for every adaptation (no cache)" if ok else "get_class_parser no longer builds a fresh parser per call", fn=gcp)
    hc = ctx.func("_completions:handle_completions")
    adds = [c for c in calls_in(hc) if call_leaf(c) == "add_argument"]
    from .util import strip_not

    from .util import guard_atoms

    def _neg_any(t, pol):
        return "ShtabAction" in ast.unparse(t) and isinstance(t, ast.Call) and call_leaf(t) == "any" and pol is False

    ok = bool(adds) and all(any(_neg_any(t, pol) for t, pol in guard_atoms(a)) for a in adds)
    ctx.oblige("C09.e", ok, adds[0] if adds else hc, "the lazily added --print_shtab action is added at most once" if ok else "--print_shtab can be added on every parse", fn=hc)

    ctx.trusted_base += ["argparse dispatches to Action.__call__ and to the _parse_optional hook only from inside _parse_known_args"]
    # process-wide tables (builtins, a module's globals) are copied before anything is added to them
    n_pw = 0
    for fq, fn in repo.all_funcs():
        for s in walk_local(fn):
            if not (isinstance(s, ast.Assign) and len(s.targets) == 1 and isinstance(s.targets[0], ast.Name)):
                continue
            v_ = s.value
            wide = (isinstance(v_, ast.Name) and v_.id == "__builtins__") or (isinstance(v_, ast.Call) and isinstance(v_.func, ast.Name) and v_.func.id in ("vars", "globals") and not (v_.func.id == "vars" and v_.args and isinstance(v_.args[0], ast.Name) and v_.args[0].id in ("self", "cfg", "namespace", "value", "val")))
            if not wide:
                continue
            x = s.targets[0].id
            muts_ = [c for c in calls_in(fn) if call_leaf(c) in MUTATORS and isinstance(c.func, ast.Attribute) and isinstance(c.func.value, ast.Name) and c.func.value.id == x] + [a_ for a_ in walk_local(fn) if isinstance(a_, (ast.Assign, ast.Delete)) and any(isinstance(t, ast.Subscript) and isinstance(t.value, ast.Name) and t.value.id == x for t in a_.targets)]
            if not muts_:
                continue
            n_pw += 1
            ctx.oblige("C09.c", False, muts_[0], f"`{x}` is `{src(v_, 30)}` itself (no copy) and is written in place: names resolved for one module stay in the process-wide table - an annotation name that another module never defines becomes resolvable there, and what a parser accepts depends on which classes were parsed before", fn=fn, construct="process-wide table written")
    # (the clean tree has none; the positive example that keeps the pattern alive is the copy form below)
    copies_pw = [s for fq, fn in repo.all_funcs() for s in walk_local(fn) if isinstance(s, ast.Assign) and isinstance(s.value, ast.Call) and call_leaf(s.value) == "copy" and isinstance(s.value.func, ast.Attribute) and isinstance(s.value.func.value, ast.Name) and s.value.func.value.id == "__builtins__"]
    ctx.floor("C09.c-builtins-copied", len(copies_pw), 1, defer=True)
    # class-level mutable attributes are shared by all instances: a method that writes one through `self` without
    # having rebound it on the instance first leaks one call's findings into every later call
    n_cls = 0
    for m in repo.modules.values():
        for cd in [c for c in ast.walk(m.tree) if isinstance(c, ast.ClassDef)]:
            shared_attrs = {}
            for s in cd.body:
                tgt, val = (s.target, s.value) if isinstance(s, ast.AnnAssign) else (s.targets[0], s.value) if isinstance(s, ast.Assign) and len(s.targets) == 1 else (None, None)
                if isinstance(tgt, ast.Name) and isinstance(val, (ast.Dict, ast.List, ast.Set)) or (isinstance(tgt, ast.Name) and isinstance(val, ast.Call) and isinstance(val.func, ast.Name) and val.func.id in ("dict", "list", "set") and not val.args):
                    shared_attrs[tgt.id] = s
            for a_, decl in shared_attrs.items():
                methods_ = [f for f in cd.body if isinstance(f, FuncNode)]
                rebinds = [s for f in methods_ for s in walk_local(f) if isinstance(s, (ast.Assign, ast.AnnAssign)) and any(isinstance(t, ast.Attribute) and t.attr == a_ and isinstance(t.value, ast.Name) and t.value.id == "self" for t in (s.targets if isinstance(s, ast.Assign) else [s.target]))]
                writes_ = [c for f in methods_ for c in calls_in(f) if call_leaf(c) in MUTATORS and isinstance(c.func, ast.Attribute) and isinstance(c.func.value, ast.Attribute) and c.func.value.attr == a_ and isinstance(c.func.value.value, ast.Name) and c.func.value.value.id in ("self", "cls")] + [s for f in methods_ for s in walk_local(f) if isinstance(s, (ast.Assign, ast.Delete)) and any(isinstance(t, ast.Subscript) and isinstance(t.value, ast.Attribute) and t.value.attr == a_ and isinstance(t.value.value, ast.Name) and t.value.value.id in ("self", "cls") for t in s.targets)]
                if not writes_:
                    continue
                n_cls += 1
                ok = bool(rebinds)
                ctx.oblige("C09.c", ok, writes_[0], f"{cd.name}.{a_} is rebound on the instance before it is written" if ok else f"{cd.name}.{a_} is a class-level {type(decl.value).__name__.lower() if hasattr(decl, 'value') else 'container'} written through self and never rebound on the instance: what one call collects is seen by every later call in the process - the answer of a parser depends on which modules were resolved before", fn=cd, site=f"{m.name}:{cd.name}.{a_}", construct=f"{cd.name}.{a_} class-level mutable", function=f"{m.name}:{cd.name}")
    ctx.extra["class_level_mutables_written"] = n_cls

    # a signature default that is an INSTANCE (engine: Engine = Turbo(power=3)) is replaced by a class spec, so that every
    # instantiate_classes call builds a new object; the test that recognises such defaults covers subclasses
    ipd = ctx.func("_parameter_resolvers:is_param_subclass_instance_default")
    inst_tests = [c for c in calls_in(ipd) if call_leaf(c) == "isinstance" and "default" in ast.unparse(c.args[0])]
    exact_tests = [c_ for c_ in ast.walk(ipd) if isinstance(c_, ast.Compare) and isinstance(c_.left, ast.Call) and call_leaf(c_.left) == "type" and "default" in ast.unparse(c_.left)]
    ok = bool(inst_tests) and not exact_tests
    ctx.oblige("C09.c", ok, (exact_tests or inst_tests or [ipd])[0], "an instance default of the declared class or of any subclass is recognised (isinstance)" if ok else "instance defaults are recognised by exact class only: `engine: Engine = Turbo(power=3)` stays a live object - every instantiate_classes call hands out the SAME instance, the one stored in the function's __defaults__; a change made through one result shows in every later one", fn=ipd, construct="instance defaults of subclasses become specs")

    # ---------------- C09.f the yaml customisation stays private to the library's classes ----------------------------
    # remove_implicit_resolver copies the class's resolver table SHALLOWLY: the lists inside are still the ones of
    # PyYAML's own Resolver / SafeLoader / SafeDumper.  The lists must therefore be replaced (every entry rebound to
    # a new list), never edited in place - an in-place edit removes the resolver from PyYAML's classes and from the
    # library's dumper as well, and what a dump writes then depends on whether any yaml text was loaded before
    rir = ctx.func("_loaders_dumpers:remove_implicit_resolver")
    MUT = {"append", "remove", "pop", "clear", "extend", "insert", "sort", "reverse", "__setitem__", "__delitem__", "__iadd__"}
    table_alias = {s_.targets[0].id for s_ in walk_local(rir) if isinstance(s_, ast.Assign) and isinstance(s_.targets[0], ast.Name) and "yaml_implicit_resolvers" in ast.unparse(s_.value)}

    def _is_table(e: ast.AST) -> bool:
        return "yaml_implicit_resolvers" in ast.unparse(e) or root_name(e.func if isinstance(e, ast.Call) else e) in table_alias

    loops_r = [l for l in walk_local(rir) if isinstance(l, ast.For) and _is_table(l.iter)]
    ctx.need(loops_r, "remove_implicit_resolver: loop over the resolver table")
    for l in loops_r:
        tnames = [n_.id for n_ in ast.walk(l.target) if isinstance(n_, ast.Name)]
        leaf_ = call_leaf(l.iter) if isinstance(l.iter, ast.Call) else None
        inner = set(tnames[-1:]) if leaf_ in ("items", "values") else set()
        bad = []
        for n_ in ast.walk(l):
            if isinstance(n_, (ast.Assign, ast.AugAssign, ast.Delete)):
                tg = n_.targets if not isinstance(n_, ast.AugAssign) else [n_.target]
                bad += [n_ for t in tg if (isinstance(t, ast.Subscript) and root_name(t) in inner) or (isinstance(n_, ast.AugAssign) and isinstance(t, ast.Name) and t.id in inner)]
            if isinstance(n_, ast.Call) and isinstance(n_.func, ast.Attribute) and n_.func.attr in MUT and root_name(n_.func) in inner:
                bad.append(n_)
        ok = not bad
        ctx.oblige("C09.f", ok, bad[0] if bad else l, "the shared resolver lists are not edited in place" if ok else f"`{src(bad[0], 60)}` edits a resolver list in place: after the shallow copy of the table these lists still belong to PyYAML's Resolver and to the library's dumper - the timestamp resolver disappears there too, and the same dump writes '2024-01-01' quoted before and unquoted after an unrelated parse", fn=rir)
        rebinds = [s_ for s_ in l.body if isinstance(s_, ast.Assign) and isinstance(s_.targets[0], ast.Subscript) and _is_table(s_.targets[0].value) and (isinstance(s_.value, (ast.ListComp, ast.List)) or (isinstance(s_.value, ast.Call) and call_leaf(s_.value) == "list"))]
        ok = bool(rebinds) and isinstance(l.iter, ast.Call) and not l.iter.args
        ctx.oblige("C09.f", ok, rebinds[0] if rebinds else l, "every entry of the table is rebound to a new list (later add_implicit_resolver calls append to private lists)" if ok else "not every entry of the resolver table is replaced by a new list: PyYAML's add_implicit_resolver appends to the lists it finds - the library's float resolver would be added to PyYAML's own classes", fn=rir)

    return ctx.finish(
        explanation=(
            "State carried between calls, checked on every path: all ContextVar.set sites are enumerated and classified (scoped with reset in a finally covering the yield, via CFG must-pass "
            "queries incl. exceptional edges; extent-nested; or - for the three variables set without reset - write-before-read through lexical `with` gates around the argparse entry points); "
            "request-flag typestate of print_config (deleted before exit, discarded on every reported error); in-place writes to shared mutable objects and writes by terminal actions, from the "
            "interprocedural effect summaries (E5). Decides these anchored carriers of history, not equality with a fresh parser over all operation sequences."
        ),
        rule_text="one obligation per ContextVar.set site, gate call site, reader set, request flag, shared object write, terminal-action parameter",
    )


def _ancestors_in(node: ast.AST, fn: ast.AST):
    from .srcmodel import ancestors

    out = []
    for a in ancestors(node):
        if a is fn:
            break
        out.append(a)
    return out
